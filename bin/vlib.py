#!/usr/bin/env python3
"""Shared plumbing for /verif checks: building /repo out of tree in several configurations,
running TLC, writing evidence, known-findings filtering.  See DESIGN.md section 4."""
import os, sys, re, json, hashlib, subprocess, shutil, time, glob, tempfile, random

VERIF = os.path.dirname(os.path.dirname(os.path.abspath(__file__)))
REPO = os.environ.get("VERIF_REPO", "/repo")
SPEC = os.path.join(VERIF, "spec")
HARNESS = os.path.join(VERIF, "harness")
BUILD = os.environ.get("VERIF_BUILD", os.path.join(VERIF, "build"))
OUTROOT = os.environ.get("VERIF_OUT", VERIF)     # evidence/ and replays/ live here (overridden when evaluating seeded changes on scratch trees)
GUARD = "JEDI_PAIRING_VERIF"
TLA_JAR = "/opt/veriftools/tla/tla2tools.jar"
TLA_CP = TLA_JAR + ":/opt/veriftools/tla/CommunityModules-deps.jar"
NCPU = os.cpu_count() or 4

class Infra(Exception):
    """infrastructure failure (exit 2), never a violation"""

def log(*a):
    print(*a, file=sys.stderr, flush=True)

def sh(cmd, timeout=None, cwd=None, env=None, check=True, capture=True):
    e = dict(os.environ)
    if env: e.update(env)
    p = subprocess.run(cmd, cwd=cwd, env=e, timeout=timeout, stdout=subprocess.PIPE if capture else None,
                       stderr=subprocess.STDOUT if capture else None, text=True, shell=isinstance(cmd, str))
    if check and p.returncode != 0:
        raise Infra("command failed (%d): %s\n%s" % (p.returncode, cmd, (p.stdout or "")[-4000:]))
    return p

# ---------------------------------------------------------------------------------------------
# building the library from /repo's working tree
# ---------------------------------------------------------------------------------------------
def repo_make_vars():
    """CXX / CXXFLAGS as the repository's Makefile sets them (uncommented, top-level lines)."""
    cxx, flags = "clang++", "-std=c++17 -I./include -Ofast -fno-vectorize"
    extra = []
    try:
        for line in open(os.path.join(REPO, "Makefile")):
            m = re.match(r"^CXX\s*=\s*(.+?)\s*$", line)
            if m: cxx = m.group(1)
            m = re.match(r"^CXXFLAGS\s*=\s*(.+?)\s*$", line)
            if m: flags = m.group(1)
            m = re.match(r"^CXXFLAGS\s*\+=\s*(.+?)\s*$", line)
            if m: extra.append(m.group(1))
    except OSError:
        pass
    flags = " ".join([flags] + extra)
    flags = flags.replace("-I./include", "-I" + os.path.join(REPO, "include"))
    return cxx, flags.split()

CFG_FLAGS = {
    "asm":   [],
    "p64":   ["-DDISABLE_ASM"],
    "p32":   ["-DDISABLE_ASM", "-U__SIZEOF_INT128__"],
}
# plain `char` is unsigned in every ARM ABI the library targets (Cortex-M0+, AArch64): the portable 32-bit-word build with that signedness
CFG_FLAGS["p32u"] = ["-DDISABLE_ASM", "-U__SIZEOF_INT128__", "-funsigned-char"]
SAN = ["-O1", "-g", "-fsanitize=address,undefined", "-fsanitize-recover=all", "-fno-omit-frame-pointer"]
for _c in ("asm", "p64", "p32"):
    CFG_FLAGS[_c + "-san"] = CFG_FLAGS[_c] + SAN
CFG_FLAGS["tsan"] = ["-O1", "-g", "-fsanitize=thread"]
CFG_FLAGS["pic"] = ["-fPIC"]
CFG_FLAGS["free"] = ["-fno-builtin", "-fno-threadsafe-statics", "-ffreestanding"]
CFG_FLAGS["p64-free"] = ["-DDISABLE_ASM", "-fno-builtin", "-fno-threadsafe-statics", "-ffreestanding"]
CFG_FLAGS["p32-free"] = ["-DDISABLE_ASM", "-U__SIZEOF_INT128__", "-fno-builtin", "-fno-threadsafe-statics", "-ffreestanding"]

def lib_sources():
    srcs = []
    for d in ("core", "bls12_381", "wkdibe", "lqibe"):
        srcs += sorted(glob.glob(os.path.join(REPO, "src", d, "*.cpp")))
    arch = os.path.join(REPO, "src", "core", "arch", "x86_64")
    srcs += sorted(glob.glob(os.path.join(arch, "*.cpp"))) + sorted(glob.glob(os.path.join(arch, "*.s")))
    return srcs

def tree_hash(extra=""):
    h = hashlib.sha256()
    files = []
    for root in ("src", "include"):
        for dp, dn, fn in os.walk(os.path.join(REPO, root)):
            for f in fn: files.append(os.path.join(dp, f))
    files.append(os.path.join(REPO, "Makefile"))
    for f in sorted(files):
        try:
            h.update(f.encode()); h.update(open(f, "rb").read())
        except OSError:
            pass
    h.update(extra.encode())
    return h.hexdigest()[:16]

def _prune(dirpath, keep):
    if not os.path.isdir(dirpath): return
    for d in os.listdir(dirpath):
        if d != keep and not d.startswith(keep + ".tmp"):      # a concurrent check may be building the same key
            shutil.rmtree(os.path.join(dirpath, d), ignore_errors=True)

def _publish(tmp, final):
    """builds are made in a private directory and renamed into place, so that checks running side by side never see a half-written artefact"""
    try:
        os.rename(tmp, final)
    except OSError:
        shutil.rmtree(tmp, ignore_errors=True)                 # another process published the same key first

def build_lib(cfg, guard=True):
    """returns (path to libpairing.a, key, objdir)"""
    cxx, flags = repo_make_vars()
    flags = flags + CFG_FLAGS[cfg] + (["-D" + GUARD] if guard else [])
    key = tree_hash(" ".join([cxx] + flags))
    base = os.path.join(BUILD, "lib", cfg)
    out = os.path.join(base, key)
    lib = os.path.join(out, "libpairing.a")
    if os.path.exists(lib):
        return lib, key, out
    _prune(base, key)
    final, out = out, out + ".tmp%d" % os.getpid()
    shutil.rmtree(final, ignore_errors=True)                   # a directory without the archive is the remains of an interrupted build
    shutil.rmtree(out, ignore_errors=True); os.makedirs(out)
    procs = []
    objs = []
    for s in lib_sources():
        o = os.path.join(out, os.path.relpath(s, REPO).replace("/", "_") + ".o")
        objs.append(o)
        if s.endswith(".s"):
            cmd = ["as", s, "-o", o]
        else:
            cmd = [cxx, "-c"] + flags + [s, "-o", o]
        procs.append((cmd, subprocess.Popen(cmd, stdout=subprocess.PIPE, stderr=subprocess.STDOUT, text=True)))
    for cmd, p in procs:
        outp, _ = p.communicate()
        if p.returncode != 0:
            shutil.rmtree(out, ignore_errors=True)
            raise Infra("library build failed (%s): %s\n%s" % (cfg, " ".join(cmd), outp[-3000:]))
    sh(["ar", "rcs", os.path.join(out, "libpairing.a")] + objs)
    _publish(out, final)
    return lib, key, final

def build_driver(name, cfg, sources, guard=True, extra_flags=(), lang_cxx=True, libs=()):
    """compile harness sources against the library built in configuration cfg"""
    lib, key, _ = build_lib(cfg, guard)
    cxx, flags = repo_make_vars()
    flags = flags + CFG_FLAGS[cfg] + (["-D" + GUARD] if guard else []) + list(extra_flags)
    srcs = [os.path.join(HARNESS, s) for s in sources]
    h = hashlib.sha256((key + " ".join(flags) + " ".join(libs)).encode())
    for s in srcs + sorted(glob.glob(os.path.join(HARNESS, "*.hpp"))) + sorted(glob.glob(os.path.join(HARNESS, "*.h"))):
        h.update(open(s, "rb").read())
    dkey = h.hexdigest()[:16]
    base = os.path.join(BUILD, "drv", name + "-" + cfg)
    exe = os.path.join(base, dkey, name)
    if os.path.exists(exe):
        return exe
    _prune(base, dkey)
    tmpd = os.path.dirname(exe) + ".tmp%d" % os.getpid()
    shutil.rmtree(os.path.dirname(exe), ignore_errors=True)    # a directory without the executable is the remains of an interrupted build
    shutil.rmtree(tmpd, ignore_errors=True); os.makedirs(tmpd)
    objs = []
    procs = []
    for s in srcs:
        o = os.path.join(tmpd, os.path.basename(s) + ".o")
        objs.append(o)
        if s.endswith(".c"):
            cflags = [f for f in flags if not f.startswith("-std=")]
            cmd = ["clang", "-std=c11", "-c"] + cflags + ["-I" + HARNESS, s, "-o", o]
        else:
            cmd = [cxx, "-c"] + flags + ["-I" + HARNESS, s, "-o", o]
        procs.append((cmd, subprocess.Popen(cmd, stdout=subprocess.PIPE, stderr=subprocess.STDOUT, text=True)))
    for cmd, p in procs:
        outp, _ = p.communicate()
        if p.returncode != 0:
            shutil.rmtree(tmpd, ignore_errors=True)
            raise Infra("driver build failed (%s/%s): %s\n%s" % (name, cfg, " ".join(cmd), outp[-6000:]))
    link = [cxx] + [f for f in flags if f.startswith("-fsanitize") or f in ("-g",)] + objs + [lib] + list(libs) + ["-lpthread", "-o", os.path.join(tmpd, name)]
    sh(link)
    _publish(tmpd, os.path.dirname(exe))
    return exe

# ---------------------------------------------------------------------------------------------
# TLC
# ---------------------------------------------------------------------------------------------
def ensure_overrides():
    """compile the TLC module overrides if missing or stale"""
    for j in glob.glob(os.path.join(SPEC, "*.java")):
        c = j[:-5] + ".class"
        if not os.path.exists(c) or os.path.getmtime(c) < os.path.getmtime(j):
            sh(["javac", "-cp", TLA_CP + ":" + SPEC, "-d", SPEC, os.path.join(SPEC, "BigNat.java"), j])

class TlcResult:
    def __init__(self, rc, out, wall):
        self.rc, self.out, self.wall = rc, out, wall
        m = re.search(r"(\d[\d,]*) states generated, (\d[\d,]*) distinct states found", out)
        self.generated = int(m.group(1).replace(",", "")) if m else 0
        self.distinct = int(m.group(2).replace(",", "")) if m else 0
        self.violation = ("is violated" in out) or ("Invariant" in out and "violated" in out)
        self.ok = (rc == 0) and "Model checking completed. No error has been found." in out
        self.error_state = None
        if self.violation:
            i = out.find("is violated")
            self.error_state = out[i:i + 6000]
    def var(self, name):
        """value of a variable in the (last) printed error state"""
        if not self.error_state: return None
        m = None
        for m in re.finditer(r"(?:/\\ )?%s = (.*)" % re.escape(name), self.error_state): pass
        return m.group(1).strip() if m else None

def tlc(module, cfg=None, env=None, workers=None, timeout=900, heap="8g", extra=(), metadir=None):
    ensure_overrides()
    md = metadir or tempfile.mkdtemp(prefix="tlc_", dir=scratch())
    cfgf = cfg or (module + ".cfg")
    cmd = ["java", "-Xss512m", "-Xmx" + heap, "-XX:+UseParallelGC", "-cp", TLA_CP, "tlc2.TLC",
           "-noGenerateSpecTE", "-workers", str(workers or NCPU), "-metadir", md, "-config", cfgf] + list(extra) + [module + ".tla"]
    t0 = time.time()
    e = dict(os.environ)
    if env: e.update({k: str(v) for k, v in env.items()})
    try:
        p = subprocess.run(cmd, cwd=SPEC, env=e, timeout=timeout, stdout=subprocess.PIPE, stderr=subprocess.STDOUT, text=True)
    except subprocess.TimeoutExpired as ex:
        raise Infra("TLC timeout after %ds: %s %s" % (timeout, module, cfgf))
    finally:
        shutil.rmtree(md, ignore_errors=True)
    out = "\n".join(l for l in p.stdout.splitlines() if not re.match(r"^(Loading|Parsing file|Semantic processing|Linting)", l))
    return TlcResult(p.returncode, out, time.time() - t0)

def apalache(module, inv, length=0, timeout=300):
    """apalache-mc check --length=<n> --inv=<inv> on spec/<module>.tla; returns (ok, output).  ok is None when the tool is unavailable or timed out."""
    out_dir = os.path.join(scratch(), "apalache_" + module)
    try:
        p = subprocess.run(["apalache-mc", "check", "--length=%d" % length, "--inv=" + inv, "--out-dir=" + out_dir, os.path.join(SPEC, module + ".tla")],
                           cwd=scratch(), timeout=timeout, stdout=subprocess.PIPE, stderr=subprocess.STDOUT, text=True)
    except (subprocess.TimeoutExpired, FileNotFoundError) as e:
        return None, str(e)
    if "The outcome is: NoError" in p.stdout: return True, p.stdout
    if "The outcome is: Error" in p.stdout: return False, p.stdout
    return None, p.stdout

def tlapm_note(run, module, role, timeout=600):
    """re-prove a TLAPS module and record the outcome in the run's evidence.  The theorems support the design (they are not what decides
    the property on the tree under test), so a prover that is missing or fails for environmental reasons is recorded, not fatal."""
    t0 = time.time()
    try:
        nob, _ = tlapm(module, timeout)
        run.mc_runs.append({"module": module, "role": role, "obligations_proved": nob, "wall_s": round(time.time() - t0, 1)})
    except Infra as e:
        run.mc_runs.append({"module": module, "role": role, "obligations_proved": 0, "wall_s": round(time.time() - t0, 1)})
        run.notes.append("TLAPS proof of %s was not re-established in this run: %s" % (module, str(e)[:300]))

def tlapm(module, timeout=600):
    """tlapm on a copy of spec/<module>.tla in the scratch directory; returns (number of obligations proved, output); raises Infra unless all are proved"""
    d = os.path.join(scratch(), "tlaps_" + module); os.makedirs(d, exist_ok=True)
    shutil.copy(os.path.join(SPEC, module + ".tla"), d)
    try:
        p = subprocess.run(["tlapm", module + ".tla"], cwd=d, timeout=timeout, stdout=subprocess.PIPE, stderr=subprocess.STDOUT, text=True)
    except (subprocess.TimeoutExpired, FileNotFoundError) as e:
        raise Infra("tlapm %s: %s" % (module, e))
    m = re.search(r"All (\d+) obligations? proved", p.stdout)
    if not m: raise Infra("tlapm did not prove %s:\n%s" % (module, p.stdout[-2000:]))
    return int(m.group(1)), p.stdout

_scratch = None
def scratch():
    """per-run scratch directory (removed at exit by the caller of cleanup())"""
    global _scratch
    if _scratch is None:
        base = os.path.join(BUILD, "run")
        os.makedirs(base, exist_ok=True)
        _scratch = tempfile.mkdtemp(prefix="r%d_" % os.getpid(), dir=base)
    return _scratch

def cleanup():
    global _scratch
    if _scratch and not os.environ.get("VERIF_KEEP"):
        shutil.rmtree(_scratch, ignore_errors=True)
    _scratch = None

# ---------------------------------------------------------------------------------------------
# ndjson helpers
# ---------------------------------------------------------------------------------------------
def read_ndjson(path):
    out = []
    with open(path) as f:
        for line in f:
            line = line.strip()
            if line: out.append(json.loads(line))
    return out

def write_ndjson(path, rows):
    with open(path, "w") as f:
        for r in rows:
            f.write(json.dumps(r, separators=(",", ":")) + "\n")

def le_bytes(n, cnt):
    return [(n >> (8 * i)) & 255 for i in range(cnt)]

def from_le(b):
    return sum(x << (8 * i) for i, x in enumerate(b))

# ---------------------------------------------------------------------------------------------
# known findings, evidence
# ---------------------------------------------------------------------------------------------
def known_findings(prop):
    p = os.path.join(VERIF, "known_findings.json")
    if not os.path.exists(p): return []
    d = json.load(open(p))
    return [e for e in d.get("known", []) if e["property"] == prop]

def pick_hash(i, m, seed):
    """pseudo-random 1-in-m selection (a stride would correlate with the enumeration order of the generator's case tuples)"""
    x = (i * 2654435761 + seed * 40503 + 12345) & 0xffffffff
    x ^= x >> 15; x = (x * 2246822519) & 0xffffffff; x ^= x >> 13
    return x % m == 0

def seed_raw():
    try: return int(os.environ.get("VERIF_SEED", "1"))
    except ValueError: return 1

def seed():
    """the seed handed to generators, drivers and selections: VERIF_SEED folded into 1..1999 (TLC's integers are 32-bit and the TLA+
    generators multiply the seed by constants around 10^6; small seeds are used as they are, so VERIF_SEED=1,2,3 mean what they say)"""
    s = seed_raw()
    if 0 < s < 2000: return s
    return 1 + (abs(s) * 2654435761 % 4294967296) % 1999

def write_evidence(prop, tier, level, coverage, wall, violations, assumptions=()):
    os.makedirs(os.path.join(OUTROOT, "evidence"), exist_ok=True)
    ev = {"property_id": prop, "tier": tier, "seed": seed_raw(), "seed_used": seed(), "level": level, "coverage": coverage,
          "assumptions": list(assumptions), "wall_s": round(wall, 2), "violations": violations}
    tmp = os.path.join(OUTROOT, "evidence", prop + ".json.tmp")
    json.dump(ev, open(tmp, "w"), indent=1)
    os.replace(tmp, os.path.join(OUTROOT, "evidence", prop + ".json"))

def save_replay(prop, name, obj):
    d = os.path.join(OUTROOT, "replays")
    os.makedirs(d, exist_ok=True)
    p = os.path.join(d, "%s_%s.json" % (prop, name))
    json.dump(obj, open(p, "w"), indent=1)
    return p
