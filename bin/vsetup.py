#!/usr/bin/env python3
"""setup_cmd: compile the TLC module overrides, parse every specification with SANY, pre-build the
library configurations and drivers (so that quick checks start warm).  Offline."""
import sys, os, glob, subprocess
sys.path.insert(0, os.path.dirname(os.path.abspath(__file__)))
import vlib
def main():
    vlib.ensure_overrides()
    bad = 0
    mods = sorted(glob.glob(os.path.join(vlib.SPEC, "*.tla")))
    procs = [(m, subprocess.Popen(["java", "-cp", vlib.TLA_CP, "tla2sany.SANY", m], cwd=vlib.SPEC, stdout=subprocess.PIPE, stderr=subprocess.STDOUT, text=True)) for m in mods]
    for m, p in procs:
        out, _ = p.communicate()
        if p.returncode != 0 or "Fatal" in out or "*** Errors" in out or "Abort" in out:
            print("SANY failed for", m); print(out[-2000:]); bad += 1
    print("sany: %d modules parsed, %d failed" % (len(mods), bad))
    for cfg in ("asm", "p64", "p32"):
        vlib.build_lib(cfg)
    print("libraries built")
    return 1 if bad else 0
if __name__ == "__main__":
    sys.exit(main())
