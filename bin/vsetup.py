#!/usr/bin/env python3
"""setup_cmd: compile the TLC module overrides, parse every specification with SANY, pre-build the
library configurations and drivers (so that quick checks start warm).  Offline."""
import sys, os, glob, subprocess
sys.path.insert(0, os.path.dirname(os.path.abspath(__file__)))
import vlib
def main():
    vlib.ensure_overrides()
    bad = 0
    mods = sorted(glob.glob(os.path.join(vlib.SPEC, "*.tla")))
    # the modules proved with TLAPS import its standard module: parsed with tlapm's library on SANY's path (they are checked by tlapm in the
    # runs of C02 / C06 / C11-C14; if the library is not where it is expected they are only listed here)
    tlaps_lib = os.environ.get("TLAPS_STDLIB", "/opt/veriftools/tlapm/lib/tlapm/stdlib")
    def uses_tlaps(m):
        return "TLAPS" in open(m).read().split("=====")[0].split("EXTENDS", 1)[-1].split("\n", 1)[0]
    proof_mods = [m for m in mods if uses_tlaps(m)]
    if proof_mods and not os.path.exists(os.path.join(tlaps_lib, "TLAPS.tla")):
        print("note: TLAPS standard module not found; not parsed here:", [os.path.basename(m) for m in proof_mods])
        mods = [m for m in mods if m not in proof_mods]; proof_mods = []
    def sany(m):
        extra = ["-DTLA-Library=" + tlaps_lib] if m in proof_mods else []
        return subprocess.Popen(["java"] + extra + ["-cp", vlib.TLA_CP, "tla2sany.SANY", m], cwd=vlib.SPEC, stdout=subprocess.PIPE, stderr=subprocess.STDOUT, text=True)
    procs = [(m, sany(m)) for m in mods]
    for m, p in procs:
        out, _ = p.communicate()
        if p.returncode != 0 or "Fatal" in out or "*** Errors" in out or "Abort" in out:
            print("SANY failed for", m); print(out[-2000:]); bad += 1
    print("sany: %d modules parsed, %d failed" % (len(mods), bad))
    for cfg in ("asm", "p64", "p32"):
        vlib.build_lib(cfg)
    print("libraries built")
    return 1 if bad else 0
if __name__ == "__main__":
    sys.exit(main())
