CONSTANTS P = 19
 Bits = 6
 Mode = "sqrt-fq2"
INIT Init
NEXT Next
INVARIANT AllGood
CHECK_DEADLOCK FALSE
