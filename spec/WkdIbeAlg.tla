------------------------------- MODULE WkdIbeAlg -------------------------------
(* Tier A: the lock-step merges of src/wkdibe/api.cpp (keygen, qualifykey, nondelegable_keygen,
   nondelegable_qualifykey) as state machines over the cursors  i (slot), k (attribute list),
   x (parent free-slot list), j (output free-slot list): one action per loop iteration, in the
   shape of the code.  Group elements are toy exponents modulo the prime PR.  At the end of each
   run the produced key is compared with the reference semantics (pattern algebra of WkdIbe.tla,
   restated here over small integers): exact ascending free-slot list, a0, every b_j.
   HiddenFix = TRUE is the repaired code, FALSE the code as originally shipped (a hidden attribute
   does not consume the parent's free slot / is not consumed by nondelegable_keygen).         *)
EXTENDS Integers, Sequences, FiniteSets
CONSTANTS NSlots, PR, HiddenFix
VARIABLES op, par, attrs, flag, i, k, x, j, a0, prod, outb, pc

vars == <<op, par, attrs, flag, i, k, x, j, a0, prod, outb, pc>>
Slots == 0..(NSlots - 1)
\* toy public parameters (exponents): distinct, non-zero
Eps == 5
Eta(s) == 11 + 7 * s
Msk == 101
T == 13                      \* the fresh randomness of qualifykey
Rho0 == 17                   \* the randomness of the parent key / of keygen
Vals == {3, 4}
\* slot states / list choices are small integers: FR free, HD hidden, UN unlisted, or a value
FR == 100
HD == 101
UN == 102

\* ---- reference (pattern level) -------------------------------------------------------------------
\* pattern: function Slots -> FR | HD | value
Patterns == [Slots -> {FR, HD} \cup Vals]
IsVal(s) == s \in Vals
\* attribute lists as functions Slots -> UN (unlisted) | HD (listed hidden) | value, rendered as ascending sequences
ListChoices == [Slots -> {UN, HD} \cup Vals]
SeqOf(ch) == LET listed == { s \in Slots : ch[s] # UN }
                 RECURSIVE build(_)
                 build(s) == IF s >= NSlots THEN <<>>
                             ELSE IF s \in listed THEN <<[idx |-> s, id |-> (IF ch[s] = HD THEN 0 ELSE ch[s]), omit |-> ch[s] = HD]>> \o build(s + 1)
                             ELSE build(s + 1)
             IN build(0)
Permitted(p, ch) == \A s \in Slots : /\ IsVal(p[s]) => ch[s] = p[s]
                                     /\ (p[s] = HD /\ ch[s] # UN) => ch[s] = HD
RefPat(p, ch, fl) == [s \in Slots |-> IF p[s] = FR THEN (IF ch[s] = UN THEN (IF fl THEN HD ELSE FR) ELSE ch[s]) ELSE p[s]]
FreeOf(p) == LET RECURSIVE build(_)
                 build(s) == IF s >= NSlots THEN <<>> ELSE IF p[s] = FR THEN <<s>> \o build(s + 1) ELSE build(s + 1)
             IN build(0)
RECURSIVE HSum(_, _)
HSum(p, s) == IF s >= NSlots THEN 0 ELSE (IF IsVal(p[s]) THEN Eta(s) * p[s] ELSE 0) + HSum(p, s + 1)
RefA0(p, rho) == (Msk + rho * (Eps + HSum(p, 0))) % PR
RefB(s, rho) == (rho * Eta(s)) % PR
\* concrete parent key for pattern p with randomness rho
ParentKey(p, rho) == [a0 |-> RefA0(p, rho), b |-> [m \in 1..Len(FreeOf(p)) |-> [idx |-> FreeOf(p)[m], hexp |-> RefB(FreeOf(p)[m], rho)]]]

\* ---- the algorithm --------------------------------------------------------------------------------
Ops == {"keygen", "qualify", "ndkeygen", "ndqualify"}
Init == /\ op \in Ops
        /\ \E p \in Patterns, ch \in ListChoices :
             /\ (op \in {"keygen", "ndkeygen"} => p = [s \in Slots |-> FR])           \* generation starts from the all-free pattern
             /\ Permitted(p, ch)
             /\ par = [pat |-> p, key |-> ParentKey(p, IF op = "ndqualify" THEN 1 ELSE Rho0), ch |-> ch]
             /\ attrs = SeqOf(ch)
        /\ flag \in BOOLEAN
        /\ i = 0 /\ k = 1 /\ x = 1 /\ j = 0
        /\ a0 = (IF op \in {"keygen", "ndkeygen"} THEN Eps ELSE par.key.a0)
        /\ prod = Eps /\ outb = <<>> /\ pc = "loop"

AttrHere == k <= Len(attrs) /\ attrs[k].idx = i
ParentFreeHere == x <= Len(par.key.b) /\ par.key.b[x].idx = i
Emit(h) == outb' = Append(outb, [idx |-> i, hexp |-> h % PR])

StepKeygen ==
  /\ op \in {"keygen", "ndkeygen"}
  /\ LET r == IF op = "keygen" THEN Rho0 ELSE 1
         \* as shipped, nondelegable_keygen only matched attributes that are not hidden
         match == IF op = "ndkeygen" /\ ~HiddenFix THEN AttrHere /\ ~attrs[k].omit ELSE AttrHere
     IN IF match
        THEN /\ a0' = (IF attrs[k].omit THEN a0 ELSE a0 + Eta(i) * attrs[k].id) /\ k' = k + 1 /\ UNCHANGED <<outb, j>>
        ELSE IF ~flag THEN Emit(Eta(i) * r) /\ j' = j + 1 /\ UNCHANGED <<a0, k>>
             ELSE UNCHANGED <<a0, k, outb, j>>
  /\ UNCHANGED <<prod, x>>

StepQualify ==
  /\ op = "qualify"
  /\ IF AttrHere
     THEN /\ prod' = (IF attrs[k].omit THEN prod ELSE prod + Eta(i) * attrs[k].id)
          /\ a0' = (IF ~attrs[k].omit /\ ParentFreeHere THEN (a0 + par.key.b[x].hexp * attrs[k].id) % PR ELSE a0)
          /\ x' = (IF ParentFreeHere /\ (HiddenFix \/ ~attrs[k].omit) THEN x + 1 ELSE x)
          /\ k' = k + 1 /\ UNCHANGED <<outb, j>>
     ELSE IF ParentFreeHere
          THEN /\ (IF ~flag THEN Emit(Eta(i) * T + par.key.b[x].hexp) /\ j' = j + 1 ELSE UNCHANGED <<outb, j>>)
               /\ x' = x + 1 /\ UNCHANGED <<prod, a0, k>>
          ELSE UNCHANGED <<prod, a0, k, x, outb, j>>

StepNdQualify ==
  /\ op = "ndqualify"
  /\ IF x > Len(par.key.b) THEN UNCHANGED <<a0, k, x, outb, j>>          \* the loop has ended (x == sk.l)
     ELSE IF AttrHere
     THEN /\ a0' = (IF par.key.b[x].idx = i /\ ~attrs[k].omit THEN (a0 + par.key.b[x].hexp * attrs[k].id) % PR ELSE a0)
          /\ x' = (IF par.key.b[x].idx = i /\ (HiddenFix \/ ~attrs[k].omit) THEN x + 1 ELSE x)
          /\ k' = k + 1 /\ UNCHANGED <<outb, j>>
     ELSE IF par.key.b[x].idx = i
          THEN /\ (IF ~flag THEN Emit(par.key.b[x].hexp) /\ j' = j + 1 ELSE UNCHANGED <<outb, j>>)
               /\ x' = x + 1 /\ UNCHANGED <<a0, k>>
          ELSE UNCHANGED <<a0, k, x, outb, j>>
  /\ UNCHANGED prod

Step == /\ pc = "loop" /\ i < NSlots
        /\ (StepKeygen \/ StepQualify \/ StepNdQualify)
        /\ i' = i + 1 /\ UNCHANGED <<op, par, attrs, flag, pc>>
Finish == /\ pc = "loop" /\ i = NSlots
          /\ a0' = (CASE op = "keygen"  -> (a0 * Rho0 + Msk) % PR
                      [] op = "ndkeygen" -> (a0 + Msk) % PR
                      [] op = "qualify" -> (a0 + prod * T) % PR
                      [] OTHER -> a0)
          /\ pc' = "done" /\ UNCHANGED <<op, par, attrs, flag, i, k, x, j, prod, outb>>
Next == Step \/ Finish

\* ---- properties ---------------------------------------------------------------------------------------------
CursorsInRange == /\ k <= Len(attrs) + 1 /\ x <= Len(par.key.b) + 1 /\ j <= NSlots /\ Len(outb) = j
ResultPat == RefPat(par.pat, par.ch, flag)
ResultRho == CASE op = "keygen" -> Rho0 [] op = "ndkeygen" -> 1 [] op = "qualify" -> Rho0 + T [] OTHER -> 1
KeyCorrect == pc = "done" =>
  LET free == FreeOf(ResultPat) IN
  /\ Len(outb) = Len(free)
  /\ \A m \in 1..Len(free) : outb[m].idx = free[m] /\ outb[m].hexp = RefB(free[m], ResultRho)
  /\ a0 = RefA0(ResultPat, ResultRho)
=============================================================================
