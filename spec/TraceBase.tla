------------------------------ MODULE TraceBase ------------------------------
(* Shared plumbing of the per-line trace specifications (DESIGN.md 2.2, I->S for pure
   functions).  The trace file (ndjson) is named by the environment variable TRACE.  Every
   line is an initial state; the verdict is computed in an action so that TLC's workers
   evaluate lines in parallel.  A line whose set of failed conjuncts is non-empty is printed
   as  <<"FAIL", line, {labels}>>  and collected by bin/check. *)
EXTENDS Json, IOUtils, TLC, Sequences, Naturals, FiniteSets

TraceFile == IOEnv.TRACE
Tr == ndJsonDeserialize(TraceFile)
NLines == Len(Tr)

Has(ev, k) == k \in DOMAIN ev
\* checks are sequences of <<label, BOOLEAN>>; all are evaluated
FailsOf(checks) == { checks[i][1] : i \in { j \in 1..Len(checks) : ~checks[j][2] } }
=============================================================================
