----------------------------- MODULE Trace_Marshal -----------------------------
(* Trace specification for marshalling (C15) and the buffer-bounds part of C17: byte layouts of
   every scheme object (built from Encoding.tla), exact length accounting, the set_length /
   allocate / unmarshal / marshal protocol, rejection of buffers with an invalid embedded element,
   and - for sweeps over every buffer length - the recovered slot count, absence of faults at the
   guard pages and "accepted => marshals back to exactly n bytes".                            *)
EXTENDS TraceBase, MarshalLayout
VARIABLES l, st

Checks(ev) ==
  LET o == ev.op IN
  CASE o = "mar.object" ->
         LET c == ev.comp = 1  bytes == ev.out.bytes IN
         << <<"no-fault", ev.out.fault = 0>>,
            <<"length", ev.out.len = LenOf(ev.kind, ev.obj, c) /\ Len(bytes) = ev.out.len /\ (~Has(ev.out, "len_static") \/ ev.out.len_static = ev.out.len)>>,
            <<"layout", bytes = Layout(ev.kind, ev.obj, c)>>,
            <<"roundtrip-checked", GoodRun(ev.kind, ev.obj, c, bytes, ev.out.checked)>>,
            <<"roundtrip-unchecked", GoodRun(ev.kind, ev.obj, c, bytes, ev.out.unchecked)>>,
            \* marshalled data carries no alignment: the same protocol on byte buffers at an odd address
            <<"roundtrip-misaligned", ~Has(ev.out, "checked_m") \/ GoodRun(ev.kind, ev.obj, c, bytes, ev.out.checked_m)>> >>
    [] o = "mar.bytes" ->
         LET c == ev.comp = 1  r == ev.out.res  nn == Len(ev.bytes)
             var == ev.kind \in {"wk.key", "wk.params"}
             cnt == IF var THEN UnmLen(ev.kind, nn, ev.bytes[1], c) ELSE 0
             sized == IF var THEN cnt >= 0 ELSE nn = r.want
             valid == sized /\ AllElemsValid(ev.kind, c, ev.bytes, var /\ ev.bytes[1] # 0, cnt)
         IN << <<"no-fault", r.fault = 0>>,
               <<"slot-count", ~var \/ r.rep = cnt>>,
               \* the non-validating path is constrained only on what the validating path accepts (and in memory safety, above)
               <<"verdict:" \o ev.cls, (ev.checked = 0 /\ ~valid) \/ (r.ok = 1) = valid>>,
               \* both documented routes to the slot count, and whatever the target object held before, give the same outcome
               <<"routes-agree", ~Has(r, "route2") \/ (r.route2.fault = 0 /\ r.route2.ok = r.ok /\ (r.ok = 0 \/ (r.route2.again = r.again /\ r.route2.relen = r.relen)))>>,
               <<"remarshal", r.ok = 0 \/ (ev.checked = 0 /\ ~valid) \/ r.again = ev.bytes \/ (var /\ ev.bytes[1] > 1)>> >>
    [] o = "mar.sweep" ->
         LET c == ev.comp = 1 IN
         << <<"no-fault", Len(ev.out.faults) = 0>>,
            <<"slot-count", \A nn \in 1..ev.nmax : ev.out.rep[nn] = UnmLen(ev.kind, nn, ev.fb, c) /\ ev.out.rep2[nn] = ev.out.rep[nn]>>,
            \* set_length on an object that already has a slot count: a rejected length leaves it unchanged, an accepted one stores the count
            <<"set-length-state", \A nn \in 1..ev.nmax : ev.out.lafter[nn] = (IF ev.out.rep[nn] < 0 THEN 7777 ELSE ev.out.rep[nn])>>,
            <<"accepted-remarshals-to-n", \A nn \in 1..ev.nmax : ev.out.ok[nn] = 0 \/ ev.out.relen[nn] = nn>>,
            <<"valid-accepted", ev.content # "valid" \/ ev.fb # ev.valid[1] \/ Len(ev.valid) > ev.nmax \/ ev.out.ok[Len(ev.valid)] = 1>> >>
    [] OTHER -> << <<"unknown-op", FALSE>> >>

Fails(ev) == FailsOf(Checks(ev))
Init == l \in 1..NLines /\ st = "todo"
Next == /\ st = "todo"
        /\ LET f == Fails(Tr[l]) IN
             /\ st' = "done"
             /\ IF f = {} THEN TRUE ELSE PrintT(<<"FAIL", l, f>>)
        /\ UNCHANGED l
=============================================================================
