----------------------------- MODULE Trace_Tower -----------------------------
(* Trace specification for the extension-field tower (C04): every recorded Fq2/Fq6/Fq12 call
   must be explained by polynomial arithmetic in the quotient rings of Tower.tla. *)
EXTENDS TraceBase, Tower

VARIABLES l, st
FqF == INSTANCE PrimeField WITH P <- QMod, NBytes <- 48

V1(x)  == FqF!Val(Norm(x))
V2(x)  == <<V1(x[1]), V1(x[2])>>
V6(x)  == <<V2(x[1]), V2(x[2]), V2(x[3])>>
V12(x) == <<V6(x[1]), V6(x[2])>>
VL(lvl, x) == IF lvl = 2 THEN V2(x) ELSE IF lvl = 6 THEN V6(x) ELSE V12(x)
C1(x)  == Lt(Norm(x), QMod)
C2(x)  == C1(x[1]) /\ C1(x[2])
C6(x)  == C2(x[1]) /\ C2(x[2]) /\ C2(x[3])
C12(x) == C6(x[1]) /\ C6(x[2])
CL(lvl, x) == IF lvl = 2 THEN C2(x) ELSE IF lvl = 6 THEN C6(x) ELSE C12(x)

AddL(lvl, a, b) == IF lvl = 2 THEN F2Add(a, b) ELSE IF lvl = 6 THEN F6Add(a, b) ELSE F12!EAdd(a, b)
SubL(lvl, a, b) == IF lvl = 2 THEN F2Sub(a, b) ELSE IF lvl = 6 THEN F6Sub(a, b) ELSE F12!ESub(a, b)
MulL(lvl, a, b) == IF lvl = 2 THEN F2Mul(a, b) ELSE IF lvl = 6 THEN F6Mul(a, b) ELSE F12Mul(a, b)
NegL(lvl, a)   == IF lvl = 2 THEN F2Neg(a) ELSE IF lvl = 6 THEN F6Neg(a) ELSE F12!ENeg(a)
ZeroL(lvl)     == IF lvl = 2 THEN F2!EZero ELSE IF lvl = 6 THEN F6!EZero ELSE F12!EZero
OneL(lvl)      == IF lvl = 2 THEN F2!EOne ELSE IF lvl = 6 THEN F6!EOne ELSE F12!EOne
FrobL(lvl, a, k) == IF lvl = 2 THEN F2Frob(a, k) ELSE IF lvl = 6 THEN F6Frob(a, k) ELSE F12Frob(a, k)
ExpL(lvl, a, e) == IF lvl = 2 THEN F2Exp(a, e) ELSE IF lvl = 6 THEN F6Exp(a, e) ELSE F12Exp(a, e)
\* big-endian wire order: highest coefficient first at every level
BE1(x)  == ToBE(x, 48)
BE2(x)  == BE1(x[2]) \o BE1(x[1])
BE6(x)  == BE2(x[3]) \o BE2(x[2]) \o BE2(x[1])
BE12(x) == BE6(x[2]) \o BE6(x[1])
BEL(lvl, x) == IF lvl = 2 THEN BE2(x) ELSE IF lvl = 6 THEN BE6(x) ELSE BE12(x)
Rd1(b)  == ModN(ModPow2(FromBE(b), 381), QMod)
Rd2(b)  == <<Rd1(SubSeq(b, 49, 96)), Rd1(SubSeq(b, 1, 48))>>
Rd6(b)  == <<Rd2(SubSeq(b, 193, 288)), Rd2(SubSeq(b, 97, 192)), Rd2(SubSeq(b, 1, 96))>>
Rd12(b) == <<Rd6(SubSeq(b, 289, 576)), Rd6(SubSeq(b, 1, 288))>>
RdL(lvl, b) == IF lvl = 2 THEN Rd2(b) ELSE IF lvl = 6 THEN Rd6(b) ELSE Rd12(b)
CmpLex2(a, b) == IF Cmp(a[2], b[2]) # 0 THEN Cmp(a[2], b[2]) ELSE Cmp(a[1], b[1])
RawCmpLex2(x, y) == IF Cmp(Norm(x[2]), Norm(y[2])) # 0 THEN Cmp(Norm(x[2]), Norm(y[2])) ELSE Cmp(Norm(x[1]), Norm(y[1]))

Checks(ev) ==
  LET lvl == ev.lvl
      o   == ev.op
      A   == IF Has(ev, "a") THEN VL(lvl, ev.a) ELSE ZeroL(lvl)
      Bv  == IF Has(ev, "b") THEN VL(lvl, ev.b) ELSE ZeroL(lvl)
      Bm  == IF ev.alias = 3 THEN A ELSE Bv
      RR  == VL(lvl, ev.out.r)
      rc  == <<"canon", CL(lvl, ev.out.r)>>
  IN
  CASE o = "ext.add" -> << rc, <<"value", RR = AddL(lvl, A, Bv)>> >>
    [] o = "ext.sub" -> << rc, <<"value", RR = SubL(lvl, A, Bv)>> >>
    [] o = "ext.mul" -> << rc, <<"value", RR = MulL(lvl, A, Bm)>> >>
    [] o = "ext.dbl" -> << rc, <<"value", RR = AddL(lvl, A, A)>> >>
    [] o = "ext.neg" -> << rc, <<"value", RR = NegL(lvl, A)>> >>
    [] o = "ext.sqr" -> << rc, <<"value", RR = MulL(lvl, A, A)>> >>
    [] o = "ext.copy" -> << rc, <<"value", RR = A>> >>
    \* the property requires inversion on the field; for zero the library returns zero (recorded, required here too)
    [] o = "ext.inv" -> << rc, <<"value", IF A = ZeroL(lvl) THEN RR = ZeroL(lvl) ELSE MulL(lvl, A, RR) = OneL(lvl)>> >>
    [] o = "ext.frob" -> << rc, <<"value", RR = FrobL(lvl, A, ev.power)>> >>
    [] o = "ext.exp" -> << rc, <<"value", RR = ExpL(lvl, A, Norm(ev.e))>> >>
    [] o = "ext.eq" -> << <<"value", ev.out.v = (IF A = Bv THEN 1 ELSE 0)>> >>
    [] o = "ext.is_zero" -> << <<"value", ev.out.v = (IF A = ZeroL(lvl) THEN 1 ELSE 0)>> >>
    [] o = "ext.writebe" -> << <<"value", ev.out.bytes = BEL(lvl, A)>> >>
    [] o = "ext.readbe" -> << rc, <<"value", RR = RdL(lvl, ev.bytes)>> >>
    [] o = "ext.nonres" -> << rc, <<"value", RR = (IF lvl = 2 THEN F2Mul(A, Xi) ELSE F6Mul(A, VElem))>> >>
    [] o = "ext.norm" -> << <<"canon", C1(ev.out.n)>>, <<"value", F2!EEmbed(V1(ev.out.n)) = F2Mul(A, F2Conj(A))>> >>
    [] o = "ext.legendre" -> << <<"value", ev.out.v = F2Legendre(A)>> >>
    [] o = "ext.sqrt" -> << <<"pre.square", F2Legendre(A) # (0 - 1)>>, rc, <<"value", F2Mul(RR, RR) = A>> >>
    [] o = "ext.cmp" -> << <<"cmp.integer-order", ev.out.v = CmpLex2(A, Bv)>>,
                           <<"cmp.either-rule", ev.out.v = CmpLex2(A, Bv) \/ ev.out.v = RawCmpLex2(ev.a, ev.b)>> >>
    [] o = "ext.mul_c1" -> << rc, <<"value", RR = F6Mul(A, F6FromC1(V2(ev.c1)))>> >>
    [] o = "ext.mul_c01" -> << rc, <<"value", RR = F6Mul(A, F6FromC01(V2(ev.c0), V2(ev.c1)))>> >>
    [] o = "ext.mul_c014" -> << rc, <<"value", RR = F12Mul(A, F12FromC014(V2(ev.c0), V2(ev.c1), V2(ev.c4)))>> >>
    [] o = "ext.conj" -> << rc, <<"value", RR = F12Conj(A) /\ RR = F12Frob(A, 6)>> >>
    [] o = "ext.map_cyclo" -> << rc, <<"value", IF A = F12!EZero THEN TRUE ELSE IsCycloMap(A, RR)>>, <<"in-cyclotomic", A = F12!EZero \/ InCyclotomic(RR)>> >>
    [] o = "ext.sqr_cyclo" -> LET X == IF Has(ev.out, "a_used") THEN V12(ev.out.a_used) ELSE A IN
                              << <<"pre.cyclotomic", InCyclotomic(X)>>, rc, <<"value", RR = F12Mul(X, X)>> >>
    [] OTHER -> << <<"unknown-op", FALSE>> >>

Fails(ev) == FailsOf(Checks(ev))
Init == l \in 1..NLines /\ st = "todo"
Next == /\ st = "todo"
        /\ LET f == Fails(Tr[l]) IN
             /\ st' = "done"
             /\ IF f = {} THEN TRUE ELSE PrintT(<<"FAIL", l, f>>)
        /\ UNCHANGED l
=============================================================================
