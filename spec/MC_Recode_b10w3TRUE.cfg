CONSTANTS Bits = 10
 Win = 3
 KeepCarry = TRUE
INIT Init
NEXT Next
INVARIANTS FitsBuffer DigitsOk Represents LoopInv
CHECK_DEADLOCK FALSE
