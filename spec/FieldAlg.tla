------------------------------- MODULE FieldAlg -------------------------------
(* Tier A: the field routines that are algorithms rather than formulas, transcribed from the code and decided by TLC for EVERY
   element of toy fields:

     "inverse"   fp_inverse (include/core/fp_utils.hpp): the binary extended Euclidean algorithm on the Montgomery residue, with the
                 halvings `if odd then add p; shift right` in a fixed-width register and the modular subtractions of b, c.
                 For every residue u of a non-zero element: the loop terminates, no register leaves [0, 2^Bits), and
                 result * u = R^2 (mod p), i.e. the result is the Montgomery form of the inverse;  0 |-> 0.
     "sqrt-ts"   Fr::square_root (src/bls12_381/fr.cpp): Tonelli-Shanks with the library's constants t = (p-1)/2^S, (t+1)/2 and a
                 primitive 2^S-th root of unity, the inner squaring loops and `m = S` as coded.  For every square a: result^2 = a.
                 (On a non-square the coded loop does not terminate -- TLC shows it; the library never calls it on one.)
     "sqrt-34"   Fq::square_root: a^((p+1)/4) for p = 3 (mod 4); result^2 = a for every square a.
     "sqrt-fq2"  Fq2::square_root (src/bls12_381/fq2.cpp): the complex method over Fq[u]/(u^2+1) with its special case alpha = -1,
                 and Fq2::legendre through the norm; for every a: legendre(a) says whether a is a square, and for squares result^2 = a.

   P is a toy prime (the cfg states it); Bits is the register width (2p < 2^Bits, as MC_Params381 checks for the real moduli).      *)
EXTENDS Integers, Sequences, FiniteSets, TLC, SequencesExt
CONSTANTS P, Bits, Mode

RECURSIVE Pow(_, _, _)
Pow(a, e, m) == IF e = 0 THEN 1 % m ELSE IF e % 2 = 0 THEN Pow((a * a) % m, e \div 2, m) ELSE (a * Pow(a, e - 1, m)) % m
IsSquareP(a) == a = 0 \/ Pow(a, (P - 1) \div 2, P) = 1
W == 2 ^ Bits
R == W % P
R2 == (R * R) % P
ASSUME 2 * P < W /\ P % 2 = 1

\* ---- fp_inverse ------------------------------------------------------------------------------------------------------------
\* state <<u, v, b, c>>; returns [res, ok (registers stayed in range), fuel left]
Halve(x) == IF x % 2 = 1 THEN (x + P) \div 2 ELSE x \div 2          \* add p (fits: 2p < 2^Bits), shift right
SubMod(x, y) == (x + P - y) % P                                      \* Fp::subtract on reduced operands
RECURSIVE InvLoop(_, _, _, _, _, _)
InvLoop(u, v, b, c, fuel, ok) ==
  IF u = 1 \/ v = 1 THEN [res |-> IF u = 1 THEN b ELSE c, ok |-> ok, fuel |-> fuel]
  ELSE IF fuel = 0 THEN [res |-> 0, ok |-> FALSE, fuel |-> 0]
  ELSE IF u % 2 = 0 THEN InvLoop(u \div 2, v, Halve(b), c, fuel - 1, ok /\ b + P < W)
  ELSE IF v % 2 = 0 THEN InvLoop(u, v \div 2, b, Halve(c), fuel - 1, ok /\ c + P < W)
  ELSE IF v < u THEN InvLoop(u - v, v, SubMod(b, c), c, fuel - 1, ok)
  ELSE InvLoop(u, v - u, b, SubMod(c, b), fuel - 1, ok)
InverseM(u) == IF u = 0 THEN [res |-> 0, ok |-> TRUE, fuel |-> 1] ELSE InvLoop(u, P, R2, 0, 4 * Bits + 4, TRUE)

\* ---- Tonelli-Shanks as coded -----------------------------------------------------------------------------------------------------
RECURSIVE TwoAdic(_)
TwoAdic(n) == IF n % 2 = 1 THEN 0 ELSE 1 + TwoAdic(n \div 2)
S == TwoAdic(P - 1)
T == (P - 1) \div (2 ^ S)
NonRes == IF Mode = "sqrt-ts" THEN CHOOSE g \in 2..(P - 1) : ~IsSquareP(g) ELSE 2
RootOfUnity == Pow(NonRes, T, P)                       \* any primitive 2^S-th root of unity (what MC_Consts checks of the real constant)
RECURSIVE OrderExp(_, _, _)
OrderExp(x, i, fuel) == IF x = 1 THEN i ELSE IF fuel = 0 THEN 0 - 1 ELSE OrderExp((x * x) % P, i + 1, fuel - 1)     \* least i with x^(2^i) = 1
RECURSIVE SqrN(_, _)
SqrN(x, n) == IF n <= 0 THEN x ELSE SqrN((x * x) % P, n - 1)
\* the outer while loop as a fold over at most S + 2 rounds (a fold hands its state on as a value; a recursive operator would re-evaluate
\* its unevaluated arguments exponentially often in TLC)
TsRound(st) ==
  IF st.t = 1 \/ ~st.ok THEN st
  ELSE LET i == OrderExp((st.t * st.t) % P, 1, S + 2)          \* i = 1; t2i = t^2; while t2i # 1: square, i++
       IN IF i < 0 THEN [st EXCEPT !.ok = FALSE]
          ELSE LET c1 == SqrN(st.c, st.m - i - 1)
                   c2 == (c1 * c1) % P
               IN [res |-> (st.res * c1) % P, t |-> (st.t * c2) % P, c |-> c2, m |-> i, ok |-> TRUE]
TsLoop(r, t, c, m) == LET fin == FoldLeft(LAMBDA st, k : TsRound(st), [res |-> r, t |-> t, c |-> c, m |-> m, ok |-> TRUE], [k \in 1..(S + 2) |-> k])
                      IN [res |-> fin.res, ok |-> fin.ok /\ fin.t = 1]
SqrtTS(a) == IF a = 0 THEN [res |-> 0, ok |-> TRUE] ELSE TsLoop(Pow(a, (T + 1) \div 2, P), Pow(a, T, P), RootOfUnity, S)

\* ---- Fq2 = Fq[u]/(u^2 + 1), P = 3 (mod 4) --------------------------------------------------------------------------------------------
M2(a, b) == <<(a[1] * b[1] + (P - 1) * ((a[2] * b[2]) % P)) % P, (a[1] * b[2] + a[2] * b[1]) % P>>
A2(a, b) == <<(a[1] + b[1]) % P, (a[2] + b[2]) % P>>
One2 == <<1, 0>>   NegOne2 == <<P - 1, 0>>
RECURSIVE Pow2F(_, _)
Pow2F(a, e) == IF e = 0 THEN One2 ELSE IF e % 2 = 0 THEN Pow2F(M2(a, a), e \div 2) ELSE M2(a, Pow2F(a, e - 1))
Sqrt2(a) == IF a = <<0, 0>> THEN a
            ELSE LET x0 == Pow2F(a, (P - 3) \div 4)
                     alpha == M2(M2(x0, x0), a)
                     x1 == M2(x0, a)
                 IN IF alpha = NegOne2 THEN M2(x1, <<0, 1>>) ELSE M2(x1, Pow2F(A2(alpha, One2), (P - 1) \div 2))
Legendre2(a) == LET n == (a[1] * a[1] + a[2] * a[2]) % P IN IF n = 0 THEN 0 ELSE IF Pow(n, (P - 1) \div 2, P) = 1 THEN 1 ELSE 0 - 1
\* (guarded by Mode: TLC evaluates constant definitions eagerly, whatever the mode)
F2All == IF Mode = "sqrt-fq2" THEN { <<i, j>> : i \in 0..(P - 1), j \in 0..(P - 1) } ELSE {}
Squares2 == { M2(x, x) : x \in F2All }

\* ---- one state per element ---------------------------------------------------------------------------------------------------------------
VARIABLES x, verdict
Dom == IF Mode = "sqrt-fq2" THEN F2All ELSE 0..(P - 1)
Init == x \in Dom /\ verdict = "todo"
Good(a) ==
  CASE Mode = "inverse" -> LET r == InverseM(a) IN r.ok /\ r.res < P /\ (IF a = 0 THEN r.res = 0 ELSE (r.res * a) % P = R2)
    [] Mode = "sqrt-ts" -> ~IsSquareP(a) \/ LET r == SqrtTS(a) IN r.ok /\ (r.res * r.res) % P = a
    [] Mode = "sqrt-34" -> ~IsSquareP(a) \/ LET r == Pow(a, (P + 1) \div 4, P) IN (r * r) % P = a
    [] OTHER -> /\ (Legendre2(a) # 0 - 1) = (a \in Squares2)
                /\ a \notin Squares2 \/ LET r == Sqrt2(a) IN M2(r, r) = a
Next == verdict = "todo" /\ verdict' = (IF Good(x) THEN "ok" ELSE "bad") /\ UNCHANGED x
AllGood == verdict # "bad"
\* Tonelli-Shanks on a non-square: the coded loop cannot finish (reported by the expected-violation configuration)
TsTerminatesOnNonSquares == (Mode = "sqrt-ts" /\ verdict = "todo" /\ ~IsSquareP(x)) => SqrtTS(x).ok
=============================================================================
