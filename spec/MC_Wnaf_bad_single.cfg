CONSTANTS Mode = "single"
 Bits = 8
 Win = 4
 X = 3
 Variant = "table-index"
INIT Init
NEXT Next
INVARIANTS Correct TableInBounds BuffersInBounds
CHECK_DEADLOCK FALSE
