------------------------------- MODULE WnafMul -------------------------------
(* Tier A: the scalar-multiplication LOOPS of the library, transcribed with their buffer sizes and
   loop bounds, on a group where the answer is an integer: the base point is 1 in Z (plain
   multiplication) or in Z_r (the endomorphism- and Frobenius-accelerated methods, whose eigenvalues
   are taken from a toy member of the BLS12 family: r = x^4 - x^2 + 1, phi = [r - x^2], psi = [x]).

     "single"   wnaf_multiply:          from_bigint (fixed-width accumulator, window w) -> fill_table -> wnaf_table_multiply
     "glv"      G1::multiply_endomorphism(a, scalar): caller -> decompose_lambda -> two recodings (window 4) -> interleaved loop
     "powx"     G2::multiply_frobenius(a, scalar):    PowersOfX::decompose -> four recodings (window 2) -> interleaved loop over
                the Frobenius images with their sign rule

   TLC evaluates every scalar of the accepted width.  Checked: the result is [k]P (as an integer, resp. modulo r);
   every digit index stays inside its buffer (bits + 1 digits), every table index inside the table (2^(w-1)
   entries), every recoded scalar is consumed completely by the loop that reads it.                          *)
EXTENDS Integers, Sequences, TLC
CONSTANTS Mode,      \* "single" | "glv" | "powx"
          Bits,      \* width of the scalar type (single mode)
          Win,       \* window (single mode)
          X,         \* |x| of the toy BLS12 member (glv, powx); x is negative as in BLS12-381
          Variant    \* "shipped", or a broken variant that must be rejected: "powx-short-loop" (the loop starts one index lower),
                     \* "glv-min-size" (the interleaved loop runs over the shorter recoding), "table-index" (entry (d+1)/2 instead of d/2)

Abs(v) == IF v < 0 THEN 0 - v ELSE v
RECURSIVE BitLen(_)
BitLen(n) == IF n = 0 THEN 0 ELSE 1 + BitLen(n \div 2)
Max(a, b) == IF a > b THEN a ELSE b

\* ---- WnafScalar<bits, w>::from_bigint: digits, least significant first (ScalarRecode.tla is the step-by-step version) ----------
RECURSIVE Recode(_, _, _)
Recode(c, bits, w) ==
  IF c = 0 THEN <<>>
  ELSE LET u0 == c % (2 ^ (w + 1))
           u  == IF c % 2 = 0 THEN 0 ELSE IF u0 > 2 ^ w THEN u0 - 2 ^ (w + 1) ELSE u0
           full == c - u
           wrapped == full % (2 ^ bits)
           nxt == (wrapped \div 2) + (IF full >= 2 ^ bits THEN 2 ^ (bits - 1) ELSE 0)
       IN <<u>> \o Recode(nxt, bits, w)
\* WnafTable<w>::fill_table: table[j] = (2j + 1) base, j < 2^(w-1)
TableSize(w) == 2 ^ (w - 1)
Entry(base, j) == (2 * j + 1) * base
\* one digit applied to the accumulator; returns <<value, table index used>>
Index(m) == IF Variant = "table-index" THEN (m + 1) \div 2 ELSE m \div 2
DigitTerm(d, base) == IF d > 0 THEN <<Entry(base, Index(d)), Index(d)>> ELSE <<0 - Entry(base, Index(0 - d)), Index(0 - d)>>

\* ---- wnaf_table_multiply ------------------------------------------------------------------------------------------------------
\* state of the loop: [res, found, maxidx]; i runs from size-1 down to 0
RECURSIVE TableLoop(_, _, _, _)
TableLoop(dg, i, st, base) ==
  IF i = 0 THEN st
  ELSE LET r1 == IF st.found THEN 2 * st.res ELSE st.res
           d == dg[i]
           t == DigitTerm(d, base)
       IN TableLoop(dg, i - 1, IF d = 0 THEN [st EXCEPT !.res = r1] ELSE [res |-> r1 + t[1], found |-> TRUE, maxidx |-> Max(st.maxidx, t[2])], base)
SingleMul(k, bits, w) == TableLoop(Recode(k, bits, w), Len(Recode(k, bits, w)), [res |-> 0, found |-> FALSE, maxidx |-> 0], 1)

\* ---- toy BLS12 member ---------------------------------------------------------------------------------------------------------
X2 == X * X
R  == X2 * X2 - X2 + 1
VB == BitLen(X2)
KB == Max(BitLen(R) + 1, 2 * VB)                 \* width of the scalar type (256 for the real curve)
N  == KB + VB
Lr == BitLen(R) - 1
Lam == R - X2                                    \* phi = [Lam] on the group of order r
Recip == ((2 ^ (N + Lr)) + R - 1) \div R
HalfM == (N + 1) \div 2
MulShift(n) == LET h == 2 ^ HalfM IN ((n * (Recip \div h)) + ((n * (Recip % h)) \div h)) \div (2 ^ (N + Lr - HalfM))
\* multiply_endomorphism(a, scalar) -> decompose_lambda, as in GlvDecompose.tla (shipped variant): signed parts
Decomp(k) ==
  LET kk == k                                                       \* the caller passes the scalar on unreduced
      b1 == IF 2 * kk >= 2 ^ KB THEN 1 ELSE IF (2 * kk) % (2 ^ KB) < R THEN 0 ELSE 1
      b2 == MulShift((X2 - 1) * kk) % (2 ^ VB)
      p  == (b2 * X2 + b1) % (2 ^ KB)
      c0 == IF kk < p THEN p - kk ELSE kk - p
      c1 == IF b1 = 0 THEN b2 ELSE Abs((X2 - 1) - b2)
  IN [c0 |-> c0, c0neg |-> kk < p, c1 |-> c1, c1neg |-> IF b1 = 0 THEN TRUE ELSE (X2 - 1) < b2]
\* the interleaved loop of multiply_endomorphism(a, c0, c0_neg, c1, c1_neg): window 4, both recodings KB wide
RECURSIVE GlvLoop(_, _, _, _, _)
GlvLoop(d0, d1, i, st, sg) ==      \* i = loop index + 1
  IF i = 0 THEN st
  ELSE LET r1 == IF st.found THEN 2 * st.res ELSE st.res
           a0 == IF i <= Len(d0) /\ d0[i] # 0 THEN DigitTerm(d0[i], 1) ELSE <<0, 0>>
           a1 == IF i <= Len(d1) /\ d1[i] # 0 THEN DigitTerm(d1[i], 1) ELSE <<0, 0>>
           hit == (i <= Len(d0) /\ d0[i] # 0) \/ (i <= Len(d1) /\ d1[i] # 0)
       IN GlvLoop(d0, d1, i - 1, [res |-> r1 + sg[1] * a0[1] + sg[2] * Lam * a1[1], found |-> st.found \/ hit, maxidx |-> Max(st.maxidx, Max(a0[2], a1[2]))], sg)
GlvMul(k) ==
  LET dc == Decomp(k)
      d0 == Recode(dc.c0, KB, 4)   d1 == Recode(dc.c1, KB, 4)
      Min(a, b) == IF a < b THEN a ELSE b
  IN [loop |-> GlvLoop(d0, d1, IF Variant = "glv-min-size" THEN Min(Len(d0), Len(d1)) ELSE Max(Len(d0), Len(d1)), [res |-> 0, found |-> FALSE, maxidx |-> 0], <<IF dc.c0neg THEN 0 - 1 ELSE 1, IF dc.c1neg THEN 0 - 1 ELSE 1>>),
      sizes |-> <<Len(d0), Len(d1)>>]

\* PowersOfX::decompose + multiply_frobenius: four base-|x| coefficients in CB-bit registers (64 for the real curve), window 2,
\* t[i] = psi^i(a) negated when i is odd (x < 0); the loop index starts at CB (one above the top bit of a coefficient)
CB == BitLen(X)
PowXMul(k) ==
  LET y == IF k < R THEN k ELSE k - R
      c == [i \in 0..3 |-> IF i < 3 THEN (y \div (X ^ i)) % X ELSE (y \div (X ^ 3)) % (2 ^ CB)]       \* the last one is truncated to the register
      dg == [i \in 0..3 |-> Recode(c[i], CB, 2)]
      \* t[i] = psi^i(a) with psi = [x], x = -|x|, negated when ((i & 1) == 0) != bls_x_is_negative, i.e. for odd i: [|x|^i] a
      base == [i \in 0..3 |-> (IF i % 2 = 1 THEN 0 - 1 ELSE 1) * ((0 - X) ^ i)]
      RECURSIVE Loop(_, _)
      Loop(i, st) == IF i = 0 THEN st
                     ELSE LET r1 == IF st.found THEN 2 * st.res ELSE st.res
                              terms == [j \in 0..3 |-> IF i <= Len(dg[j]) /\ dg[j][i] # 0 THEN DigitTerm(dg[j][i], base[j]) ELSE <<0, 0>>]
                              hit == \E j \in 0..3 : i <= Len(dg[j]) /\ dg[j][i] # 0
                          IN Loop(i - 1, [res |-> r1 + terms[0][1] + terms[1][1] + terms[2][1] + terms[3][1], found |-> st.found \/ hit,
                                          maxidx |-> Max(st.maxidx, Max(Max(terms[0][2], terms[1][2]), Max(terms[2][2], terms[3][2])))])
  IN [loop |-> Loop(IF Variant = "powx-short-loop" THEN CB ELSE CB + 1, [res |-> 0, found |-> FALSE, maxidx |-> 0]), sizes |-> <<Len(dg[0]), Len(dg[1]), Len(dg[2]), Len(dg[3])>>,
      untruncated |-> (y \div (X ^ 3)) < 2 ^ CB]

\* ---- one state per scalar ---------------------------------------------------------------------------------------------------------
VARIABLES k, out
Width == IF Mode = "single" THEN Bits ELSE KB
Init == k \in 0..(2 ^ Width - 1) /\ out = <<>>
Next == /\ out = <<>>
        /\ out' = (CASE Mode = "single" -> LET m == SingleMul(k, Bits, Win) IN <<m.res, m.maxidx, <<Len(Recode(k, Bits, Win))>>, TRUE>>
                     [] Mode = "glv" -> LET m == GlvMul(k) IN <<m.loop.res, m.loop.maxidx, m.sizes, TRUE>>
                     [] OTHER -> LET m == PowXMul(k) IN <<m.loop.res, m.loop.maxidx, m.sizes, m.untruncated>>)
        /\ UNCHANGED k
Done == out # <<>>
\* (powx: on toy members the top coefficient of scalars near 2^KB does not fit its register; for the real parameters it always does -- an
\*  ASSUME of MC_Params381 -- so the claim is made for the scalars whose top coefficient is not truncated)
Correct == (Done /\ out[4]) => IF Mode = "single" THEN out[1] = k ELSE (out[1] - k) % R = 0
TableInBounds == Done => out[2] < TableSize(CASE Mode = "single" -> Win [] Mode = "glv" -> 4 [] OTHER -> 2)
BuffersInBounds == Done => \A i \in 1..Len(out[3]) : out[3][i] <= (CASE Mode = "single" -> Bits [] Mode = "glv" -> KB [] OTHER -> CB) + 1
\* powx: the loop starts at index CB, so a recoding of CB + 1 digits is read completely
=============================================================================
