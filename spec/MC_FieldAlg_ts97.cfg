CONSTANTS P = 97
 Bits = 8
 Mode = "sqrt-ts"
INIT Init
NEXT Next
INVARIANT AllGood
CHECK_DEADLOCK FALSE
