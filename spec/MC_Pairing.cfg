INIT Init
NEXT Next
