----------------------------- MODULE Gen_Pairing ------------------------------
(* Generator (G->I) for the pairing layer.
   C01: generator pair, scalar-boundary multiples, every identity combination, inputs given as
        non-normalised Jacobian representatives (converted by the library before pairing), each
        through the affine, prepared and C-API variants.
   C08: list shapes (#affine, #prepared) x identity mask per position, two consecutive products
        over the same record arrays.
   C07: GT bases x exponent family x routine; group operations; scripted random exponentiation. *)
EXTENDS Pairing, Json, IOUtils, TLC
Tier == IF "TIER" \in DOMAIN IOEnv THEN IOEnv.TIER ELSE "quick"
What == IF "WHAT" \in DOMAIN IOEnv THEN IOEnv.WHAT ELSE "single"
Seed == IF "SEED" \in DOMAIN IOEnv THEN atoi(IOEnv.SEED) ELSE 1
FqF == INSTANCE PrimeField WITH P <- QMod, NBytes <- 48
Rnd(k) == ModExp(FromNat(5), FromNat(1000003 * Seed + 7919 * k), Q)
Raw1(v) == Pad(FqF!Mont(v), 48)
Raw2(x) == <<Raw1(x[1]), Raw1(x[2])>>
Raw6(x) == <<Raw2(x[1]), Raw2(x[2]), Raw2(x[3])>>
Raw12(x) == <<Raw6(x[1]), Raw6(x[2])>>
Aff1Raw(P) == IF P = <<>> THEN <<Raw1(Zero), Raw1(One), 1>> ELSE <<Raw1(P[1]), Raw1(P[2]), 0>>
Aff2Raw(P) == IF P = <<>> THEN <<Raw2(F2!EZero), Raw2(F2!EOne), 1>> ELSE <<Raw2(P[1]), Raw2(P[2]), 0>>
Jac1Raw(P, z) == IF P = <<>> THEN <<Raw1(Rnd(1)), Raw1(Rnd(2)), Raw1(Zero)>>
                 ELSE <<Raw1(QMul(P[1], QMul(z, z))), Raw1(QMul(P[2], QMul(z, QMul(z, z)))), Raw1(z)>>
Jac2Raw(P, z) == IF P = <<>> THEN <<Raw2(<<Rnd(3), Rnd(4)>>), Raw2(<<Rnd(5), Rnd(6)>>), Raw2(F2!EZero)>>
                 ELSE LET z2 == F2Mul(z, z) IN <<Raw2(F2Mul(P[1], z2)), Raw2(F2Mul(P[2], F2Mul(z2, z))), Raw2(z)>>
M1(k) == E1!ScalarMul(k, G1Gen)
M2(k) == E2!ScalarMul(k, G2Gen)
Scal == IF Tier = "quick" THEN { One, Sub(RMod, One), ModN(Rnd(10), RMod) } ELSE { One, Two, Sub(RMod, One), ShiftR(RMod, 1), ModN(Rnd(10), RMod), ModN(Rnd(11), RMod) }
Variants == {"affine", "prepared", "c", "c_prepared"}

SingleCases ==
  SetToSeq({ [op |-> "pair.single", variant |-> v, p |-> Aff1Raw(M1(a)), q |-> Aff2Raw(M2(b)), cls |-> "multiples", src |-> "gen"] : v \in Variants, a \in Scal, b \in Scal })
  \o SetToSeq({ [op |-> "pair.single", variant |-> v, p |-> Aff1Raw(pq[1]), q |-> Aff2Raw(pq[2]), cls |-> "identity", src |-> "gen"] :
                v \in Variants, pq \in { <<<<>>, M2(Two)>>, <<M1(Two), <<>>>>, <<<<>>, <<>>>> } })
  \o SetToSeq({ [op |-> "pair.single", variant |-> v, pj |-> Jac1Raw(M1(FromNat(3)), z), qj |-> Jac2Raw(M2(FromNat(5)), <<z, Rnd(20)>>), cls |-> "non-normalised", src |-> "gen"] :
                v \in {"affine", "c_prepared"}, z \in { Two, Sub(Q, One), Rnd(21) } })
  \o SetToSeq({ [op |-> "pair.single", variant |-> "c", pj |-> Jac1Raw(<<>>, One), qj |-> Jac2Raw(M2(FromNat(5)), F2!EOne), cls |-> "non-normalised-identity", src |-> "gen"],
                [op |-> "pair.single", variant |-> "prepared", pj |-> Jac1Raw(M1(FromNat(3)), Two), qj |-> Jac2Raw(<<>>, F2!EOne), cls |-> "non-normalised-identity", src |-> "gen"] })
  \o << [op |-> "gt.const", src |-> "gen"] >>

\* ---- list shapes for the pairing product ----------------------------------------------------------------
MaxA == IF Tier = "quick" THEN 2 ELSE 3
Masks == {"none", "P", "Q", "both"}
Entry(kind, i, mask) == [kind |-> kind,
                         p |-> Aff1Raw(IF mask \in {"P", "both"} THEN <<>> ELSE M1(FromNat(2 * i + 1))),
                         q |-> Aff2Raw(IF mask \in {"Q", "both"} THEN <<>> ELSE M2(FromNat(3 * i + 2)))]
\* all mask assignments for n positions with at most MaxId identity positions
MaskSeqs(n) == { m \in [1..n -> Masks] : Cardinality({ i \in 1..n : m[i] # "none" }) <= (IF Tier = "quick" THEN 1 ELSE 2) }
\* several pair records naming THE SAME operand object (shareq / sharep: 0-based index of the earlier entry whose object is used): the
\* product is over pairs, whatever storage they share; with and without an identity in the first of the sharing pairs
SharedCases ==
  LET E(kind, i, mask) == Entry(kind, i, mask)
      Q1(e) == [e EXCEPT !.q = E("affine", 1, "none").q]           \* the same G2 value as entry 1
      P1(e) == [e EXCEPT !.p = E("affine", 1, "none").p]
  IN SetToSeq({ [op |-> "pair.sum", rounds |-> 2, na |-> 3, np |-> 0, mask |-> <<m1, "none", "none">>,
                  entries |-> << E("affine", 1, m1), Q1(E("affine", 2, "none")) @@ [shareq |-> 0], E("affine", 3, "none") >>, src |-> "gen", cls |-> "shared-q"] : m1 \in {"none", "P"} })
     \o SetToSeq({ [op |-> "pair.sum", rounds |-> 2, na |-> 2, np |-> 1, mask |-> <<m1, "none", "none">>,
                  entries |-> << E("affine", 1, m1), P1(E("affine", 2, "none")) @@ [sharep |-> 0], Q1(E("prepared", 3, "none")) >>, src |-> "gen", cls |-> "shared-p"] : m1 \in {"none", "Q"} })
     \* two prepared records naming the same prepared object
     \o SetToSeq({ [op |-> "pair.sum", rounds |-> 2, na |-> na, np |-> 2, mask |-> [i \in 1..(na + 2) |-> "none"],
                  entries |-> (IF na = 1 THEN << E("affine", 3, "none") >> ELSE <<>>) \o << E("prepared", 1, "none"), Q1(E("prepared", 2, "none")) @@ [shareq |-> na] >>, src |-> "gen", cls |-> "shared-prepared"] : na \in {0, 1} })
     \o << [op |-> "pair.sum", rounds |-> 1, na |-> 3, np |-> 0, mask |-> <<"P", "P", "none">>,
            entries |-> << E("affine", 1, "P"), Q1(E("affine", 2, "P")) @@ [shareq |-> 0], Q1(E("affine", 3, "none")) @@ [shareq |-> 1] >>, src |-> "gen", cls |-> "shared-q"] >>

\* products whose factors cancel: e(P,Q) e(-P,Q) = e(P,Q) e(P,-Q) = 1 -- the Miller value then lies in a proper subfield before the final exponentiation
CancelCases ==
  LET A(k, j) == [kind |-> "affine", p |-> Aff1Raw(M1(k)), q |-> Aff2Raw(M2(j))]
      Pr(k, j) == [kind |-> "prepared", p |-> Aff1Raw(M1(k)), q |-> Aff2Raw(M2(j))]
      three == FromNat(3)  five == FromNat(5)  m3 == Sub(RMod, three)  m5 == Sub(RMod, five)
  IN << [op |-> "pair.sum", rounds |-> 1, na |-> 2, np |-> 0, mask |-> <<"none", "none">>, entries |-> << A(three, five), A(m3, five) >>, src |-> "gen", cls |-> "cancelling"],
        [op |-> "pair.sum", rounds |-> 1, na |-> 2, np |-> 0, mask |-> <<"none", "none">>, entries |-> << A(three, five), A(three, m5) >>, src |-> "gen", cls |-> "cancelling"],
        [op |-> "pair.sum", rounds |-> 1, na |-> 1, np |-> 1, mask |-> <<"none", "none">>, entries |-> << A(three, five), Pr(m3, five) >>, src |-> "gen", cls |-> "cancelling"],
        [op |-> "pair.sum", rounds |-> 2, na |-> 0, np |-> 2, mask |-> <<"none", "none">>, entries |-> << Pr(three, five), Pr(three, m5) >>, src |-> "gen", cls |-> "cancelling"],
        [op |-> "pair.sum", rounds |-> 1, na |-> 3, np |-> 1, mask |-> <<"none", "none", "none", "none">>,
         entries |-> << A(three, five), A(m3, five), A(FromNat(7), FromNat(2)), Pr(Sub(RMod, FromNat(7)), FromNat(2)) >>, src |-> "gen", cls |-> "cancelling"] >>
\* long lists: n records of one pair (each record with its own operand objects), identity operands at the listed 0-based positions.
\* "Any length": nothing in the interface makes 64 (or any other count) special; the expected product is e(P, Q)^(n - #identities).
LongCases ==
  LET ns == IF Tier = "quick" THEN {65, 66} ELSE {63, 64, 65, 66, 129, 130}
      ids == { <<>>, <<0>>, <<1>>, <<64>>, <<65>>, <<0, 64>>, <<1, 65>>, <<128>> }
  IN SetToSeq(UNION { { [op |-> "pair.long", variant |-> kind, n |-> n, idpos |-> ip, idside |-> sd, p |-> Aff1Raw(M1(FromNat(3))), q |-> Aff2Raw(M2(FromNat(5))),
                          cls |-> "long-list", src |-> "gen"] :
                        kind \in {"affine", "prepared"}, ip \in { x \in ids : \A k \in 1..Len(x) : x[k] < n }, sd \in {"P", "Q"} } : n \in ns })
SumCases ==
  SetToSeq(UNION { UNION { { [op |-> "pair.sum", rounds |-> 2, na |-> na, np |-> np, mask |-> m,
                              entries |-> [i \in 1..(na + np) |-> Entry(IF i <= na THEN "affine" ELSE "prepared", i, m[i])], src |-> "gen"]
                            : m \in MaskSeqs(na + np) } : np \in 0..MaxA } : na \in 0..MaxA })
  \* interleaved construction order (prepared first) and a repeated pair
  \o << [op |-> "pair.sum", rounds |-> 2, na |-> 1, np |-> 1, mask |-> <<"none", "none">>,
         entries |-> << Entry("prepared", 1, "none"), Entry("affine", 1, "none") >>, src |-> "gen"] >>
  \o SharedCases \o CancelCases \o LongCases

\* ---- target group ----------------------------------------------------------------------------------------
GTBases == IF Tier = "quick" THEN { GTGen, RefPairing(M1(FromNat(3)), M2(FromNat(5))) } ELSE { GTGen, F12Exp(GTGen, Sub(RMod, One)), RefPairing(M1(FromNat(3)), M2(FromNat(5))), F12!EOne }
Near(k, js) == { Sub(Pow2(k), FromNat(jj)) : jj \in js \ {0} } \cup { Add(Pow2(k), FromNat(jj)) : jj \in js }
XFam == LET x == XAbs  x2 == Mul(x, x)  x3 == Mul(x2, x) IN
        { Sub(x, One), x, Add(x, One), Sub(x2, One), x2, Add(x2, One), Sub(x3, One), x3, Add(x3, One), Mul(x3, Sub(x, One)), Sub(Mul(x3, x), One) }
\* values that coincide with constants the arithmetic uses internally (Montgomery R, R^2, -1/r mod 2^64 ...): a shortcut keyed on the
\* internal representation mistakes them for 0 or 1
InternalConsts == { ModN(Pow2(256), RMod), ModN(Pow2(512), RMod), Sub(RMod, ModN(Pow2(256), RMod)), ModN(Pow2(384), RMod) }
Exps == { s \in { Zero, One, Two, FromNat(3), Sub(RMod, One), RMod, Add(RMod, One), Add(RMod, RMod), Sub(Add(RMod, RMod), One), Add(Add(RMod, RMod), One),
                  Sub(Pow2(256), One), Sub(Pow2(256), Two), Pow2(255), Sub(Pow2(255), One), ModPow2(Mul(Rnd(30), Rnd(31)), 256) }
                \cup XFam \cup Near(64, {0, 1}) \cup Near(128, {0, 1}) \cup Near(192, {0, 1}) \cup InternalConsts : Lt(s, Pow2(256)) }
LE(v, n) == [i \in 1..n |-> Pad(v, n)[i]]
Cat(ss) == FoldLeft(LAMBDA a, b : a \o b, <<>>, ss)
DigitsOf(y) == <<ModN(y, XAbs), ModN(Div(y, XAbs), XAbs), ModN(Div(y, Mul(XAbs, XAbs)), XAbs), Div(y, Mul(XAbs, Mul(XAbs, XAbs)))>>
PowXStreams == {
  Cat(<<LE(XAbs, 8), LE(Sub(XAbs, One), 8), LE(Sub(Pow2(64), One), 8), LE(Zero, 8), LE(One, 8), LE(Add(XAbs, One), 8), LE(Two, 8)>>),
  Cat([i \in 1..4 |-> LE(DigitsOf(RMod)[i], 8)]) \o Cat([i \in 1..4 |-> LE(DigitsOf(Sub(RMod, One))[i], 8)]),
  Cat([i \in 1..4 |-> LE(Sub(XAbs, One), 8)]) \o Cat([i \in 1..4 |-> LE(Zero, 8)]),
  Cat([i \in 1..4 |-> LE(DigitsOf(ModN(Rnd(70), RMod))[i], 8)]) }
DigitVal(d) == Add(Add(d[1], Mul(d[2], XAbs)), Add(Mul(d[3], Mul(XAbs, XAbs)), Mul(d[4], Mul(XAbs, Mul(XAbs, XAbs)))))
\* base-|x| digit patterns with and without the subtraction of r, incl. a top digit above |x| (exponents >= r + |x|^4) and a zero lowest digit
DigitFamCore == { s \in { Add(IF b = 1 THEN RMod ELSE Zero, DigitVal(<<d0, d1, Zero, d3>>)) : b \in {0, 1}, d0 \in { Zero, Sub(XAbs, One) }, d1 \in { Zero, FromNat(5) },
                                                                                          d3 \in { One, XAbs, Add(XAbs, FromNat(5)) } } : Lt(s, Pow2(256)) }
GtCases ==
  SetToSeq({ [op |-> "gt.exp", variant |-> v, a |-> Raw12(a), k |-> Pad(k, 32), alias |-> al, src |-> "gen"] :
             v \in {"div", "nodiv", "powx", "c"}, a \in GTBases, k \in Exps, al \in {0, 1} })
  \o SetToSeq({ [op |-> "gt.exp", variant |-> v, a |-> Raw12(GTGen), k |-> Pad(k, 32), alias |-> 0, src |-> "gen"] : v \in {"powx", "c"}, k \in DigitFamCore })
  \o SetToSeq({ [op |-> "gt.op", which |-> w, a |-> Raw12(a), b |-> Raw12(b), alias |-> al, src |-> "gen"] :
                w \in {"add", "negate", "double", "equal", "marshal"}, a \in GTBases \cup {F12!EOne}, b \in GTBases \cup {F12!EOne}, al \in {0, 1, 2} })
  \o SetToSeq({ [op |-> "gt.op", which |-> "add", a |-> Raw12(a), b |-> Raw12(a), alias |-> 3, src |-> "gen"] : a \in GTBases })
  \o SetToSeq({ [op |-> "gt.random", variant |-> v, a |-> Raw12(a), stream |-> s, alias |-> al, src |-> "gen"] : v \in {"c", "cpp"}, a \in GTBases \cup { F12!EOne }, s \in PowXStreams, al \in {0, 1} })
  \* the final exponentiation as a function on all of Fq12* (its input is a Miller-loop value, not a GT element)
  \o SetToSeq({ [op |-> "gt.finalexp", a |-> Raw12(a), alias |-> al, src |-> "gen"] :
                a \in { GTGen, << <<<<Rnd(61), Rnd(62)>>, <<Rnd(63), Rnd(64)>>, <<Rnd(65), Rnd(66)>>>>, <<<<Rnd(67), Rnd(68)>>, <<Rnd(69), Rnd(70)>>, <<Rnd(71), Rnd(72)>>>> >> }, al \in {0, 1} })

\* C19 only: the C functions on arguments outside GT (arbitrary invertible Fq12 values, which gt_unmarshal hands out unchecked): the C view must
\* still be the C++ operation it names (inverse, product, equality, bytes), not one that merely agrees with it on GT
OutsideGT == { << <<<<Rnd(61), Rnd(62)>>, <<Rnd(63), Rnd(64)>>, <<Rnd(65), Rnd(66)>>>>, <<<<Rnd(67), Rnd(68)>>, <<Rnd(69), Rnd(70)>>, <<Rnd(71), Rnd(72)>>>> >>,
               << <<<<Rnd(81), Zero>>, <<Zero, Zero>>, <<Zero, Zero>>>>, <<<<One, Rnd(82)>>, <<Zero, Zero>>, <<Zero, Zero>>>> >> }
GtViewCases ==
  SetToSeq({ [op |-> "gt.op", which |-> w, a |-> Raw12(a), b |-> Raw12(b), alias |-> 0, cls |-> "outside-gt", src |-> "gen"] :
             w \in {"add", "negate", "equal", "marshal"}, a \in OutsideGT, b \in OutsideGT \cup {GTGen} })
Cases == CASE What = "single" -> SingleCases [] What = "sum" -> SumCases [] What = "gtview" -> GtViewCases [] OTHER -> GtCases
ASSUME PrintT(<<"cases", Len(Cases)>>)
ASSUME ndJsonSerialize(IOEnv.OUT, Cases)
=============================================================================
