------------------------------ MODULE MC_Tower -------------------------------
(* Self-checks of the tower oracle at the real parameters:
   (1) the Java-accelerated products equal the ExtField definitions (pure TLA+) on boundary and
       pseudo-random elements;
   (2) the defining relations u^2 = -1, v^3 = 1+u, w^2 = v hold and 1+u is neither a square nor a
       cube in Fq2 (so the quotients are fields);
   (3) the Frobenius maps expressed through generator images equal x^(q^k) computed by plain
       exponentiation.                                                                        *)
EXTENDS Tower, TLC
VARIABLES i, st

Rnd(k) == ModExp(FromNat(7), FromNat(1000003 + 7919 * k), Q)
Cls(c, k) == CASE c = 0 -> Zero [] c = 1 -> One [] c = 2 -> Sub(Q, One) [] c = 3 -> Sub(Q, Pow2(64)) [] OTHER -> Rnd(k)
E2(c, k)  == <<Cls(c, k), Cls((c + k) % 5, k + 1)>>
E6(c, k)  == <<E2(c, k), E2((c + 1) % 5, k + 2), E2((c + 3) % 5, k + 4)>>
E12(c, k) == <<E6(c, k), E6((c + 2) % 5, k + 6)>>
N == 24
Check(k) ==
  LET c == k % 5  a2 == E2(c, k)  b2 == E2((c + 1) % 5, k + 100)
      a6 == E6(c, k)  b6 == E6((c + 2) % 5, k + 100)
      a12 == E12(c, k)  b12 == E12((c + 3) % 5, k + 100)
  IN /\ F2MulQ(a2, b2, Q) = F2!EMul(a2, b2)
     /\ F6MulQ(a6, b6, Q) = F6!EMul(a6, b6)
     /\ F12MulQ(a12, b12, Q) = F12!EMul(a12, b12)
     /\ F12MulQ(a12, a12, Q) = F12!EMul(a12, a12)
     /\ (k <= 2 => F12ExpQ(a12, FromNat(1000 + k), Q) = F12ExpDef(a12, FromNat(1000 + k)))
     /\ (k <= 12 => F2Frob(a2, k) = F2Exp(a2, QPow(k % 2)))
     /\ (k <= 6 => F6Frob(a6, k) = F6Exp(a6, QPow(k % 6)))
     /\ (k = 13 => F12Frob(a12, 1) = F12Exp(a12, Q))
     /\ (k = 14 => F12Frob(a12, 7) = F12Exp(F12Frob(a12, 6), Q))
     /\ (k = 15 => F12Frob(a12, 11) = F12Exp(F12Frob(a12, 10), Q))
U2 == <<Zero, One>>
W12 == <<F6!EZero, F6!EOne>>
ASSUME F2Mul(U2, U2) = <<Sub(Q, One), Zero>>
ASSUME F6Mul(VElem, F6Mul(VElem, VElem)) = F6!EEmbed(Xi)
ASSUME F12Mul(W12, W12) = F12!EEmbed(VElem)
ASSUME F2Legendre(Xi) = 0 - 1
ASSUME F2Exp(Xi, Div(Sub(Mul(Q, Q), One), FromNat(3))) # F2!EOne
Init == i \in 0..(N - 1) /\ st = "todo"
Next == st = "todo" /\ st' = (IF Check(i) THEN "ok" ELSE "bad") /\ UNCHANGED i
Inv == st # "bad"
=============================================================================
