CONSTANTS P = 12289
 Bits = 15
 Mode = "sqrt-ts"
INIT Init
NEXT Next
INVARIANT AllGood
CHECK_DEADLOCK FALSE
