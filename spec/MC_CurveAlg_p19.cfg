CONSTANTS P = 19
          B = 5
INIT Init
NEXT Next
INVARIANT AddOk
INVARIANT MixedOk
INVARIANT DoubleOk
INVARIANT EqualOk
INVARIANT ConvertOk
CHECK_DEADLOCK FALSE
