---------------------------- MODULE MillerProduct -----------------------------
(* The pairing-product loop of src/bls12_381/pairing.cpp as a state machine: one shared
   accumulator, squared once per loop bit, and per-pair records that carry loop state between
   steps (affine records: the running point, abstracted to the number of line steps taken;
   prepared records: a cursor into the precomputed coefficient array).  Values live in a toy
   multiplicative group Z_Pm^*; line values are an arbitrary fixed table, so only the bookkeeping
   is modelled.  One action per line multiplication / squaring; Begin resets every record.
   Checked: cursors never exceed NumCoeffs, skipped pairs (identity members) contribute nothing
   and keep cursor 0, the result equals the product of the single-pair loops - also for a second
   product over the same record array.                                                       *)
EXTENDS Naturals, Sequences, FiniteSets
CONSTANTS XBits,        \* bits of |x| below the top bit, most significant first; the last one must be 0
          Pm,           \* toy prime
          MaxPairs, Rounds
VARIABLES recs, acc, pos, phase, j, round

vars == <<recs, acc, pos, phase, j, round>>
NB == Len(XBits)
NumCoeffs == NB + Cardinality({ i \in 1..NB : XBits[i] = 1 })
\* the n-th line value of pair number id (any fixed table of units works)
Line(id, n) == ((id * 7 + n * 3 + id * n) % (Pm - 1)) + 1
Kinds == {"affine", "prepared"}
RecSet == [kind : Kinds, skip : BOOLEAN, id : 1..MaxPairs, cur : 0..(NumCoeffs + 2)]

\* single-pair reference loop: f <- f^2 * dbl-line [* add-line]
RECURSIVE Single(_, _, _, _)
Single(id, i, f, n) ==      \* i: next bit position, n: coefficients consumed so far
  IF i > NB THEN f
  ELSE LET f1 == (f * f * Line(id, n + 1)) % Pm
       IN IF XBits[i] = 1 THEN Single(id, i + 1, (f1 * Line(id, n + 2)) % Pm, n + 2) ELSE Single(id, i + 1, f1, n + 1)
RECURSIVE ProdSingles(_, _)
ProdSingles(rs, k) == IF k > Len(rs) THEN 1
                      ELSE ((IF rs[k].skip THEN 1 ELSE Single(rs[k].id, 1, 1, 0)) * ProdSingles(rs, k + 1)) % Pm

Init == /\ recs \in UNION { [1..n -> { r \in RecSet : r.cur \in {0, NumCoeffs + 1} }] : n \in 0..MaxPairs }   \* stale cursors allowed
        /\ \A a, b \in DOMAIN recs : a # b => recs[a].id # recs[b].id
        /\ acc = 0 /\ pos = 0 /\ phase = "begin" /\ j = 1 /\ round = 1

Begin == /\ phase = "begin"
         /\ recs' = [k \in DOMAIN recs |-> [recs[k] EXCEPT !.cur = 0]]          \* reset of every record
         /\ acc' = 1 /\ pos' = 1 /\ phase' = "dbl" /\ j' = 1 /\ UNCHANGED round
\* multiply the accumulator by the next line of record j (if not skipped), advance its cursor
LineStep(ph, nextph) ==
  /\ phase = ph
  /\ IF j > Len(recs) THEN /\ phase' = nextph /\ j' = 1 /\ UNCHANGED <<recs, acc>>
     ELSE /\ j' = j + 1 /\ phase' = ph
          /\ IF recs[j].skip THEN UNCHANGED <<recs, acc>>
             ELSE /\ acc' = (acc * Line(recs[j].id, recs[j].cur + 1)) % Pm
                  /\ recs' = [recs EXCEPT ![j].cur = @ + 1]
  /\ UNCHANGED <<pos, round>>
Dbl == pos >= 1 /\ pos <= NB /\ LineStep("dbl", IF pos = NB THEN "finish" ELSE IF XBits[pos] = 1 THEN "add" ELSE "square")
Add == pos >= 1 /\ pos <= NB /\ XBits[pos] = 1 /\ LineStep("add", "square")
Square == /\ phase = "square" /\ acc' = (acc * acc) % Pm /\ pos' = pos + 1 /\ phase' = "dbl" /\ UNCHANGED <<recs, j, round>>
Finish == /\ phase = "finish"
          /\ IF round < Rounds THEN phase' = "begin" /\ round' = round + 1 ELSE phase' = "done" /\ round' = round
          /\ UNCHANGED <<recs, acc, pos, j>>
Next == Begin \/ Dbl \/ Add \/ Square \/ Finish

\* the code squares after the lines of a bit; the reference recurrence squares before them: shift by one position
RefAcc == ProdSingles(recs, 1)
CursorBound == \A k \in DOMAIN recs : phase # "begin" => recs[k].cur <= NumCoeffs
ResultOk == phase \in {"finish", "done"} =>
              /\ acc = RefAcc
              /\ \A k \in DOMAIN recs : recs[k].cur = (IF recs[k].skip THEN 0 ELSE NumCoeffs)
ASSUME XBits[NB] = 0
=============================================================================
