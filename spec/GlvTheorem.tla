---------------------------- MODULE GlvTheorem ----------------------------
(* Proved with TLAPS (tlapm; back end Z3), for ALL integers - no bound on the scalar, the rounding or the parameters:

   decompose_lambda returns  c0 = k - b1 - b2 v21  and  c1 = b1 v12 - b2  for its rounded quotients b1, b2.  If the
   constants satisfy  v12 L = 1  and  v21 + L = 0  modulo r  (what MC_Consts checks on the source text, with L the
   eigenvalue of the endomorphism), then  c0 + c1 L = k  modulo r  WHATEVER b1 and b2 are.

   This is why the precision of the 384-bit reciprocal (fr_p_value_reciprocal), the truncation of b2 to 128 bits and
   the unreduced scalar the caller passes on affect the size of the parts, never the result (GlvDecompose.tla shows
   the same on toy parameters by exhaustion; this is the unbounded statement).  Not in the proof: that the parts fit
   their registers (GlvDecompose: NoOverflow) and that the two-scalar loop adds them up (WnafMul).                 *)
EXTENDS Integers, TLAPS

THEOREM GlvRecombines ==
  ASSUME NEW k \in Int, NEW b1 \in Int, NEW b2 \in Int, NEW lam \in Int, NEW r \in Int, NEW v12 \in Int, NEW v21 \in Int,
         NEW s \in Int, NEW t \in Int,
         v12 * lam - 1 = r * s,            \* v12 L = 1 (mod r)
         v21 + lam = r * t                 \* v21 + L = 0 (mod r)
  PROVE  (k - b1 - b2 * v21) + (b1 * v12 - b2) * lam - k = r * (b1 * s - b2 * t)
<1>1. (k - b1 - b2 * v21) + (b1 * v12 - b2) * lam - k = b1 * (v12 * lam - 1) - b2 * (v21 + lam)
  BY Z3T(30)
<1>2. b1 * (v12 * lam - 1) - b2 * (v21 + lam) = b1 * (r * s) - b2 * (r * t)
  OBVIOUS
<1>3. b1 * (r * s) - b2 * (r * t) = r * (b1 * s - b2 * t)
  BY Z3T(30)
<1> QED BY <1>1, <1>2, <1>3

\* the base-|x| decomposition: three divisions with remainder recombine (PowersOfX::decompose; the coefficient ranges are WnafMul's subject)
THEOREM PowXRecombines ==
  ASSUME NEW y \in Int, NEW x \in Int, NEW q1 \in Int, NEW q2 \in Int, NEW q3 \in Int, NEW c0 \in Int, NEW c1 \in Int, NEW c2 \in Int,
         y = q1 * x + c0, q1 = q2 * x + c1, q2 = q3 * x + c2
  PROVE  y = c0 + c1 * x + c2 * (x * x) + q3 * (x * x * x)
<1>1. y = (q2 * x + c1) * x + c0
  OBVIOUS
<1>2. (q2 * x + c1) * x + c0 = ((q3 * x + c2) * x + c1) * x + c0
  OBVIOUS
<1>3. ((q3 * x + c2) * x + c1) * x + c0 = c0 + c1 * x + c2 * (x * x) + q3 * (x * x * x)
  BY Z3T(30)
<1> QED BY <1>1, <1>2, <1>3
=============================================================================
