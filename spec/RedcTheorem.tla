---------------------------- MODULE RedcTheorem ----------------------------
(* Proved with TLAPS (tlapm; back end Z3) for ALL integers - every radix, modulus and input, no bound:

   RedcExact   with p pinv = -1 (mod R), the Montgomery quotient digit m = (T mod R) pinv mod R makes T + m p an exact multiple of R
               (so t = (T + m p) / R satisfies t R = T (mod p): t is T R^-1 modulo p)
   RedcRange   for 0 <= T < R p the quotient t lies in [0, 2p): ONE conditional subtraction of p gives the canonical residue
               - and an input T >= R p (which the field operations never produce: MC_WordArith) is outside the theorem

   This is the whole-number form of FpBase::montgomery_reduce.  The word-serial form the code actually runs (one quotient digit
   per word, carries, the dropped meta-carry) is WordArith.tla, model-checked exhaustively for small word sizes and moduli, and
   every recorded reduction / multiplication of the real library is validated against MulMod(T, R^-1, p) (Trace_Field).      *)
EXTENDS Integers, TLAPS

\* Montgomery reduction, whole-number form: R > 0 the radix (2^bits), p the modulus, pinv with p * pinv + 1 divisible by R,
\* T the input, lo = T mod R (T = R * hi + lo), m = (lo * pinv) mod R (lo * pinv = R * c + m), t = (T + m * p) / R.
THEOREM RedcExact ==
  ASSUME NEW R \in Int, NEW p \in Int, NEW pinv \in Int, NEW a \in Int, NEW T \in Int, NEW hi \in Int, NEW lo \in Int,
         NEW c \in Int, NEW m \in Int,
         p * pinv + 1 = R * a,
         T = R * hi + lo,
         lo * pinv = R * c + m
  PROVE  T + m * p = R * (hi + lo * a - c * p)
<1>1. m * p = (lo * pinv - R * c) * p
  OBVIOUS
<1>2. (lo * pinv - R * c) * p = lo * (p * pinv) - R * (c * p)
  BY Z3T(30)
<1>3. lo * (p * pinv) = lo * (R * a - 1)
  OBVIOUS
<1>4. lo * (R * a - 1) = R * (lo * a) - lo
  BY Z3T(30)
<1>5. T + m * p = R * hi + lo + (R * (lo * a) - lo - R * (c * p))
  BY <1>1, <1>2, <1>3, <1>4
<1>6. R * hi + lo + (R * (lo * a) - lo - R * (c * p)) = R * (hi + lo * a - c * p)
  BY Z3T(30)
<1> QED BY <1>5, <1>6

\* size: for T < R * p and 0 <= m < R the quotient is below 2p, so one conditional subtraction makes the result canonical
THEOREM RedcRange ==
  ASSUME NEW R \in Int, NEW p \in Int, NEW T \in Int, NEW m \in Int, NEW t \in Int,
         R > 0, p > 0, 0 <= T, T < R * p, 0 <= m, m < R,
         T + m * p = R * t
  PROVE  0 <= t /\ t < 2 * p
<1>1. m * p <= (R - 1) * p
  <2>1. R - 1 - m >= 0
    OBVIOUS
  <2>2. \A u, v \in Int : u >= 0 /\ v > 0 => u * v >= 0
    BY Z3T(30)
  <2>3. (R - 1 - m) * p >= 0
    BY <2>1, <2>2
  <2>4. (R - 1 - m) * p = (R - 1) * p - m * p
    BY Z3T(30)
  <2> QED BY <2>3, <2>4
<1>2. (R - 1) * p = R * p - p
  BY Z3T(30)
<1>3. R * t < R * (2 * p)
  BY <1>1, <1>2, Z3T(30)
<1>4. 0 <= R * t
  BY Z3T(30)
<1>5. t < 2 * p
  BY <1>3, Z3T(30)
<1>6. 0 <= t
  BY <1>4, Z3T(30)
<1> QED BY <1>5, <1>6
=============================================================================
