------------------------------ MODULE WordArith ------------------------------
(* Tier A: the word-serial multi-precision and Montgomery algorithms in the shape the code
   has (include/core/bigint.hpp, include/core/fp.hpp, src/core/arch/x86_64/*.s), parametrised
   by the word width W (bits) and the limb count N.  Numbers are little-endian sequences of N
   (or 2N) words.  MC_WordArith checks every operator against plain integer arithmetic for ALL
   operands of small (W,N) and every admissible odd modulus.                                 *)
EXTENDS Naturals, Sequences
CONSTANTS W, N

B     == 2 ^ W                 \* word base
Words == 0..(B - 1)
Num(n) == [1..n -> Words]

RECURSIVE ValFrom(_, _)
ValFrom(s, i) == IF i > Len(s) THEN 0 ELSE s[i] + B * ValFrom(s, i + 1)
ValOf(s) == ValFrom(s, 1)
ToWords(v, n) == [i \in 1..n |-> (v \div (B ^ (i - 1))) % B]

(***************************************************************************)
(* BigInt::add / subtract: the carry is recovered by comparing the result  *)
(* word with an operand word, exactly as the C++ does.                     *)
(***************************************************************************)
RECURSIVE AddLoop(_, _, _, _, _)
AddLoop(a, b, i, carry, acc) ==
  IF i > Len(a) THEN [r |-> acc, c |-> carry]
  ELSE LET w  == (a[i] + b[i] + carry) % B
           c2 == IF carry = 0 THEN (IF w < b[i] THEN 1 ELSE 0) ELSE (IF w <= b[i] THEN 1 ELSE 0)
       IN AddLoop(a, b, i + 1, c2, Append(acc, w))
AddW(a, b) == AddLoop(a, b, 1, 0, <<>>)

RECURSIVE SubLoop(_, _, _, _, _)
SubLoop(a, b, i, borrow, acc) ==
  IF i > Len(a) THEN [r |-> acc, c |-> borrow]
  ELSE LET w  == (a[i] + B + B - b[i] - borrow) % B
           b2 == IF borrow = 0 THEN (IF a[i] < w THEN 1 ELSE 0) ELSE (IF a[i] <= w THEN 1 ELSE 0)
       IN SubLoop(a, b, i + 1, b2, Append(acc, w))
SubW(a, b) == SubLoop(a, b, 1, 0, <<>>)

\* BigInt::compare: most significant word first
RECURSIVE CmpFrom(_, _, _)
CmpFrom(a, b, i) == IF i = 0 THEN 0
                    ELSE IF a[i] < b[i] THEN 0 - 1 ELSE IF a[i] > b[i] THEN 1 ELSE CmpFrom(a, b, i - 1)
CmpW(a, b) == CmpFrom(a, b, Len(a))

\* shift_left_in_word<1>: returns the shifted-out bits
Shl1(a) == LET n == Len(a) IN
  [r |-> [i \in 1..n |-> ((a[i] * 2) % B) + (IF i = 1 THEN 0 ELSE a[i - 1] \div (B \div 2))],
   c |-> a[n] \div (B \div 2)]

(***************************************************************************)
(* FpBase: generic shape (fp.hpp).                                         *)
(***************************************************************************)
FpAdd(a, b, p) == LET s == AddW(a, b) IN
  IF CmpW(s.r, p) >= 0 \/ s.c = 1 THEN SubW(s.r, p).r ELSE s.r
FpDbl(a, p) == LET s == Shl1(a) IN
  IF CmpW(s.r, p) >= 0 \/ s.c # 0 THEN SubW(s.r, p).r ELSE s.r
FpSub(a, b, p) == LET d == SubW(a, b) IN IF d.c = 1 THEN AddW(d.r, p).r ELSE d.r
IsZeroW(a) == \A i \in 1..Len(a) : a[i] = 0
FpNeg(a, p) == IF IsZeroW(a) THEN a ELSE SubW(p, a).r
Reduce(a, p) == IF CmpW(a, p) = 0 - 1 THEN a ELSE SubW(a, p).r

(***************************************************************************)
(* x86-64 assembly shape: decide on the carry, then on the top word, and   *)
(* only when the top words are equal compare by a full subtraction.        *)
(***************************************************************************)
EarlyFinish(s, carry, p) ==
  LET n == Len(p) IN
  IF carry = 1 THEN SubW(s, p).r
  ELSE IF s[n] < p[n] THEN s
  ELSE IF s[n] = p[n] THEN (LET d == SubW(s, p) IN IF d.c = 1 THEN s ELSE d.r)
  ELSE SubW(s, p).r
FpAddEarly(a, b, p) == LET s == AddW(a, b) IN EarlyFinish(s.r, s.c, p)
FpDblEarly(a, p)    == LET s == Shl1(a) IN EarlyFinish(s.r, s.c, p)
FpSubAsm(a, b, p)   == LET d == SubW(a, b) IN IF d.c = 1 THEN AddW(d.r, p).r ELSE d.r

(***************************************************************************)
(* BigInt::multiply (schoolbook with a running carry) and BigInt::square   *)
(* (half grid, doubled with "the highest word is empty", then diagonal).   *)
(***************************************************************************)
Set(s, i, v) == [s EXCEPT ![i] = v]

RECURSIVE MulInner(_, _, _, _, _, _)
MulInner(acc, a, b, i, j, carry) ==      \* row i of a, column j of b (1-based)
  IF j > Len(b) THEN Set(acc, i + Len(b), carry)
  ELSE LET nw == a[i] * b[j] + acc[i + j - 1] + carry
       IN MulInner(Set(acc, i + j - 1, nw % B), a, b, i, j + 1, nw \div B)
RECURSIVE MulRows(_, _, _, _)
MulRows(acc, a, b, i) == IF i > Len(a) THEN acc ELSE MulRows(MulInner(acc, a, b, i, 1, 0), a, b, i + 1)
MulSchool(a, b) == MulRows([k \in 1..(Len(a) + Len(b)) |-> 0], a, b, 1)

RECURSIVE SqInner(_, _, _, _, _)
SqInner(acc, a, i, j, carry) ==          \* products a[i]*a[j] for j < i
  IF j = i THEN Set(Set(acc, 2 * i - 1, carry), 2 * i, 0)      \* this->dwords[i] = carry (0-based dword i)
  ELSE LET nw == a[i] * a[j] + acc[i + j - 1] + carry
       IN SqInner(Set(acc, i + j - 1, nw % B), a, i, j + 1, nw \div B)
RECURSIVE SqRows(_, _, _)
SqRows(acc, a, i) == IF i > Len(a) THEN acc ELSE SqRows(SqInner(acc, a, i, 1, 0), a, i + 1)
\* doubling as coded: the top word only receives the bit shifted out of the word below it
DoubleTopEmpty(s) == LET n == Len(s) IN
  [i \in 1..n |-> IF i = n THEN s[n - 1] \div (B \div 2)
                  ELSE ((s[i] * 2) % B) + (IF i = 1 THEN 0 ELSE s[i - 1] \div (B \div 2))]
RECURSIVE SqDiag(_, _, _, _)
SqDiag(acc, a, i, carry) ==
  IF i > Len(a) THEN acc
  ELSE LET nw  == a[i] * a[i] + acc[2 * i - 1] + carry
           lo  == nw % B
           nw2 == acc[2 * i] + (nw \div B)
       IN SqDiag(Set(Set(acc, 2 * i - 1, lo), 2 * i, nw2 % B), a, i + 1, nw2 \div B)
SquareHalfGrid(a) ==
  LET n == Len(a)
      half == SqRows([k \in 1..(2 * n) |-> 0], a, 2)
  IN SqDiag(DoubleTopEmpty(half), a, 1, 0)

\* the x86-64 baseline assembly doubles the ten middle words in registers; as shipped it drops
\* the carry out of that doubling (parameter keep = FALSE); the repaired routine keeps it.
SquareAsmBase(a, keep) ==
  LET n == Len(a)
      half == SqRows([k \in 1..(2 * n) |-> 0], a, 2)
      mid  == [i \in 1..(2 * n - 2) |-> half[i + 1]]                  \* words 1..2n-2 (0-based)
      dbl  == Shl1(mid)
      full == [i \in 1..(2 * n) |-> IF i = 1 THEN 0 ELSE IF i = 2 * n THEN (IF keep THEN dbl.c ELSE 0) ELSE dbl.r[i - 1]]
  IN SqDiag(full, a, 1, 0)

(***************************************************************************)
(* FpBase::montgomery_reduce: word-serial, with the meta-carry.            *)
(* inv = -p^-1 mod B (one word).                                           *)
(***************************************************************************)
RECURSIVE RedInner(_, _, _, _, _, _)
RedInner(a, p, u, i, j, carry) ==        \* j = 2..N : a[i+j-1] += u*p[j] + carry
  IF j > Len(p) THEN [a |-> a, carry |-> carry]
  ELSE LET nw == u * p[j] + a[i + j - 1] + carry
       IN RedInner(Set(a, i + j - 1, nw % B), p, u, i, j + 1, nw \div B)
RECURSIVE RedOuter(_, _, _, _, _)
RedOuter(a, p, inv, i, meta) ==
  LET n == Len(p) IN
  IF i > n THEN [a |-> a, meta |-> meta]
  ELSE LET u   == (a[i] * inv) % B
           c0  == (u * p[1] + a[i]) \div B            \* j = 0: the low word is discarded, not stored
           st  == RedInner(a, p, u, i, 2, c0)
           ns  == st.a[i + n] + st.carry + meta
       IN RedOuter(Set(st.a, i + n, ns % B), p, inv, i + 1, ns \div B)
\* as coded: the final meta-carry is dropped, then a single conditional subtraction
MontReduce(a, p, inv) ==
  LET n == Len(p)
      st == RedOuter(a, p, inv, 1, 0)
  IN Reduce([k \in 1..n |-> st.a[n + k]], p)
MontReduceMeta(a, p, inv) == RedOuter(a, p, inv, 1, 0).meta

\* assembly shape of the final step (multiply.s): compare top word, then full compare-by-subtraction
MontReduceEarly(a, p, inv) ==
  LET n == Len(p)
      st == RedOuter(a, p, inv, 1, 0)
  IN EarlyFinish([k \in 1..n |-> st.a[n + k]], 0, p)

MontMul(a, b, p, inv) == MontReduce(MulSchool(a, b), p, inv)
MontSqr(a, p, inv)    == MontReduce(SquareHalfGrid(a), p, inv)

\* divide_word<d>: quotient words and remainder
RECURSIVE DivWordFrom(_, _, _, _, _)
DivWordFrom(a, d, i, rem, acc) ==
  IF i = 0 THEN [q |-> acc, rem |-> rem]
  ELSE LET dividend == rem * B + a[i]
       IN DivWordFrom(a, d, i - 1, dividend % d, Set(acc, i, dividend \div d))
DivWord(a, d) == DivWordFrom(a, d, Len(a), 0, [k \in 1..Len(a) |-> 0])

\* binary extended Euclid inversion (fp_utils.hpp: fp_inverse) on plain integers; b starts at R^2 mod p
RECURSIVE Halve(_, _, _)
Halve(x, y, p) == IF x % 2 = 1 THEN <<x, y>>
                  ELSE Halve(x \div 2, (IF y % 2 = 1 THEN y + p ELSE y) \div 2, p)
RECURSIVE BeeaLoop(_, _, _, _, _)
BeeaLoop(u, v, b, c, p) ==
  IF u = 1 THEN b ELSE IF v = 1 THEN c
  ELSE LET hu == Halve(u, b, p)
           hv == Halve(v, c, p)
       IN IF hv[1] < hu[1]
          THEN BeeaLoop(hu[1] - hv[1], hv[1], (hu[2] + p - hv[2]) % p, hv[2], p)
          ELSE BeeaLoop(hu[1], hv[1] - hu[1], hu[2], (hv[2] + p - hu[2]) % p, p)
FpInverseBeea(a, r2, p) == IF a = 0 THEN 0 ELSE BeeaLoop(a, p, r2, 0, p)
=============================================================================
