--------------------------------- MODULE LqIbe ---------------------------------
(* LQ-IBE (C16).  pi = discrete logarithm of the public generator P in G2, s = master scalar,
   sP = [s pi]G2.  Identity point Q = cofactor-cleared try-and-increment point of the 48-byte
   identity hash; secret key [s]Q; encryption with randomness rho publishes [rho]P and feeds the
   caller's hash function   Enc_c(Q) || Enc_c([rho]P) || BE(e(Q, [rho s]P)) ;  decryption feeds it
   Enc_c(Q) || Enc_c(rp) || BE(e([s]Q, rp)), which is the same byte string.                       *)
EXTENDS Encoding, Pairing

RECURSIVE FirstX1(_, _)
FirstX1(x, fuel) == IF QIsSquare(E1!Rhs(x)) \/ fuel = 0 THEN x ELSE FirstX1(QAdd(x, One), fuel - 1)
\* the identity point up to sign (the sign convention of hash-to-curve is not part of the property)
TaiX(h) == FirstX1(ModN(ModPow2(FromBE(h), 381), QMod), 300)    \* x of the try-and-increment point
IdPoints(h) == LET x == TaiX(h)
                   y == QSqrt(E1!Rhs(x))
                   c == E1!ScalarMul(H1, <<x, y>>)
               IN { c, E1!PNeg(c) }
BE12(x) == LET b1(v) == ToBE(v, 48)
               b2(v) == b1(v[2]) \o b1(v[1])
               b6(v) == b2(v[3]) \o b2(v[2]) \o b2(v[1])
           IN b6(x[2]) \o b6(x[1])
S(f) == [i \in 1..Len(f) |-> f[i]]
\* bytes hashed for identity point Qid, published point Rp (both affine) and shared GT value g
HashInput(Qid, Rp, g) == S(Encode(1, Qid, TRUE)) \o S(Encode(2, Rp, TRUE)) \o BE12(g)
=============================================================================
