CONSTANTS Bits = 10
 Win = 4
 KeepCarry = TRUE
INIT Init
NEXT Next
INVARIANTS FitsBuffer DigitsOk Represents LoopInv
CHECK_DEADLOCK FALSE
