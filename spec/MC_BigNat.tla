----------------------------- MODULE MC_BigNat -----------------------------
(* Self-check of the big-natural layer.
   (1) definitions vs TLC's native Nat arithmetic, exhaustive below Bound;
   (2) overridden operators vs their definitions on boundary and pseudo-random operands of
       up to 96 bytes.  Run with the override present (BigNat.class next to BigNat.tla). *)
EXTENDS BigNat, TLC, Naturals, Sequences, IOUtils
Bound == IF "BOUND" \in DOMAIN IOEnv THEN atoi(IOEnv.BOUND) ELSE 16
VARIABLES x, y, wa, wb, ok
vars == <<x, y, wa, wb, ok>>

Small == 0..(Bound - 1)
DefOk ==
  LET a == FromNatDef(x)  b == FromNatDef(y) IN
  /\ IsBigNat(a) /\ ToNatDef(a) = x
  /\ ToNatDef(AddDef(a, b)) = x + y
  /\ ToNatDef(MulDef(a, b)) = x * y
  /\ CmpDef(a, b) = (IF x < y THEN 0 - 1 ELSE IF x > y THEN 1 ELSE 0)
  /\ (x >= y => ToNatDef(SubDef(a, b)) = x - y)
  /\ (y > 0 => DivModDef(a, b) = <<FromNatDef(x \div y), FromNatDef(x % y)>>)
  /\ BitLenDef(a) = (CHOOSE k \in 0..13 : x < 2 ^ k /\ (k = 0 \/ x >= 2 ^ (k - 1)))
  /\ \A i \in 0..12 : BitDef(a, i) = (x \div (2 ^ i)) % 2
OvrOk ==
  LET a == FromNatDef(x)  b == FromNatDef(y) IN
  /\ FromNat(x) = a /\ ToNat(a) = x
  /\ Add(a, b) = AddDef(a, b) /\ Mul(a, b) = MulDef(a, b) /\ Cmp(a, b) = CmpDef(a, b)
  /\ (x >= y => Sub(a, b) = SubDef(a, b))
  /\ (y > 0 => Div(a, b) = DivDef(a, b) /\ ModN(a, b) = ModNDef(a, b))
  /\ BitLen(a) = BitLenDef(a)

\* pseudo-random wide operands: a linear congruential byte stream
RECURSIVE Lcg(_, _)
Lcg(s, n) == IF n = 0 THEN <<>> ELSE <<(s \div 3) % 256>> \o Lcg((((s * 75) + 74) % 65537) + 1, n - 1)
Wide(seed, n) == NormDef(Lcg(seed, n))
Edge(n) == { NormDef([i \in 1..n |-> 255]), NormDef([i \in 1..n |-> IF i = n THEN 1 ELSE 0]),
             NormDef([i \in 1..n |-> IF i = 1 THEN 1 ELSE 0]), <<>> }
Ops == IF Bound <= 16 THEN Edge(8) \cup { Wide(1, 7), Wide(77, 12) }
       ELSE UNION { Edge(n) : n \in {1, 8, 16} } \cup { Wide(s, n) : s \in {1, 77}, n \in {7, 16, 24} }
P61 == FromNatDef(2305843) \* placeholder modulus (odd)
WideOk1(a, b) ==
  /\ Add(a, b) = AddDef(a, b)
  /\ Mul(a, b) = MulDef(a, b)
  /\ Cmp(a, b) = CmpDef(a, b)
  /\ (CmpDef(a, b) >= 0 => Sub(a, b) = SubDef(a, b))
  /\ (b # <<>> => Div(a, b) = DivDef(a, b) /\ ModN(a, b) = ModNDef(a, b)
                  /\ AddMod(a, a, b) = ModNDef(AddDef(a, a), b)
                  /\ MulMod(a, a, b) = ModNDef(MulDef(a, a), b)
                  /\ NegMod(a, b) = ModNDef(SubDef(b, ModNDef(a, b)), b)
                  /\ SubMod(b, a, b) = ModNDef(SubDef(AddDef(b, b), ModNDef(a, b)), b))
  /\ BitLen(a) = BitLenDef(a)
  /\ \A i \in {0, 1, 7, 8, 63, 64, 127, 191} : Bit(a, i) = BitDef(a, i)
  /\ \A k \in {0, 1, 8, 13, 64} : ShiftR(a, k) = DivDef(a, Pow2(k)) /\ ShiftL(a, k) = MulDef(a, Pow2(k))
                                  /\ ModPow2(a, k) = ModNDef(a, Pow2(k)) /\ IsBigNat(Pow2(k))
  /\ Rev(Rev(a)) = a /\ Rev(a) = RevDef(a)
  /\ Pad(a, 100) = PadDef(a, 100) /\ Norm(Pad(a, 100)) = a
ExpOk == \A a \in {Wide(5, 6), Wide(9, 4), <<>>, <<1>>}, e \in {<<>>, <<1>>, <<2>>, Wide(3, 3), <<255, 255>>},
            m \in {<<7>>, <<251>>, <<1, 1>>, Wide(11, 5)} :
  /\ ModExp(a, e, m) = ModExpDef(a, e, m)
InvOk == \A a \in {Wide(5, 6), Wide(9, 40), <<1>>, <<2>>, <<>>}, m \in {<<7>>, <<251>>, <<1, 1>>} :
  LET i == ModInv(a, m) IN
  IF ModNDef(a, m) = <<>> THEN i = <<>> ELSE IsModInv(a, m, i) /\ i = ModExpDef(a, SubDef(m, Two), m)
ASSUME ExpOk
ASSUME InvOk
Init == /\ ok = "todo"
        /\ \/ x \in Small /\ y \in Small /\ wa = <<>> /\ wb = <<>>
           \/ x = 0 /\ y = 0 /\ wa \in Ops /\ wb \in Ops
\* the verdict is computed in an action so that TLC's workers evaluate it in parallel
Next == /\ ok = "todo"
        /\ ok' = IF DefOk /\ OvrOk /\ WideOk1(wa, wb) THEN "ok" ELSE "bad"
        /\ UNCHANGED <<x, y, wa, wb>>
Inv == ok # "bad"
=============================================================================
