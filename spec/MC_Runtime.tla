------------------------------ MODULE MC_Runtime ------------------------------
(* Bounded instances of Runtime.tla: 3 threads x 2 calls with 1-3 segments each, every interleaving. *)
EXTENDS Naturals, Sequences
CONSTANTS V, CpuKind
MCThreads == {1, 2, 3}
MCCalls == [t \in MCThreads |-> IF t = 1 THEN <<"lq.encrypt", "pairing">> ELSE IF t = 2 THEN <<"lq.decrypt", "lq.encrypt">> ELSE <<"wk.encrypt", "lq.decrypt">>]
SegOf(c) == CASE c = "lq.encrypt" -> 3 [] c = "lq.decrypt" -> 2 [] c = "wk.encrypt" -> 3 [] OTHER -> 1
MCSegs == [t \in MCThreads |-> [i \in 1..Len(MCCalls[t]) |-> SegOf(MCCalls[t][i])]]
VARIABLES loaded, dispatch, lib, pc, acc, result
INSTANCE Runtime WITH Threads <- MCThreads, Calls <- MCCalls, Segs <- MCSegs, Variant <- V, Cpu <- CpuKind
=============================================================================
