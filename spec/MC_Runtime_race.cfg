SPECIFICATION Spec
CONSTANTS V = "static-buffer"
          CpuKind = "bmi2"
INVARIANT ResultIsFunctionOfArgs
CHECK_DEADLOCK FALSE
