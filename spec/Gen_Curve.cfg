
