------------------------------- MODULE Sampling -------------------------------
(* The rejection samplers of the library as state machines over a byte stream supplied by the
   caller's random source (Fr::random / Fq::random: mask the unused top bits, retry while the
   candidate is >= the modulus;  PowersOfX::random: four base-|x| digits, each retried while
   >= |x|, the whole tuple retried while its recombination is >= r).  Toy-sized constants; one
   action per draw.  MC_Sampling explores every stream up to MaxLen over Alphabet.           *)
EXTENDS Naturals, Sequences, FiniteSets
CONSTANTS M,          \* modulus of the masked sampler
          MaskBits,   \* candidates are raw symbols modulo 2^MaskBits
          RawBits,    \* raw symbols are 0 .. 2^RawBits - 1
          X, R,       \* toy |x| and r  (R <= X^4)
          Alphabet, MaxLen
VARIABLES mode, stream, pos, pc, digits, out

vars == <<mode, stream, pos, pc, digits, out>>
Streams == UNION { [1..n -> Alphabet] : n \in 0..MaxLen }
Init == /\ mode \in {"mod", "powx"} /\ stream \in Streams /\ pos = 1 /\ pc = "draw" /\ digits = <<>> /\ out = 0

Starve == pc = "draw" /\ pos > Len(stream) /\ pc' = "starved" /\ UNCHANGED <<mode, stream, pos, digits, out>>
DrawMod == /\ mode = "mod" /\ pc = "draw" /\ pos <= Len(stream)
           /\ LET c == stream[pos] % (2 ^ MaskBits) IN
                IF c < M THEN out' = c /\ pc' = "done" ELSE out' = out /\ pc' = "draw"
           /\ pos' = pos + 1 /\ UNCHANGED <<mode, stream, digits>>
Eval(d) == d[1] + d[2] * X + d[3] * X * X + d[4] * X * X * X
DrawDigit == /\ mode = "powx" /\ pc = "draw" /\ pos <= Len(stream) /\ Len(digits) < 4
             /\ LET c == stream[pos] IN digits' = IF c < X THEN Append(digits, c) ELSE digits
             /\ pos' = pos + 1 /\ UNCHANGED <<mode, stream, pc, out>>
Combine == /\ mode = "powx" /\ pc = "draw" /\ Len(digits) = 4
           /\ IF Eval(digits) < R THEN out' = Eval(digits) /\ pc' = "done" /\ digits' = digits
                                  ELSE out' = out /\ pc' = "draw" /\ digits' = <<>>
           /\ UNCHANGED <<mode, stream, pos>>
Next == Starve \/ DrawMod \/ DrawDigit \/ Combine

\* ---- properties -----------------------------------------------------------------------------------
InRange == pc = "done" => (IF mode = "mod" THEN out < M ELSE out < R /\ out = Eval(digits) /\ \A i \in 1..4 : digits[i] < X)
NeverOverrun == pos <= Len(stream) + 1
\* the sampler only gives up when the stream really contains no acceptable continuation
Total == (pc = "starved" /\ mode = "mod") => \A i \in 1..Len(stream) : stream[i] % (2 ^ MaskBits) >= M
\* uniformity: every output has the same number of accepted raw candidates / exactly one digit tuple
UniformMod  == \A v \in 0..(M - 1) : Cardinality({ s \in 0..(2 ^ RawBits - 1) : s % (2 ^ MaskBits) = v }) = 2 ^ (RawBits - MaskBits)
UniformPowX == \A y \in 0..(R - 1) : Cardinality({ d \in [1..4 -> 0..(X - 1)] : Eval(d) = y }) = 1
ASSUME R <= X * X * X * X /\ M <= 2 ^ MaskBits /\ MaskBits <= RawBits
ASSUME UniformMod /\ UniformPowX
=============================================================================
