CONSTANTS X = 3
 Variant = "shipped"
 ExactRecip = FALSE
INIT Init
NEXT Next
INVARIANTS Recombines NoOverflow ShortOnDomain B2Untruncated
CHECK_DEADLOCK FALSE
