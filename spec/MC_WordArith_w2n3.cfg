CONSTANTS W = 2
 N = 3
INIT Init
NEXT Next
INVARIANT Inv
CHECK_DEADLOCK FALSE
