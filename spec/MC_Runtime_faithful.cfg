SPECIFICATION Spec
CONSTANTS V = "faithful"
          CpuKind = "bmi2"
INVARIANT DispatchConsistent
INVARIANT LibStateConstant
INVARIANT ResultIsFunctionOfArgs
PROPERTY NoWriteAfterLoad
CHECK_DEADLOCK FALSE
