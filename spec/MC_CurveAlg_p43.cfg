CONSTANTS P = 43
          B = 7
INIT Init
NEXT Next
INVARIANT AddOk
INVARIANT MixedOk
INVARIANT DoubleOk
INVARIANT EqualOk
INVARIANT ConvertOk
CHECK_DEADLOCK FALSE
