CONSTANTS P = 31
          B = 3
INIT Init
NEXT Next
INVARIANT AddOk
INVARIANT MixedOk
INVARIANT DoubleOk
INVARIANT EqualOk
INVARIANT ConvertOk
CHECK_DEADLOCK FALSE
