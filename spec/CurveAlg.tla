------------------------------- MODULE CurveAlg -------------------------------
(* Tier A: the Jacobian point formulas in the shape include/bls12_381/curve.hpp gives them
   (operation by operation: Projective::multiply2, Projective::add, the mixed addition with an
   affine operand, equal, negate, from_affine, Affine::from_projective), including the identity
   shortcuts, the equal-operands detour to doubling and the z = 1 shortcut of the conversion.
   MC_CurveAlg checks them against the affine chord-and-tangent law of Curve.tla for EVERY pair of
   Jacobian representatives (every z, identities with arbitrary x, y) on toy curves; the trace
   specification evaluates them at the real parameters next to the definitional oracle, so a
   recorded output can also be compared with the exact triple the coded formula yields. *)
EXTENDS Naturals, Sequences
CONSTANTS FZero, FOne, FAdd(_, _), FSub(_, _), FMul(_, _), FNeg(_), FInv(_)

Sq(a) == FMul(a, a)
Dbl(a) == FAdd(a, a)
JZero(J) == J[3] = FZero

\* Projective::multiply2
JDouble(P) ==
  IF JZero(P) THEN P
  ELSE LET a == Sq(P[1])
           b == Sq(P[2])
           c == Sq(b)
           d == Dbl(FSub(FSub(Sq(FAdd(P[1], b)), a), c))
           e == FAdd(Dbl(a), a)
           f == Sq(e)
           z3 == Dbl(FMul(P[3], P[2]))
           x3 == FSub(FSub(f, d), d)
           y3 == FSub(FMul(FSub(d, x3), e), Dbl(Dbl(Dbl(c))))
       IN <<x3, y3, z3>>

\* Projective::add(a, b)
JAdd(A, B) ==
  IF JZero(B) THEN A
  ELSE IF JZero(A) THEN B
  ELSE LET z1z1 == Sq(A[3])
           z2z2 == Sq(B[3])
           u1 == FMul(A[1], z2z2)
           u2 == FMul(B[1], z1z1)
           s1 == FMul(FMul(A[2], B[3]), z2z2)
           s2 == FMul(FMul(B[2], A[3]), z1z1)
       IN IF u1 = u2 /\ s1 = s2 THEN JDouble(A)
          ELSE LET h == FSub(u2, u1)
                   i == Sq(Dbl(h))
                   j == FMul(h, i)
                   r == Dbl(FSub(s2, s1))
                   v == FMul(u1, i)
                   x3 == FSub(FSub(FSub(Sq(r), j), v), v)
                   y3 == FSub(FMul(FSub(v, x3), r), Dbl(FMul(s1, j)))
                   z3 == FMul(FSub(FSub(Sq(FAdd(A[3], B[3])), z1z1), z2z2), h)
               IN <<x3, y3, z3>>

\* Projective::add(a, affine b); an affine point is <<x, y, infinity flag>>
JAddMixed(A, Q) ==
  IF Q[3] # 0 THEN A
  ELSE IF JZero(A) THEN <<Q[1], Q[2], FOne>>
  ELSE LET z1z1 == Sq(A[3])
           u2 == FMul(Q[1], z1z1)
           s2 == FMul(FMul(Q[2], A[3]), z1z1)
       IN IF A[1] = u2 /\ A[2] = s2 THEN JDouble(A)
          ELSE LET h == FSub(u2, A[1])
                   hh == Sq(h)
                   i == Dbl(Dbl(hh))
                   j == FMul(h, i)
                   r == Dbl(FSub(s2, A[2]))
                   v == FMul(A[1], i)
                   x3 == FSub(FSub(FSub(Sq(r), j), v), v)
                   y3 == FSub(FMul(FSub(v, x3), r), Dbl(FMul(j, A[2])))
                   z3 == FSub(FSub(Sq(FAdd(A[3], h)), z1z1), hh)
               IN <<x3, y3, z3>>

JNeg(A) == <<A[1], FNeg(A[2]), A[3]>>
\* Projective::equal: cross-multiplied comparison
JEqual(A, B) ==
  IF JZero(A) THEN JZero(B)
  ELSE IF JZero(B) THEN FALSE
  ELSE LET z1 == Sq(A[3])  z2 == Sq(B[3]) IN
       FMul(A[1], z2) = FMul(B[1], z1) /\ FMul(FMul(z2, B[3]), A[2]) = FMul(FMul(z1, A[3]), B[2])
\* Projective::from_affine
JFromAffine(Q) == IF Q[3] # 0 THEN <<FZero, FOne, FZero>> ELSE <<Q[1], Q[2], FOne>>
\* Affine::from_projective: identity -> (0, 1, infinity); z = 1 -> coordinates copied; else divide by z^2, z^3
AFromJac(A) ==
  IF JZero(A) THEN <<FZero, FOne, 1>>
  ELSE IF A[3] = FOne THEN <<A[1], A[2], 0>>
  ELSE LET zi == FInv(A[3])  zi2 == Sq(zi) IN <<FMul(A[1], zi2), FMul(A[2], FMul(zi2, zi)), 0>>
=============================================================================
