---------------------------- MODULE ScalarRecode -----------------------------
(* Tier A: the signed-digit (width-w NAF) recoding of include/bls12_381/wnaf.hpp as a state
   machine with a *fixed-width* accumulator, so that the add-back overflow exists in the model.
   One action per loop iteration.  KeepCarry = TRUE is the repaired algorithm (the bit lost by
   the wrapping addition is restored as the top bit after the shift), FALSE the algorithm as
   originally shipped.                                                                        *)
EXTENDS Integers, Sequences
CONSTANTS Bits, Win, KeepCarry
VARIABLES k, c, digits, pc

M == 2 ^ Bits
Init == k \in 0..(M - 1) /\ c = k /\ digits = <<>> /\ pc = "loop"

Step == /\ pc = "loop" /\ c # 0
        /\ LET u0 == c % (2 ^ (Win + 1))
               u  == IF c % 2 = 0 THEN 0 ELSE IF u0 > 2 ^ Win THEN u0 - 2 ^ (Win + 1) ELSE u0
               full == c - u                       \* exact value of the accumulator after subtract / add-back
               wrapped == full % M                \* what a Bits-wide register holds
               carry == full >= M
           IN /\ digits' = Append(digits, u)
              /\ c' = (wrapped \div 2) + (IF KeepCarry /\ carry THEN M \div 2 ELSE 0)
        /\ UNCHANGED <<k, pc>>
Done == pc = "loop" /\ c = 0 /\ pc' = "done" /\ UNCHANGED <<k, c, digits>>
Next == Step \/ Done

RECURSIVE Eval(_, _)
Eval(d, i) == IF i > Len(d) THEN 0 ELSE d[i] * 2 ^ (i - 1) + Eval(d, i + 1)
Abs(x) == IF x < 0 THEN 0 - x ELSE x
\* invariants
FitsBuffer == Len(digits) <= Bits + 1
DigitsOk   == \A i \in 1..Len(digits) : digits[i] = 0 \/ (Abs(digits[i]) % 2 = 1 /\ Abs(digits[i]) < 2 ^ Win)
Represents == pc = "done" => Eval(digits, 1) = k
\* loop invariant: what has been emitted plus what is left is the scalar
LoopInv    == KeepCarry => Eval(digits, 1) + c * 2 ^ Len(digits) = k
=============================================================================
