------------------------------ MODULE Gen_Field ------------------------------
(* Generator (G->I) for the field layer: enumerates the case analysis of DESIGN.md section 5
   (boundary family BW, sum-targeted pairs, exponent and byte families, reduce-input family)
   at the real parameters and writes the cases as ndjson (env OUT).  The replayer executes them
   on every back end; Trace_Field validates the results.  TIER = "quick" | "thorough". *)
EXTENDS Fields381, Json, IOUtils, TLC, FiniteSets, SequencesExt

Tier == IF "TIER" \in DOMAIN IOEnv THEN IOEnv.TIER ELSE "quick"

\* ---- boundary family of raw values below p ---------------------------------------------------
Below(S, p) == { x \in S : Lt(x, p) }
PowBoundaries(nb, W) == { k * W : k \in 1..(((8 * nb) \div W) - 1) }
TopWordOf(p, nb, W) == ShiftL(ShiftR(p, 8 * nb - W), 8 * nb - W)     \* p with all but its top word cleared
BW(p, nb) ==
  LET pb == UNION { { Pow2(e), Sub(Pow2(e), One), Add(Pow2(e), One), Sub(p, Pow2(e)), Sub(p, Add(Pow2(e), One)), Add(Sub(p, Pow2(e)), One) }
                    : e \in { x \in PowBoundaries(nb, 64) \cup PowBoundaries(nb, 32) : Lt(Pow2(x), p) } }
      R2 == ModN(Pow2(16 * nb), p)
  IN Below({ Zero, One, Two, Sub(p, One), Sub(p, Two), ShiftR(Sub(p, One), 1), ShiftR(Add(p, One), 1),
             ModN(Pow2(8 * nb), p), R2,
             TopWordOf(p, nb, 64), Sub(TopWordOf(p, nb, 64), One), Add(TopWordOf(p, nb, 64), One),
             TopWordOf(p, nb, 32), Sub(TopWordOf(p, nb, 32), One) } \cup pb, p)

\* small core family for the quick tier
BWCore(p, nb) ==
  Below({ Zero, One, Sub(p, One), Sub(p, Two), ShiftR(Add(p, One), 1), ModN(Pow2(8 * nb), p),
          TopWordOf(p, nb, 64), Sub(TopWordOf(p, nb, 64), One), Pow2(64), Sub(Pow2(64), One), Sub(Pow2(8 * nb - 64), One),
          Sub(p, Pow2(64)), Sub(p, Pow2(8 * nb - 64)), Pow2(32), Sub(p, Pow2(32)) }, p)

Fam(p, nb) == IF Tier = "quick" THEN BWCore(p, nb) ELSE BW(p, nb)
\* operands of the one-operand routines (cheap: always the full boundary family), plus the values whose double hits the decision
\* boundaries of the final conditional subtraction (top word of 2a equal to the modulus' top word, 2a = p -+ 1, carry out of the top bit)
HalfTargets(p, nb) == Below({ ShiftR(s, 1) : s \in { Sub(p, One), Add(p, One), TopWordOf(p, nb, 64), Add(TopWordOf(p, nb, 64), Two), Sub(TopWordOf(p, nb, 64), Two),
                                                      Add(TopWordOf(p, nb, 64), Pow2(64)), TopWordOf(p, nb, 32), Sub(Pow2(8 * nb), Two), Pow2(8 * nb - 1),
                                                      Sub(Add(p, p), Two) } }, p)
UnFam(p, nb) == BW(p, nb) \cup HalfTargets(p, nb)

\* pairs whose sum (resp. difference) hits the decision boundaries of the final conditional subtraction
SumTargets(p, nb) == { Sub(p, One), p, Add(p, One), TopWordOf(p, nb, 64), Add(TopWordOf(p, nb, 64), Pow2(64)),
                       Sub(Pow2(8 * nb), One), Pow2(8 * nb), Add(Pow2(8 * nb), One), Sub(Add(p, p), Two) }
SumPairs(p, nb) == { <<a, Sub(s, a)>> : <<a, s>> \in { <<x, y>> \in Fam(p, nb) \X SumTargets(p, nb) : Le(x, y) /\ Lt(Sub(y, x), p) } }

LE(x, nb) == Pad(x, nb)

FieldCases(f, p, nb) ==
  LET fam   == Fam(p, nb)
      pairs == (fam \X fam) \cup SumPairs(p, nb)
      bin(o, al) == { [op |-> o, f |-> f, a |-> LE(x[1], nb), b |-> LE(x[2], nb), alias |-> al, src |-> "gen"] : x \in pairs }
      un(o, al)  == { [op |-> o, f |-> f, a |-> LE(x, nb), alias |-> al, src |-> "gen"] : x \in UnFam(p, nb) }
      exps  == { Zero, One, Two, Sub(p, Two), Sub(p, One), ShiftR(Sub(p, One), 1), Sub(Pow2(8 * nb), One), Pow2(8 * nb - 1) }
      ints  == fam \cup { p, Add(p, One), Sub(Pow2(8 * nb), One), Sub(Add(p, p), One), Add(p, p) }
      bytesfam == { Sub(p, One), p, Add(p, One), Sub(Pow2(8 * nb - 3), One), Pow2(8 * nb - 3), Sub(Pow2(8 * nb), One),
                    Pow2(8 * nb - 1), Add(Pow2(8 * nb - 1), Sub(p, One)), Add(Pow2(8 * nb - 2), p), Add(Pow2(8 * nb - 3), One), Zero, One }
  IN SetToSeq(bin("fp.add", 0)) \o SetToSeq(bin("fp.add", 1)) \o SetToSeq(bin("fp.sub", 0)) \o SetToSeq(bin("fp.sub", 1))
     \o SetToSeq(bin("fp.mul", 0)) \o SetToSeq(bin("fp.mul", 2)) \o SetToSeq(bin("fp.eq", 0)) \o SetToSeq(bin("fp.cmp", 0))
     \o SetToSeq(un("fp.dbl", 0)) \o SetToSeq(un("fp.dbl", 1)) \o SetToSeq(un("fp.neg", 0)) \o SetToSeq(un("fp.neg", 1))
     \o SetToSeq(un("fp.sqr", 0)) \o SetToSeq(un("fp.sqr", 1)) \o SetToSeq(un("fp.mul", 3))
     \o SetToSeq(un("fp.inv", 0)) \o SetToSeq(un("fp.inv", 1)) \o SetToSeq(un("fp.get", 0))
     \o SetToSeq(un("fp.copy", 0)) \o SetToSeq(un("fp.copy", 1)) \o SetToSeq(un("fp.inv_m", 0)) \o SetToSeq(un("fp.inv_m", 1))
     \o SetToSeq(un("fp.legendre", 0)) \o SetToSeq(un("fp.is_zero", 0)) \o SetToSeq(un("fp.is_one", 0)) \o SetToSeq(un("fp.writebe", 0))
     \o SetToSeq({ [op |-> "fp.sqrt", f |-> f, a |-> LE(MulMod(x, x, p), nb), alias |-> 0, src |-> "gen"] : x \in fam })
     \o SetToSeq({ [op |-> "fp.exp", f |-> f, a |-> LE(x, nb), e |-> LE(e, nb), alias |-> al, src |-> "gen"] :
                   x \in { y \in fam : y \in BWCore(p, nb) }, e \in exps, al \in {0, 1} })
     \o SetToSeq({ [op |-> "fp.set", f |-> f, n |-> LE(x, nb), src |-> "gen"] : x \in { y \in ints : Lt(y, Pow2(8 * nb)) } })
     \o SetToSeq({ [op |-> "fp.reduce", f |-> f, n |-> LE(x, nb), src |-> "gen"] : x \in { y \in ints : Lt(y, Add(p, p)) /\ Lt(y, Pow2(8 * nb)) } })
     \o SetToSeq({ [op |-> "fp.hashreduce", f |-> f, n |-> LE(x, nb), src |-> "gen"] : x \in { y \in bytesfam \cup fam : Lt(y, Pow2(8 * nb)) } })
     \o SetToSeq({ [op |-> "fp.readbe", f |-> f, bytes |-> ToBE(x, nb), src |-> "gen"] : x \in { y \in bytesfam \cup fam : Lt(y, Pow2(8 * nb)) } })

\* ---- raw 384-bit primitives (C03); operands need not be below a modulus -----------------------
RawFam == LET p == QMod IN
  { Zero, One, Sub(Pow2(384), One), Sub(Pow2(384), Two), Pow2(383), Sub(Pow2(383), One), Pow2(64), Sub(Pow2(64), One),
    Pow2(320), Sub(Pow2(320), One), Sub(Pow2(384), Pow2(64)), p, Sub(p, One), Add(p, One), ShiftR(p, 1), Add(ShiftR(p, 1), One),
    TopWordOf(p, 48, 64), Sub(Pow2(384), p), Sub(Pow2(192), One), Pow2(192), ModN(Pow2(768), p) }
DivFam == LET x == XAbs IN
  { x, Mul(x, x), Add(Mul(x, Pow2(64)), Pow2(63)), Add(Mul(Mul(FromNat(3), x), Pow2(62)), Sub(Pow2(62), One)), Add(Mul(Mul(FromNat(5), x), Pow2(128)), Pow2(127)),
    Add(Mul(x, Pow2(180)), Sub(Pow2(180), One)), Add(Mul(Mul(FromNat(65537), x), Pow2(100)), Pow2(99)), Mul(x, Pow2(320)), Sub(Mul(x, Pow2(64)), One),
    Add(Mul(x, Pow2(64)), Sub(x, One)), Add(Mul(Sub(x, One), Pow2(64)), Sub(Pow2(64), One)), Mul(x, Sub(Pow2(64), One)) }
Impls == {"member", "base", "bmi2"}
Unred == LET p == QMod IN { p, Add(p, One), Sub(Pow2(383), One), Pow2(383), Add(Pow2(383), One), Sub(Pow2(384), One), Sub(Pow2(384), p), Add(Pow2(383), ShiftR(p, 1)),
                          Add(ShiftR(p, 1), Pow2(383)), Sub(Add(p, p), One), Add(p, p), Sub(p, One), One, Zero }
\* ---- Montgomery-reduction inputs at a carry boundary -------------------------------------------------------------------------------
\* The reduction works row by row: row i adds u_i p 2^(64 i) (u_i chosen to clear word i) and hands a carry word into word i + 6, which
\* nothing has touched before.  For a target row the input's word i + 6 is SET so that word plus carry is exactly 2^64 (all ones after
\* the first of two carry contributions, wrapping on the second), or one off on either side: the place where an implementation that keeps the
\* carries of a row in separate flags / chains must merge them.  The rows are simulated on exact integers (the algorithm, not any back end).
W64 == Pow2(64)
SeedF == IF "SEED" \in DOMAIN IOEnv THEN atoi(IOEnv.SEED) ELSE 1
Rnd(k) == ModExp(FromNat(5), FromNat(1000003 * (SeedF % 2000) + 7919 * k), QMod)
WordAt(v, j) == ModPow2(ShiftR(v, 64 * j), 64)
SetWord(v, j, x) == Add(Sub(v, ShiftL(WordAt(v, j), 64 * j)), ShiftL(x, 64 * j))
RedcRowsBefore(t0, p, invw, i) == FoldLeft(LAMBDA t, j : Add(t, ShiftL(Mul(ModPow2(Mul(WordAt(t, j - 1), invw), 64), p), 64 * (j - 1))), t0, [j \in 1..i |-> j])
CarryBoundary(t0, p, invw, i, d) ==
  LET t == RedcRowsBefore(t0, p, invw, i)
      u == ModPow2(Mul(WordAt(t, i), invw), 64)
      s == Add(ModPow2(t, 64 * (i + 6)), ShiftL(Mul(u, p), 64 * i))
      c == ShiftR(s, 64 * (i + 6))                                         \* everything row i hands into word i + 6
      want == ModPow2(Sub(Add(Add(W64, W64), FromNat(d)), Add(c, One)), 64)  \* 2^64 - c + (d - 1), d in 0..2  (mod 2^64)
  IN SetWord(t0, i + 6, want)
CarryBoundaryFam(p, invw) ==
  { CarryBoundary(Add(ModPow2(Mul(Rnd(300 + k), Rnd(310 + k)), 384), ShiftL(ModPow2(Rnd(320 + k), 60 + 64 * 5), 384)), p, invw, i, d)
    : i \in 0..4, d \in 0..2, k \in 1..(IF Tier = "quick" THEN 2 ELSE 6) }
RawCases ==
  LET p   == QMod
      inv == Sub(Pow2(384), ModInv(ModN(p, Pow2(384)), Pow2(384)))   \* -p^-1 mod 2^384 (2^384 is not prime: see note)
      fam == Fam(p, 48)
      sums == SumPairs(p, 48)
      wide == { Zero, One, Sub(Mul(p, Pow2(384)), One), Mul(Sub(p, One), Sub(p, One)), Mul(Sub(p, One), Pow2(384)),
                Sub(Pow2(384), One), Pow2(384), Sub(Mul(p, Pow2(383)), One),
                \* words 6..11 all ones below p*2^384 is impossible (p's top word is small): use the largest value with ones in words 6..10
                Add(Mul(Sub(Pow2(320), One), Pow2(384)), Sub(Pow2(384), One)) }
              \cup { Mul(x[1], x[2]) : x \in (BWCore(p, 48) \X BWCore(p, 48)) }
              \cup { w \in CarryBoundaryFam(p, ModPow2(inv, 64)) : Lt(w, Mul(p, Pow2(384))) }
  IN SetToSeq({ [op |-> o, impl |-> im, a |-> LE(x[1], 48), b |-> LE(x[2], 48), alias |-> al, src |-> "gen"] :
                o \in {"raw.add", "raw.sub"}, im \in Impls, x \in RawFam \X RawFam, al \in {0, 1} })
     \o SetToSeq({ [op |-> "raw.shl1", impl |-> im, a |-> LE(x, 48), alias |-> al, src |-> "gen"] : im \in Impls, x \in RawFam \cup fam, al \in {0, 1} })
     \o SetToSeq({ [op |-> "raw.cmp", a |-> LE(x[1], 48), b |-> LE(x[2], 48), src |-> "gen"] : x \in RawFam \X RawFam })
     \o SetToSeq({ [op |-> o, impl |-> im, a |-> LE(x[1], 48), b |-> LE(x[2], 48), p |-> LE(p, 48), alias |-> al, src |-> "gen"] :
                o \in {"raw.fpadd", "raw.fpsub"}, im \in Impls, x \in (fam \X fam) \cup sums, al \in {0, 1} })
     \o SetToSeq({ [op |-> "raw.fpdbl", impl |-> im, a |-> LE(x, 48), p |-> LE(p, 48), alias |-> al, src |-> "gen"] : im \in Impls, x \in UnFam(p, 48), al \in {0, 1} })
     \* unreduced operands of the modular add / subtract / double routines (C03: bit-identical on ALL 384-bit operands)
     \o SetToSeq({ [op |-> o, impl |-> im, a |-> LE(x[1], 48), b |-> LE(x[2], 48), p |-> LE(p, 48), alias |-> al, src |-> "gen"] :
                o \in {"raw.fpadd", "raw.fpsub"}, im \in Impls, x \in Unred \X Unred, al \in {0, 1} })
     \o SetToSeq({ [op |-> "raw.fpdbl", impl |-> im, a |-> LE(x, 48), p |-> LE(p, 48), alias |-> al, src |-> "gen"] : im \in Impls, x \in RawFam \cup Unred, al \in {0, 1} })
     \o SetToSeq({ [op |-> "raw.mul", impl |-> im, a |-> LE(x[1], 48), b |-> LE(x[2], 48), src |-> "gen"] : im \in Impls, x \in RawFam \X RawFam })
     \o SetToSeq({ [op |-> "raw.mullo", impl |-> "member", a |-> LE(x[1], 48), b |-> LE(x[2], 48), src |-> "gen"] : x \in RawFam \X RawFam })
     \o SetToSeq({ [op |-> "raw.sqr", impl |-> im, a |-> LE(x, 48), src |-> "gen"] : im \in Impls, x \in RawFam \cup fam })
     \o SetToSeq({ [op |-> "raw.redc", impl |-> im, w |-> LE(x, 96), p |-> LE(p, 48), inv |-> LE(inv, 48), src |-> "gen"] : im \in Impls, x \in wide })
     \o SetToSeq({ [op |-> o, a |-> LE(x, 48), alias |-> al, src |-> "gen"] : o \in {"raw.copy", "raw.shr1", "raw.divdword", "raw.divword"}, x \in RawFam, al \in {0, 1} })
     \* dividends in which a leading part is an exact multiple of the divisor |x| (the bit-serial fallback's partial remainder then EQUALS the divisor)
     \o SetToSeq({ [op |-> "raw.divdword", a |-> LE(x, 48), alias |-> 0, src |-> "gen"] : x \in DivFam })
     \o SetToSeq({ [op |-> o, a |-> LE(x, 48), amt |-> k, alias |-> al, src |-> "gen"] :
                   o \in {"raw.shr", "raw.shl"}, x \in {Sub(Pow2(384), One), p, Sub(Pow2(383), One), Add(Pow2(320), Pow2(63))},
                   k \in {0, 1, 31, 32, 33, 63, 64, 65, 127, 128, 200, 256, 319, 320, 383}, al \in {0, 1} })
     \o SetToSeq({ [op |-> "raw.fpneg", a |-> LE(x, 48), p |-> LE(p, 48), alias |-> al, src |-> "gen"] : x \in fam, al \in {0, 1} })
     \o SetToSeq({ [op |-> "raw.fpmul", a |-> LE(x[1], 48), b |-> LE(x[2], 48), p |-> LE(p, 48), inv |-> LE(inv, 48), alias |-> al, src |-> "gen"] :
                   x \in BWCore(p, 48) \X BWCore(p, 48), al \in 0..3 })
     \o SetToSeq({ [op |-> "raw.fpsqr", a |-> LE(x, 48), p |-> LE(p, 48), inv |-> LE(inv, 48), alias |-> al, src |-> "gen"] : x \in fam, al \in {0, 1} })
     \* entry state of the carry flag (x86-64 assembly entry points only): the calling convention leaves the arithmetic flags undefined at a
     \* call, the portable and AArch64 routines have no such input - the result is a function of the operands alone
     \o SetToSeq({ [op |-> o, impl |-> "base", a |-> LE(x[1], 48), b |-> LE(x[2], 48), cf |-> c, alias |-> 0, src |-> "gen"] :
                   o \in {"raw.add", "raw.sub"}, x \in RawFam \X RawFam, c \in {0, 1} })
     \o SetToSeq({ [op |-> "raw.shl1", impl |-> "base", a |-> LE(x, 48), cf |-> c, alias |-> 0, src |-> "gen"] : x \in RawFam, c \in {0, 1} })
     \o SetToSeq({ [op |-> o, impl |-> "base", a |-> LE(x[1], 48), b |-> LE(x[2], 48), p |-> LE(p, 48), cf |-> c, alias |-> 0, src |-> "gen"] :
                   o \in {"raw.fpadd", "raw.fpsub"}, x \in BWCore(p, 48) \X BWCore(p, 48), c \in {0, 1} })
     \o SetToSeq({ [op |-> "raw.fpdbl", impl |-> "base", a |-> LE(x, 48), p |-> LE(p, 48), cf |-> c, alias |-> 0, src |-> "gen"] : x \in BWCore(p, 48) \cup RawFam, c \in {0, 1} })
     \o SetToSeq({ [op |-> "raw.mul", impl |-> im, a |-> LE(x[1], 48), b |-> LE(x[2], 48), cf |-> c, src |-> "gen"] : im \in {"base", "bmi2"}, x \in BWCore(p, 48) \X BWCore(p, 48), c \in {0, 1} })
     \o SetToSeq({ [op |-> "raw.sqr", impl |-> im, a |-> LE(x, 48), cf |-> c, src |-> "gen"] : im \in {"base", "bmi2"}, x \in RawFam, c \in {0, 1} })
     \o SetToSeq({ [op |-> "raw.redc", impl |-> im, w |-> LE(Mul(x[1], x[2]), 96), p |-> LE(p, 48), inv |-> LE(inv, 48), cf |-> c, src |-> "gen"] :
                   im \in {"base", "bmi2"}, x \in BWCore(p, 48) \X BWCore(p, 48), c \in {0, 1} })
     \o << [op |-> "raw.dispatch", src |-> "gen"] >>

\* ---- Tonelli-Shanks worst cases --------------------------------------------------------------------
\* Fr::square_root walks down the 2-Sylow subgroup with the root of unity z the CODE uses; the number of passes of its loop is governed by
\* the discrete logarithm of a^t to the base z (r - 1 = 2^s t), the longest walk being a^t = z^2.  The inputs that reach it are therefore
\* stated relative to the code's own z, read from the source text (env CONSTS: the rows of tools/extract_consts.py; without it: none).
\* What is checked on them is the model's  sqrt(a)^2 = a  (Trace_Field), nothing about z.
ConstRows == IF "CONSTS" \in DOMAIN IOEnv THEN ndJsonDeserialize(IOEnv.CONSTS) ELSE <<>>
TsCases ==
  LET rr  == ModN(Pow2(256), RMod)
      St(v) == MulMod(v, rr, RMod)                                  \* value -> Montgomery storage
      zs  == { FromLE(ConstRows[i].vals[1]) : i \in { j \in 1..Len(ConstRows) : ConstRows[j].name = "fr_root_of_unity" /\ ConstRows[j].n = 1 } }
      odd(u) == ModExp(FromNat(u), Pow2(32), RMod)                  \* an element of odd order
      fam(z) == LET zi == ModInv(MulMod(z, ModInv(rr, RMod), RMod), RMod) IN          \* z^-1 as a value
                { ModExp(zi, FromNat(2 * k), RMod) : k \in 1..6 }
                \cup { MulMod(ModExp(zi, FromNat(2 * k), RMod), odd(u), RMod) : k \in 1..3, u \in {3, 5, 7} }
                \cup { ModExp(zi, Sub(Pow2(32), FromNat(2 * k)), RMod) : k \in 1..3 } \cup { ModExp(zi, Add(Pow2(31), Two), RMod), ModExp(zi, Pow2(31), RMod) }
  IN SetToSeq({ [op |-> "fp.sqrt", f |-> "fr", a |-> LE(St(v), 32), alias |-> 0, cls |-> "two-sylow-walk", src |-> "gen"] : v \in UNION { fam(z) : z \in { y \in zs : Lt(y, RMod) /\ ~IsZero(y) } } })

Cases == FieldCases("fq", QMod, 48) \o FieldCases("fr", RMod, 32) \o TsCases \o RawCases
ASSUME PrintT(<<"cases", Len(Cases)>>)
ASSUME ndJsonSerialize(IOEnv.OUT, Cases)
=============================================================================
