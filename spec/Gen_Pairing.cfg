
