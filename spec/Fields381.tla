----------------------------- MODULE Fields381 ------------------------------
(* The two prime fields of BLS12-381 as instances of PrimeField. *)
EXTENDS Params381
Fq == INSTANCE PrimeField WITH P <- QMod, NBytes <- 48
Fr == INSTANCE PrimeField WITH P <- RMod, NBytes <- 32
=============================================================================
