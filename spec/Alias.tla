-------------------------------- MODULE Alias --------------------------------
(* C18: which (operation, aliasing pattern) pairs the interfaces permit, and which recorded
   driver events exercise them.

   The operation catalogue is not written down here: tools/extract_ops.py derives it from the
   headers of the tree under test (env OPS, ndjson: one record per declared function with, per
   operand, its normalised type, constness, indirection and __restrict), so that an operation
   added to or changed in a header changes the obligations computed below.

   Semantics of the interface, as the property states it:
     - the object written is `this` for a non-static, non-const member function, otherwise the
       first non-const reference/pointer operand;
     - an input may be the same object as the output iff it is a const reference/pointer of a
       type that can be the output's type and it is NOT marked __restrict;
     - an aliasing pattern is a non-empty set S of such inputs, all of them being the output
       object (out = a, out = b, out = a = b).  Its code is the bit mask of S over the candidate
       inputs in declaration order (first candidate = 1, second = 2, both = 3): the convention
       of the "alias" field of every driver.

   Binding: Bind maps a catalogue entry to the keys of the driver events that execute it
   (key = what bin/check computes from an event: family op + discriminators).  An in-scope entry
   with a permitted pattern and no binding is reported as uncovered; every bound
   (key, code) pair must be exercised by the run and judged by the family's trace specification
   exactly as its alias-free twin is. *)
EXTENDS Json, IOUtils, TLC, Sequences, Naturals, FiniteSets

Ops == ndJsonDeserialize(IOEnv.OPS)

\* ---- layers named by the property ---------------------------------------------------------------
ScopeFiles == { "include/core/bigint.hpp", "include/core/fp.hpp", "include/core/fp_utils.hpp",
                "include/bls12_381/fq.hpp", "include/bls12_381/fr.hpp", "include/bls12_381/fq2.hpp",
                "include/bls12_381/fq6.hpp", "include/bls12_381/fq12.hpp", "include/bls12_381/curve.hpp",
                "include/bls12_381/wnaf.hpp", "include/bls12_381/decomposition.hpp", "include/bls12_381/pairing.hpp",
                "include/bls12_381/bls12_381.h", "include/wkdibe/wkdibe.h", "include/lqibe/lqibe.h" }
InScope(o) == o.file \in ScopeFiles

\* ---- interface semantics ---------------------------------------------------------------------------
IsObj(p) == p.ind = 1 /\ p.type \notin {"callback", "void", "uint8_t", "char"}
Writable(o) == { i \in 1..Len(o.params) : IsObj(o.params[i]) /\ o.params[i].const = 0 }
MinOf(S) == CHOOSE x \in S : \A y \in S : x <= y
HasThisOut(o) == o.lang = "cpp" /\ o.static = 0 /\ o.constfn = 0 /\ o.struct # ""
OutType(o) == IF HasThisOut(o) THEN o.struct
              ELSE IF Writable(o) = {} THEN "" ELSE o.params[MinOf(Writable(o))].type
OutIndex(o) == IF HasThisOut(o) \/ Writable(o) = {} THEN 0 ELSE MinOf(Writable(o))

\* template parameter names that may be instantiated with the output's type
Generic == { <<"ArgType", "Projective">>, <<"ArgType", "G1">>, <<"ArgType", "G2">>, <<"Base", "Projective">> }
\* derived / mirrored spellings of the same object type
SameObj == { <<"FpBase", "Fp">>, <<"Fp", "FpBase">>, <<"Projective", "G1">>, <<"Projective", "G2">>, <<"G1", "Projective">>, <<"G2", "Projective">>,
             <<"Fp", "Fq">>, <<"Fp", "Fr">> }
Compatible(t, out) == t = out \/ <<t, out>> \in Generic \/ <<t, out>> \in SameObj

Cands(o) == IF OutType(o) = "" THEN {}
            ELSE { i \in 1..Len(o.params) : /\ i # OutIndex(o)
                                            /\ IsObj(o.params[i]) /\ o.params[i].const = 1 /\ o.params[i].restrict = 0
                                            /\ Compatible(o.params[i].type, OutType(o)) }
Rank(o, i) == Cardinality({ j \in Cands(o) : j < i })
RECURSIVE CodeOf(_, _)
CodeOf(o, S) == IF S = {} THEN 0 ELSE LET i == MinOf(S) IN 2 ^ Rank(o, i) + CodeOf(o, S \ {i})
Patterns(o) == { CodeOf(o, S) : S \in (SUBSET Cands(o)) \ {{}} }

\* ---- binding to driver events ------------------------------------------------------------------------
\* <<lang, struct, name, overload number (0 = all), keys>>
Lv == {"2", "6", "12"}
Ext(op) == { "ext." \o op \o ":" \o l : l \in Lv }
G12(op) == { op \o ":cpp:1", op \o ":cpp:2" }
Bind == {
  <<"cpp", "BigInt", "copy", 0, {"raw.copy"}>>, <<"cpp", "BigInt", "add", 0, {"raw.add"}>>, <<"cpp", "BigInt", "subtract", 0, {"raw.sub"}>>,
  <<"cpp", "BigInt", "shift_right_in_word", 0, {"raw.shr1"}>>, <<"cpp", "BigInt", "shift_left_in_word", 0, {"raw.shl1"}>>,
  <<"cpp", "BigInt", "shift_right", 0, {"raw.shr"}>>, <<"cpp", "BigInt", "shift_left", 0, {"raw.shl"}>>,
  <<"cpp", "BigInt", "divide_std_dword", 0, {"raw.divdword"}>>,
  <<"cpp", "FpBase", "add", 0, {"raw.fpadd"}>>, <<"cpp", "FpBase", "subtract", 0, {"raw.fpsub"}>>, <<"cpp", "FpBase", "multiply2", 0, {"raw.fpdbl"}>>,
  <<"cpp", "FpBase", "negate", 0, {"raw.fpneg"}>>, <<"cpp", "FpBase", "multiply", 0, {"raw.fpmul"}>>, <<"cpp", "FpBase", "square", 0, {"raw.fpsqr"}>>,
  <<"cpp", "Fp", "copy", 1, {"fp.copy:fq", "fp.copy:fr"}>>, <<"cpp", "Fp", "add", 0, {"fp.add:fq", "fp.add:fr"}>>, <<"cpp", "Fp", "subtract", 0, {"fp.sub:fq", "fp.sub:fr"}>>,
  <<"cpp", "Fp", "multiply2", 0, {"fp.dbl:fq", "fp.dbl:fr"}>>, <<"cpp", "Fp", "negate", 0, {"fp.neg:fq", "fp.neg:fr"}>>,
  <<"cpp", "Fp", "multiply", 0, {"fp.mul:fq", "fp.mul:fr"}>>, <<"cpp", "Fp", "square", 0, {"fp.sqr:fq", "fp.sqr:fr"}>>,
  <<"cpp", "", "fp_inverse", 0, {"fp.inv:fq", "fp.inv:fr"}>>,
  <<"cpp", "", "exponentiate", 0, {"fp.exp:fq", "fp.exp:fr"} \cup Ext("exp")>>,
  <<"cpp", "Fq", "inverse", 0, {"fp.inv_m:fq"}>>, <<"cpp", "Fq", "square_root", 0, {"fp.sqrt:fq"}>> }
  \cup { <<"cpp", s, "copy", 0, {"ext.copy:" \o l}>> : <<s, l>> \in {<<"Fq2", "2">>, <<"Fq6", "6">>, <<"Fq12", "12">>} }
  \cup UNION { { <<"cpp", s, nm[1], 0, {"ext." \o nm[2] \o ":" \o l}>> :
                 nm \in { <<"add", "add">>, <<"subtract", "sub">>, <<"multiply2", "dbl">>, <<"negate", "neg">>, <<"inverse", "inv">>,
                          <<"frobenius_map", "frob">>, <<"multiply", "mul">>, <<"square", "sqr">> } } :
               <<s, l>> \in {<<"Fq2", "2">>, <<"Fq6", "6">>, <<"Fq12", "12">>} }
  \cup { <<"cpp", "Fq2", "multiply_by_nonresidue", 0, {"ext.nonres:2"}>>, <<"cpp", "Fq6", "multiply_by_nonresidue", 0, {"ext.nonres:6"}>>,
         <<"cpp", "Fq6", "multiply_by_c1", 0, {"ext.mul_c1:6"}>>, <<"cpp", "Fq6", "multiply_by_c01", 0, {"ext.mul_c01:6"}>>,
         <<"cpp", "Fq12", "multiply_by_c014", 0, {"ext.mul_c014:12"}>>, <<"cpp", "Fq12", "conjugate", 0, {"ext.conj:12"}>>,
         <<"cpp", "Fq12", "square_cyclotomic", 0, {"ext.sqr_cyclo:12"}>>, <<"cpp", "Fq12", "map_to_cyclotomic", 0, {"ext.map_cyclo:12"}>>,
         <<"cpp", "Fq12", "exponentiate_gt_nodiv", 0, {"gt.exp:nodiv"}>>, <<"cpp", "Fq12", "exponentiate_gt_div", 0, {"gt.exp:div"}>>,
         <<"cpp", "Fq12", "exponentiate_gt", 1, {"gt.exp:div"}>>, <<"cpp", "Fq12", "exponentiate_gt", 2, {"gt.exp:powx"}>>,
         <<"cpp", "Fq12", "random_gt", 0, {"gt.random:cpp"}>>,
         <<"cpp", "", "final_exponentiation", 0, {"gt.finalexp"}>>,
         <<"cpp", "Affine", "negate", 0, {"pt.aneg:cpp:1", "pt.aneg:cpp:2"}>>,
         <<"cpp", "Projective", "copy", 0, G12("pt.copy")>>, <<"cpp", "Projective", "set", 1, G12("pt.set")>>,
         <<"cpp", "Affine", "copy", 0, G12("pt.acopy")>>, <<"cpp", "Affine", "set", 2, G12("pt.aset")>>,
         <<"cpp", "Projective", "multiply_wnaf", 2, {"mul.gen:wnaf_s:1", "mul.gen:wnaf_s:2"}>>, <<"cpp", "", "wnaf_multiply", 2, {"mul.gen:wnaf_s:1", "mul.gen:wnaf_s:2"}>>,
         <<"cpp", "G1", "multiply_endomorphism", 1, {"mul.endo2:cpp:1"}>>, <<"cpp", "G2", "multiply_frobenius", 1, {"mul.powx:cpp:2"}>>,
         <<"cpp", "BigInt", "divide_word", 0, {"raw.divword"}>>, <<"cpp", "Projective", "multiply2", 0, G12("pt.dbl")>>,
         <<"cpp", "Projective", "add", 1, G12("pt.add")>>, <<"cpp", "Projective", "add", 2, G12("pt.add_mixed")>>,
         <<"cpp", "Projective", "negate", 0, G12("pt.neg")>>,
         <<"cpp", "Projective", "multiply_doubleadd", 0, {"mul.gen:doubleadd:1", "mul.gen:doubleadd:2"}>>,
         <<"cpp", "Projective", "multiply_wnaf", 1, {"mul.gen:wnaf:1", "mul.gen:wnaf:2"}>>,
         <<"cpp", "Projective", "multiply", 0, {"mul.gen:multiply:1", "mul.gen:multiply:2"}>>,
         <<"cpp", "", "wnaf_multiply", 1, {"mul.gen:wnaf:1", "mul.gen:wnaf:2"}>>,
         <<"cpp", "G1", "endomorphism", 0, {"pt.endo:cpp:1"}>>, <<"cpp", "G2", "frobenius_map", 0, {"pt.frob:cpp:2"}>>,
         <<"cpp", "G1", "multiply_endomorphism", 2, {"mul.fast:cpp:1"}>>, <<"cpp", "G1", "multiply", 1, {"mul.fast:cpp:1"}>>,
         <<"cpp", "G1", "multiply", 3, {"mul.gen:multiply:1"}>>,
         <<"cpp", "G2", "multiply_frobenius", 2, {"mul.fast:cpp:2"}>>, <<"cpp", "G2", "multiply", 1, {"mul.fast:cpp:2"}>>,
         <<"cpp", "G2", "multiply", 3, {"mul.gen:multiply:2"}>> }
  \cup UNION { { <<"c", "", "embedded_pairing_bls12_381_g" \o g \o "_add", 0, {"pt.add:c:" \o g}>>,
                 <<"c", "", "embedded_pairing_bls12_381_g" \o g \o "_add_mixed", 0, {"pt.add_mixed:c:" \o g}>>,
                 <<"c", "", "embedded_pairing_bls12_381_g" \o g \o "_negate", 0, {"pt.neg:c:" \o g}>>,
                 <<"c", "", "embedded_pairing_bls12_381_g" \o g \o "_double", 0, {"pt.dbl:c:" \o g}>>,
                 <<"c", "", "embedded_pairing_bls12_381_g" \o g \o "_multiply", 0, {"mul.fast:c:" \o g}>>,
                 <<"c", "", "embedded_pairing_bls12_381_g" \o g \o "affine_negate", 0, {"pt.aneg:c:" \o g}>> } : g \in {"1", "2"} }
  \cup { <<"c", "", "embedded_pairing_bls12_381_gt_add", 0, {"gt.op:add"}>>, <<"c", "", "embedded_pairing_bls12_381_gt_negate", 0, {"gt.op:negate"}>>,
         <<"c", "", "embedded_pairing_bls12_381_gt_double", 0, {"gt.op:double"}>>, <<"c", "", "embedded_pairing_bls12_381_gt_multiply", 0, {"gt.exp:c"}>>,
         <<"c", "", "embedded_pairing_bls12_381_gt_multiply_random", 0, {"gt.random:c"}>>,
         \* the scheme's C functions whose signatures let the output key be the input key
         <<"c", "", "embedded_pairing_wkdibe_qualifykey", 0, {"wk:qualify"}>>, <<"c", "", "embedded_pairing_wkdibe_nondelegable_qualifykey", 0, {"wk:ndqualify"}>>,
         <<"c", "", "embedded_pairing_wkdibe_adjust_nondelegable", 0, {"wk:adjustnd"}>>, <<"c", "", "embedded_pairing_wkdibe_resamplekey", 0, {"wk:resample"}>> }

KeysOf(o) == UNION { b[5] : b \in { bb \in Bind : bb[1] = o.lang /\ bb[2] = o.struct /\ bb[3] = o.name /\ (bb[4] = 0 \/ bb[4] = o.ovl) } }

\* ---- obligations ------------------------------------------------------------------------------------------
Idx == 1..Len(Ops)
Obliged == { i \in Idx : InScope(Ops[i]) /\ Patterns(Ops[i]) # {} }
Plan == [i \in Obliged |-> [file |-> Ops[i].file, line |-> Ops[i].line, struct |-> Ops[i].struct, name |-> Ops[i].name, ovl |-> Ops[i].ovl,
                            out |-> OutType(Ops[i]), codes |-> Patterns(Ops[i]), keys |-> KeysOf(Ops[i])]]
Required == UNION { { <<k, c>> : k \in Plan[i].keys, c \in Plan[i].codes } : i \in Obliged }
Uncovered == { i \in Obliged : Plan[i].keys = {} }
OtherLayers == { i \in Idx : ~InScope(Ops[i]) /\ Patterns(Ops[i]) # {} }
\* a binding that matches no catalogue entry: the header no longer declares what the table names
DeadBindings == { b \in Bind : ~\E i \in Idx : Ops[i].lang = b[1] /\ Ops[i].struct = b[2] /\ Ops[i].name = b[3] /\ (b[4] = 0 \/ b[4] = Ops[i].ovl) }
=============================================================================
