---- MODULE MC_Runtime_TTrace_1790605054 ----
EXTENDS Sequences, TLCExt, MC_Runtime, Toolbox, Naturals, TLC

_expression ==
    LET MC_Runtime_TEExpression == INSTANCE MC_Runtime_TEExpression
    IN MC_Runtime_TEExpression!expression
----

_trace ==
    LET MC_Runtime_TETrace == INSTANCE MC_Runtime_TETrace
    IN MC_Runtime_TETrace!trace
----

_inv ==
    ~(
        TLCGet("level") = Len(_TETrace)
        /\
        result = (<<<<>>, <<<<"lq.encrypt", 1>>>>, <<>>>>)
        /\
        loaded = (TRUE)
        /\
        acc = (<<<<<<"lq.encrypt", 1>>>>, <<>>, <<>>>>)
        /\
        dispatch = ("bmi2")
        /\
        pc = (<<<<1, 2>>, <<2, 1>>, <<1, 1>>>>)
        /\
        lib = (<<"lq.encrypt", 1>>)
    )
----

_init ==
    /\ dispatch = _TETrace[1].dispatch
    /\ result = _TETrace[1].result
    /\ loaded = _TETrace[1].loaded
    /\ acc = _TETrace[1].acc
    /\ pc = _TETrace[1].pc
    /\ lib = _TETrace[1].lib
----

_next ==
    /\ \E i,j \in DOMAIN _TETrace:
        /\ \/ /\ j = i + 1
              /\ i = TLCGet("level")
        /\ dispatch  = _TETrace[i].dispatch
        /\ dispatch' = _TETrace[j].dispatch
        /\ result  = _TETrace[i].result
        /\ result' = _TETrace[j].result
        /\ loaded  = _TETrace[i].loaded
        /\ loaded' = _TETrace[j].loaded
        /\ acc  = _TETrace[i].acc
        /\ acc' = _TETrace[j].acc
        /\ pc  = _TETrace[i].pc
        /\ pc' = _TETrace[j].pc
        /\ lib  = _TETrace[i].lib
        /\ lib' = _TETrace[j].lib

\* Uncomment the ASSUME below to write the states of the error trace
\* to the given file in Json format. Note that you can pass any tuple
\* to `JsonSerialize`. For example, a sub-sequence of _TETrace.
    \* ASSUME
    \*     LET J == INSTANCE Json
    \*         IN J!JsonSerialize("MC_Runtime_TTrace_1790605054.json", _TETrace)

=============================================================================

 Note that you can extract this module `MC_Runtime_TEExpression`
  to a dedicated file to reuse `expression` (the module in the 
  dedicated `MC_Runtime_TEExpression.tla` file takes precedence 
  over the module `MC_Runtime_TEExpression` below).

---- MODULE MC_Runtime_TEExpression ----
EXTENDS Sequences, TLCExt, MC_Runtime, Toolbox, Naturals, TLC

expression == 
    [
        \* To hide variables of the `MC_Runtime` spec from the error trace,
        \* remove the variables below.  The trace will be written in the order
        \* of the fields of this record.
        dispatch |-> dispatch
        ,result |-> result
        ,loaded |-> loaded
        ,acc |-> acc
        ,pc |-> pc
        ,lib |-> lib
        
        \* Put additional constant-, state-, and action-level expressions here:
        \* ,_stateNumber |-> _TEPosition
        \* ,_dispatchUnchanged |-> dispatch = dispatch'
        
        \* Format the `dispatch` variable as Json value.
        \* ,_dispatchJson |->
        \*     LET J == INSTANCE Json
        \*     IN J!ToJson(dispatch)
        
        \* Lastly, you may build expressions over arbitrary sets of states by
        \* leveraging the _TETrace operator.  For example, this is how to
        \* count the number of times a spec variable changed up to the current
        \* state in the trace.
        \* ,_dispatchModCount |->
        \*     LET F[s \in DOMAIN _TETrace] ==
        \*         IF s = 1 THEN 0
        \*         ELSE IF _TETrace[s].dispatch # _TETrace[s-1].dispatch
        \*             THEN 1 + F[s-1] ELSE F[s-1]
        \*     IN F[_TEPosition - 1]
    ]

=============================================================================



Parsing and semantic processing can take forever if the trace below is long.
 In this case, it is advised to uncomment the module below to deserialize the
 trace from a generated binary file.

\*
\*---- MODULE MC_Runtime_TETrace ----
\*EXTENDS IOUtils, MC_Runtime, TLC
\*
\*trace == IODeserialize("MC_Runtime_TTrace_1790605054.bin", TRUE)
\*
\*=============================================================================
\*

---- MODULE MC_Runtime_TETrace ----
EXTENDS MC_Runtime, TLC

trace == 
    <<
    ([result |-> <<<<>>, <<>>, <<>>>>,loaded |-> FALSE,acc |-> <<<<>>, <<>>, <<>>>>,dispatch |-> "none",pc |-> <<<<1, 1>>, <<1, 1>>, <<1, 1>>>>,lib |-> <<"init">>]),
    ([result |-> <<<<>>, <<>>, <<>>>>,loaded |-> TRUE,acc |-> <<<<>>, <<>>, <<>>>>,dispatch |-> "bmi2",pc |-> <<<<1, 1>>, <<1, 1>>, <<1, 1>>>>,lib |-> <<"init">>]),
    ([result |-> <<<<>>, <<>>, <<>>>>,loaded |-> TRUE,acc |-> <<<<>>, <<<<"lq.decrypt", 2>>>>, <<>>>>,dispatch |-> "bmi2",pc |-> <<<<1, 1>>, <<1, 2>>, <<1, 1>>>>,lib |-> <<"lq.decrypt", 2>>]),
    ([result |-> <<<<>>, <<>>, <<>>>>,loaded |-> TRUE,acc |-> <<<<<<"lq.encrypt", 1>>>>, <<<<"lq.decrypt", 2>>>>, <<>>>>,dispatch |-> "bmi2",pc |-> <<<<1, 2>>, <<1, 2>>, <<1, 1>>>>,lib |-> <<"lq.encrypt", 1>>]),
    ([result |-> <<<<>>, <<<<"lq.encrypt", 1>>>>, <<>>>>,loaded |-> TRUE,acc |-> <<<<<<"lq.encrypt", 1>>>>, <<>>, <<>>>>,dispatch |-> "bmi2",pc |-> <<<<1, 2>>, <<2, 1>>, <<1, 1>>>>,lib |-> <<"lq.encrypt", 1>>])
    >>
----


=============================================================================

---- CONFIG MC_Runtime_TTrace_1790605054 ----
CONSTANTS
    V = "static-buffer"
    CpuKind = "bmi2"

INVARIANT
    _inv

CHECK_DEADLOCK
    \* CHECK_DEADLOCK off because of PROPERTY or INVARIANT above.
    FALSE

INIT
    _init

NEXT
    _next

CONSTANT
    _TETrace <- _trace

ALIAS
    _expression
=============================================================================
\* Generated on Mon Sep 28 14:17:34 UTC 2026