SPECIFICATION GSpec
INVARIANT Emit
INVARIANT Ok
CHECK_DEADLOCK FALSE
