------------------------------ MODULE Gen_Tower ------------------------------
(* Generator (G->I) for the tower: component-shape families for Fq2/Fq6/Fq12 (zero / one /
   minus-one / boundary / pseudo-random components, subfield elements, one-hot and sparse
   shapes), every Frobenius power 0..13, sparse multiplicands with zero and non-zero free
   components, cyclotomic inputs.  Emits raw (Montgomery) operands; expected values are not
   emitted - the replayed trace is validated by Trace_Tower.                                *)
EXTENDS Tower, Json, IOUtils, TLC
Tier == IF "TIER" \in DOMAIN IOEnv THEN IOEnv.TIER ELSE "quick"
Seed == IF "SEED" \in DOMAIN IOEnv THEN atoi(IOEnv.SEED) ELSE 1
FqF == INSTANCE PrimeField WITH P <- QMod, NBytes <- 48

Rnd(k) == ModExp(FromNat(5), FromNat(1000003 * Seed + 7919 * k), Q)
Cls(c, k) == CASE c = 0 -> Zero [] c = 1 -> One [] c = 2 -> Sub(Q, One) [] c = 3 -> Sub(Q, Pow2(64)) [] OTHER -> Rnd(k)
Raw1(v) == Pad(FqF!Mont(v), 48)
Raw2(x) == <<Raw1(x[1]), Raw1(x[2])>>
Raw6(x) == <<Raw2(x[1]), Raw2(x[2]), Raw2(x[3])>>
Raw12(x) == <<Raw6(x[1]), Raw6(x[2])>>

Fam2 == { <<Cls(c, 1), Cls(d, 2)>> : c \in 0..4, d \in 0..4 }
Z2 == F2!EZero
R2(k) == <<Rnd(k), Rnd(k + 1)>>
Fam6 == { <<<<Cls(c, 1), Cls(c, 2)>>, <<Cls(c, 3), Cls(c, 4)>>, <<Cls(c, 5), Cls(c, 6)>>>> : c \in 0..4 }
        \cup { <<x, Z2, Z2>> : x \in { <<One, Zero>>, <<Zero, One>>, R2(10) } }
        \cup { <<Z2, R2(20), Z2>>, <<Z2, Z2, R2(30)>>, <<R2(40), R2(42), Z2>>, <<R2(50), Z2, R2(52)>>, <<Z2, R2(60), R2(62)>> }
        \cup { <<R2(70 + 6 * k), R2(72 + 6 * k), R2(74 + 6 * k)>> : k \in 0..(IF Tier = "quick" THEN 1 ELSE 4) }
Z6 == F6!EZero
R6(k) == <<R2(k), R2(k + 2), R2(k + 4)>>
Fam12 == { <<x, Z6>> : x \in { F6!EOne, F6!EEmbed(<<Sub(Q, One), Zero>>), F6!EEmbed(R2(100)), R6(110), VElem } }
         \cup { <<Z6, x>> : x \in { F6!EOne, R6(120) } }
         \cup { <<Z6, Z6>>, <<F6!EOne, F6!EOne>>, <<R6(130), F6!EEmbed(<<Sub(Q, Pow2(64)), Sub(Q, One)>>)>> }
         \cup { <<R6(140 + 12 * k), R6(146 + 12 * k)>> : k \in 0..(IF Tier = "quick" THEN 2 ELSE 7) }

Exps == { Zero, One, Two, RMod, Sub(Pow2(256), One), ModPow2(Rnd(200), 256) }
CFam == { Z2, F2!EOne, R2(300), <<Zero, Rnd(310)>>, <<Sub(Q, One), Zero>> }

Lvl(lvl, fam, raw(_)) ==
  LET bin(o, al) == { [op |-> o, lvl |-> lvl, a |-> raw(x), b |-> raw(y), alias |-> al, src |-> "gen"] : x \in fam, y \in fam }
      un(o, al)  == { [op |-> o, lvl |-> lvl, a |-> raw(x), alias |-> al, src |-> "gen"] : x \in fam }
  IN SetToSeq(bin("ext.add", 0)) \o SetToSeq(bin("ext.add", 1)) \o SetToSeq(bin("ext.sub", 0)) \o SetToSeq(bin("ext.sub", 1))
     \o SetToSeq(bin("ext.mul", 0)) \o SetToSeq(bin("ext.mul", 1)) \o SetToSeq(bin("ext.mul", 2)) \o SetToSeq(un("ext.mul", 3))
     \o SetToSeq(bin("ext.eq", 0))
     \o SetToSeq(un("ext.dbl", 0)) \o SetToSeq(un("ext.dbl", 1)) \o SetToSeq(un("ext.neg", 0)) \o SetToSeq(un("ext.neg", 1))
     \o SetToSeq(un("ext.sqr", 0)) \o SetToSeq(un("ext.sqr", 1)) \o SetToSeq(un("ext.inv", 0)) \o SetToSeq(un("ext.inv", 1))
     \o SetToSeq(un("ext.is_zero", 0)) \o SetToSeq(un("ext.writebe", 0)) \o SetToSeq(un("ext.copy", 0)) \o SetToSeq(un("ext.copy", 1))
     \o SetToSeq({ [op |-> "ext.frob", lvl |-> lvl, a |-> raw(x), power |-> k, alias |-> al, src |-> "gen"] : x \in fam, k \in 0..13, al \in {0, 1} })
     \* powers far beyond one period of the coefficient tables (the index must be reduced, not clamped or offset)
     \o SetToSeq({ [op |-> "ext.frob", lvl |-> lvl, a |-> raw(x), power |-> k, alias |-> 0, src |-> "gen"] :
                   x \in { CHOOSE z \in fam : \A i \in 1..Len(z) : z[i] # (IF lvl = 2 THEN Zero ELSE IF lvl = 6 THEN Z2 ELSE Z6) },
                   k \in {23, 24, 25, 35, 36, 37, 47, 48, 59, 60, 61, 119, 120, 255, 256, 65535, 65536, 2147483646, 2147483647} })
     \o SetToSeq({ [op |-> "ext.exp", lvl |-> lvl, a |-> raw(x), e |-> Pad(e, 32), alias |-> al, src |-> "gen"] :
                   x \in { y \in fam : y \in { CHOOSE z \in fam : TRUE } \cup { CHOOSE z \in fam : z # (CHOOSE w \in fam : TRUE) } }, e \in Exps, al \in {0, 1} })

Cases ==
  Lvl(2, Fam2, Raw2) \o Lvl(6, Fam6, Raw6) \o Lvl(12, Fam12, Raw12)
  \o SetToSeq({ [op |-> o, lvl |-> 2, a |-> Raw2(x), alias |-> 0, src |-> "gen"] : o \in {"ext.norm", "ext.legendre"}, x \in Fam2 })
  \o SetToSeq({ [op |-> "ext.nonres", lvl |-> 2, a |-> Raw2(x), alias |-> al, src |-> "gen"] : x \in Fam2, al \in {0, 1} })
  \o SetToSeq({ [op |-> "ext.nonres", lvl |-> 6, a |-> Raw6(x), alias |-> al, src |-> "gen"] : x \in Fam6, al \in {0, 1} })
  \o SetToSeq({ [op |-> "ext.sqrt", lvl |-> 2, a |-> Raw2(F2Mul(x, x)), alias |-> 0, src |-> "gen"] : x \in Fam2 })
  \o SetToSeq({ [op |-> "ext.cmp", lvl |-> 2, a |-> Raw2(x), b |-> Raw2(y), alias |-> 0, src |-> "gen"] : x \in Fam2, y \in Fam2 })
  \o SetToSeq({ [op |-> "ext.mul_c1", lvl |-> 6, a |-> Raw6(x), c1 |-> Raw2(c), alias |-> al, src |-> "gen"] : x \in Fam6, c \in CFam, al \in {0, 1} })
  \o SetToSeq({ [op |-> "ext.mul_c01", lvl |-> 6, a |-> Raw6(x), c0 |-> Raw2(c), c1 |-> Raw2(d), alias |-> al, src |-> "gen"] : x \in Fam6, c \in CFam, d \in CFam, al \in {0, 1} })
  \o SetToSeq({ [op |-> "ext.mul_c014", lvl |-> 12, a |-> Raw12(x), c0 |-> Raw2(c), c1 |-> Raw2(d), c4 |-> Raw2(e), alias |-> al, src |-> "gen"] :
                x \in Fam12, c \in CFam, d \in { Z2, R2(400) }, e \in CFam, al \in {0, 1} })
  \o SetToSeq({ [op |-> "ext.conj", lvl |-> 12, a |-> Raw12(x), alias |-> al, src |-> "gen"] : x \in Fam12, al \in {0, 1} })
  \o SetToSeq({ [op |-> "ext.map_cyclo", lvl |-> 12, a |-> Raw12(x), alias |-> al, src |-> "gen"] : x \in Fam12, al \in {0, 1} })
  \o SetToSeq({ [op |-> "ext.sqr_cyclo", lvl |-> 12, a |-> Raw12(x), pre |-> 1, alias |-> al, src |-> "gen"] : x \in Fam12 \ { <<Z6, Z6>> }, al \in {0, 1} })
  \o SetToSeq({ [op |-> "ext.readbe", lvl |-> 2, bytes |-> ToBE(x, 48) \o ToBE(y, 48), alias |-> 0, src |-> "gen"] :
                x \in { Zero, Sub(Q, One), Q, Sub(Pow2(384), One), Pow2(381) }, y \in { One, Add(Q, One), Pow2(383) } })
ASSUME PrintT(<<"cases", Len(Cases)>>)
ASSUME ndJsonSerialize(IOEnv.OUT, Cases)
=============================================================================
