CONSTANTS XBits <- XB
 Pm = 11
 MaxPairs = 3
 Rounds = 2
INIT Init
NEXT Next
INVARIANTS CursorBound ResultOk
CHECK_DEADLOCK FALSE
