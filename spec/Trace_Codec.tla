----------------------------- MODULE Trace_Codec ------------------------------
(* Trace specification for encodings (C09) and hashing / sampling (C10).  Labels starting with
   "diag." are diagnostics about the sampler's consumption protocol and are not gating. *)
EXTENDS TraceBase, Encoding
VARIABLES l, st
FrM == INSTANCE PrimeField WITH P <- RMod, NBytes <- 32

V1(x)  == FqM!Val(Norm(x))
V2(x)  == <<V1(x[1]), V1(x[2])>>
VF(g, x) == IF g = 1 THEN V1(x) ELSE V2(x)
C1(x)  == Lt(Norm(x), QMod)
CF(g, x) == IF g = 1 THEN C1(x) ELSE C1(x[1]) /\ C1(x[2])
AffPt(g, a) == IF a[3] # 0 THEN <<>> ELSE <<VF(g, a[1]), VF(g, a[2])>>
AffCanon(g, a) == a[3] # 0 \/ (CF(g, a[1]) /\ CF(g, a[2]))
JacPt(g, j) == IF g = 1 THEN E1!JacToAffine(V1(j[1]), V1(j[2]), V1(j[3])) ELSE E2!JacToAffine(V2(j[1]), V2(j[2]), V2(j[3]))

\* try-and-increment: the first x >= x0 (incrementing the Fq resp. c0 coordinate) with x^3 + b a square
RECURSIVE FirstX(_, _, _)
FirstX(g, x, fuel) == IF IsSq(g, RhsG(g, x)) \/ fuel = 0 THEN x
                      ELSE FirstX(g, IF g = 1 THEN QAdd(x, One) ELSE <<QAdd(x[1], One), x[2]>>, fuel - 1)
HashX(g, h) == IF g = 1 THEN ModN(ModPow2(FromBE(h), 381), QMod)
               ELSE <<ModN(ModPow2(FromBE(SubSeq(h, 49, 96)), 381), QMod), ModN(ModPow2(FromBE(SubSeq(h, 1, 48)), 381), QMod)>>
HashPointOk(g, h, P) == LET x == FirstX(g, HashX(g, h), 200) IN
  /\ P # <<>> /\ P[1] = x /\ OnC(g, P)
\* which of the two points over x: read_big_endian masks the top three bits and converts to Montgomery form BEFORE hash_reduce looks at the top
\* bit, so the "greater root" request is never set and the function always returns the root that is the LESSER one in the library's own order
\* (the order its encodings use for the sign flag, Encoding!Greater).  The root is part of the function users derive identities with.
HashRootOk(g, h, P) == P = <<>> \/ ~Greater(g, P[2])

\* first candidate of a rejection sampler: chunks of nb bytes (little-endian), masked to mbits, accepted if < m
RECURSIVE FirstBelow(_, _, _, _, _)
FirstBelow(reqs, i, nb, mbits, m) ==
  IF i > Len(reqs) THEN <<"none">>
  ELSE IF Len(reqs[i]) # nb THEN <<"none">>
  ELSE LET c == ModPow2(Norm(reqs[i]), mbits) IN IF Lt(c, m) THEN <<"some", c, i>> ELSE FirstBelow(reqs, i + 1, nb, mbits, m)

Checks(ev) ==
  LET o == ev.op IN
  CASE o = "enc.encode" -> LET P == AffPt(ev.g, ev.a) IN
         << <<"value", ev.out.bytes = Encode(ev.g, P, ev.compressed = 1)>>, <<"no-overrun", ev.out.guard = 1>>,
            \* the identity as a computation yields it (P + (-P), converted into an affine object that held another point) has the same encoding
            <<"value-of-computed-identity", "computed" \notin DOMAIN ev.out \/ ev.out.computed = Encode(ev.g, P, ev.compressed = 1)>> >>
    [] o = "enc.decode" ->
         LET g == ev.g  comp == ev.compressed = 1
             d == DecodeChecked(g, ev.bytes, comp)
         IN IF ev.checked = 1
            THEN << <<"verdict:" \o d.why, (ev.out.ok = 1) = d.ok>>,
                    <<"point", ev.out.ok = 0 \/ ~d.ok \/ (AffPt(g, ev.out.r) = d.pt /\ AffCanon(g, ev.out.r))>>,
                    <<"accept-iff-canonical", AcceptIffCanonical(g, ev.bytes, comp)>>,
                    <<"library-reencodes-same", ev.out.ok = 0 \/ ~d.ok \/ ev.out.reencoded = ev.bytes>> >>
            \* non-validating decode is only constrained on encodings the validating decode accepts
            ELSE << <<"unchecked-same-point", ~d.ok \/ (ev.out.ok = 1 /\ AffPt(g, ev.out.r) = d.pt)>> >>
    [] o = "hash.zp" -> << <<"value", Norm(ev.out.r) = ModN(ModPow2(FromBE(ev.hash), 255), RMod)>> >>
    [] o = "hash.scalar_reduce" -> << <<"value", Norm(ev.out.r) = ModN(ModPow2(Norm(ev.n), 255), RMod)>> >>
    [] o \in {"hash.g1", "hash.g2"} -> LET g == IF o = "hash.g1" THEN 1 ELSE 2 IN
         << <<"first-point", HashPointOk(g, ev.hash, AffPt(g, ev.out.r))>>, <<"root", HashRootOk(g, ev.hash, AffPt(g, ev.out.r))>>, <<"canon", AffCanon(g, ev.out.r)>>, <<"deterministic", ev.out.again = 1>> >>
    [] o = "hash.id" -> LET P == AffPt(1, ev.out.r)
                            x == FirstX(1, HashX(1, ev.hash), 200)
                            y == QSqrt(E1!Rhs(x))
                            c1 == E1!ScalarMul(H1, <<x, y>>)
                        IN << <<"cofactor-cleared", P = c1 \/ P = E1!PNeg(c1)>>, <<"in-G1", InSub(1, P)>>, <<"canon", AffCanon(1, ev.out.r)>> >>
    \* C19: a C function fed the same scripted random stream as the C++ operation it wraps returns the same object, byte for byte
    [] o = "capi.diff" -> << <<"pre.stream-long-enough", ev.out.used <= Len(ev.stream) /\ ev.out.used_cpp <= Len(ev.stream)>>,
                             <<"same-object", ev.out.c = ev.out.cpp>>, <<"same-consumption", ev.out.used = ev.out.used_cpp>>,
                             <<"produced", Len(ev.out.c) > 0 /\ \A i \in 1..Len(ev.out.c) : Len(ev.out.c[i]) >= 0>> >>
    [] o \in {"rand.zp", "rand.zpstar"} ->
         LET f == FirstBelow(ev.out.reqs, 1, 32, 255, RMod) IN
         << <<"range", Lt(Norm(ev.out.r), RMod)>>,
            \* the same stream served again straight away gives the same scalar: no state is carried from one call to the next
            <<"function-of-the-stream", "again" \notin DOMAIN ev.out \/ ev.out.again = 1>>,
            <<"diag.protocol", f[1] = "some" /\ f[2] = Norm(ev.out.r) /\ f[3] = Len(ev.out.reqs)>> >>
    [] o = "rand.fq" ->
         LET f == FirstBelow(ev.out.reqs, 1, 48, 381, QMod) IN
         << <<"range", Lt(Norm(ev.out.r), QMod)>>,
            <<"diag.protocol", f[1] = "some" /\ f[2] = Norm(ev.out.r) /\ f[3] = Len(ev.out.reqs)>> >>
    [] o = "rand.fq2" -> << <<"range", Lt(Norm(ev.out.r[1]), QMod) /\ Lt(Norm(ev.out.r[2]), QMod)>> >>
    [] o \in {"rand.g1", "rand.g2"} -> LET g == IF o = "rand.g1" THEN 1 ELSE 2  P == JacPt(g, ev.out.r) IN
         << <<"non-identity", P # <<>>>>, <<"on-curve", OnC(g, P)>>, <<"in-subgroup", InSub(g, P)>> >>
    [] o \in {"rand.powx", "rand.zpstar_px"} ->
         LET c == [i \in 1..4 |-> Norm(ev.out.c[i])]
             x == XAbs
             y == Add(Add(c[1], Mul(c[2], x)), Add(Mul(c[3], Mul(x, x)), Mul(c[4], Mul(x, Mul(x, x)))))
         IN << <<"digits", \A i \in 1..4 : Lt(c[i], x)>>, <<"consistent", Norm(ev.out.y) = y>>, <<"range", Lt(Norm(ev.out.y), RMod)>> >>
    [] OTHER -> << <<"unknown-op", FALSE>> >>

Fails(ev) == FailsOf(Checks(ev))
Init == l \in 1..NLines /\ st = "todo"
Next == /\ st = "todo"
        /\ LET f == Fails(Tr[l]) IN
             /\ st' = "done"
             /\ IF f = {} THEN TRUE ELSE PrintT(<<"FAIL", l, f>>)
        /\ UNCHANGED l
=============================================================================
