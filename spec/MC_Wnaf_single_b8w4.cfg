CONSTANTS Mode = "single"
 Bits = 8
 Win = 4
 X = 3
 Variant = "shipped"
INIT Init
NEXT Next
INVARIANTS Correct TableInBounds BuffersInBounds
CHECK_DEADLOCK FALSE
