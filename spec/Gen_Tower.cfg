
