-------------------------------- MODULE Tower --------------------------------
(* Tier B: the BLS12-381 tower  Fq2 = Fq[u]/(u^2+1),  Fq6 = Fq2[v]/(v^3-(u+1)),
   Fq12 = Fq6[w]/(w^2-v)  as three instances of ExtField.  Field elements of Fq are plain
   integers below q (BigNat); an Fq2 element is <<c0,c1>>, Fq6 <<c0,c1,c2>>, Fq12 <<c0,c1>>,
   mirroring the member order of the structs.  Frobenius maps are x |-> x^(q^k), expressed
   through the images of the generators (u^q = -u, v^(q^k) = xi^((q^k-1)/3) v,
   w^(q^k) = xi^((q^k-1)/6) w), which follow from u^2=-1, v^3=xi, w^6=xi.                    *)
EXTENDS Params381, FiniteSets, SequencesExt, Functions

Q == QMod
QAdd(a, b) == AddMod(a, b, Q)
QSub(a, b) == SubMod(a, b, Q)
QMul(a, b) == MulMod(a, b, Q)
QNeg(a)    == NegMod(a, Q)

F2 == INSTANCE ExtField WITH D <- 2, C <- Sub(Q, One), KZero <- Zero, KOne <- One,
                             KAdd <- QAdd, KSub <- QSub, KMul <- QMul, KNeg <- QNeg
Xi == <<One, One>>                                   \* 1 + u
F2Add(a, b) == F2!EAdd(a, b)
F2Sub(a, b) == F2!ESub(a, b)
\* The *MulQ operators are evaluated by Tower.class (schoolbook, BigInteger); their definition is the
\* ExtField product (the modulus argument is always Q).  MC_Tower checks override = definition.
F2MulQ(a, b, q) == F2!EMul(a, b)
F2Mul(a, b) == F2MulQ(a, b, Q)
F2Neg(a)    == F2!ENeg(a)
F6 == INSTANCE ExtField WITH D <- 3, C <- Xi, KZero <- F2!EZero, KOne <- F2!EOne,
                             KAdd <- F2Add, KSub <- F2Sub, KMul <- F2Mul, KNeg <- F2Neg
VElem == <<F2!EZero, F2!EOne, F2!EZero>>             \* v
F6Add(a, b) == F6!EAdd(a, b)
F6Sub(a, b) == F6!ESub(a, b)
F6MulQ(a, b, q) == F6!EMul(a, b)
F6Mul(a, b) == F6MulQ(a, b, Q)
F6Neg(a)    == F6!ENeg(a)
F12 == INSTANCE ExtField WITH D <- 2, C <- VElem, KZero <- F6!EZero, KOne <- F6!EOne,
                              KAdd <- F6Add, KSub <- F6Sub, KMul <- F6Mul, KNeg <- F6Neg

\* ---- generic square-and-multiply (most significant bit first) -------------------------------
BitsMSB(e) == [i \in 1..BitLen(e) |-> Bit(e, BitLen(e) - i)]
F2Exp(a, e)  == FoldLeft(LAMBDA acc, bit : IF bit = 1 THEN F2Mul(F2Mul(acc, acc), a) ELSE F2Mul(acc, acc), F2!EOne, BitsMSB(e))
F6Exp(a, e)  == FoldLeft(LAMBDA acc, bit : IF bit = 1 THEN F6Mul(F6Mul(acc, acc), a) ELSE F6Mul(acc, acc), F6!EOne, BitsMSB(e))
F12MulQ(a, b, q) == F12!EMul(a, b)
F12Mul(a, b) == F12MulQ(a, b, Q)
F12ExpDef(a, e) == FoldLeft(LAMBDA acc, bit : IF bit = 1 THEN F12Mul(F12Mul(acc, acc), a) ELSE F12Mul(acc, acc), F12!EOne, BitsMSB(e))
F12ExpQ(a, e, q) == F12ExpDef(a, e)
F12Exp(a, e) == F12ExpQ(a, e, Q)

\* ---- Fq2 specifics ---------------------------------------------------------------------------------
F2Conj(a)  == <<a[1], QNeg(a[2])>>
F2Norm(a)  == QAdd(QMul(a[1], a[1]), QMul(a[2], a[2]))
\* quadratic character of a in Fq2: a^((q^2-1)/2) in {0, 1, -1}
F2Legendre(a) == LET t == F2Exp(a, ShiftR(Sub(Mul(Q, Q), One), 1))
                 IN IF t = F2!EZero THEN 0 ELSE IF t = F2!EOne THEN 1 ELSE 0 - 1

\* ---- Frobenius ---------------------------------------------------------------------------------------
QPow(k) == ModExp(Q, FromNat(k), Pow2(8 * 48 * 12 + 8))          \* q^k (no reduction happens)
F2Frob(a, k) == IF k % 2 = 0 THEN a ELSE F2Conj(a)                  \* u^q = -u because q = 3 (mod 4)
Gamma3(k) == F2Exp(Xi, Div(Sub(QPow(k), One), FromNat(3)))        \* v^(q^k) = Gamma3(k) v
Gamma6(k) == F2Exp(Xi, Div(Sub(QPow(k), One), FromNat(6)))        \* w^(q^k) = Gamma6(k) w
F6Frob(a, k) == LET kk == k % 6  g == Gamma3(kk) IN
  <<F2Frob(a[1], kk), F2Mul(F2Frob(a[2], kk), g), F2Mul(F2Frob(a[3], kk), F2Mul(g, g))>>
\* Frobenius of an Fq6 element for powers up to 11 (Gamma3 is periodic with period 6)
F6FrobRaw(a, k) == LET g == Gamma3(k % 6) IN
  <<F2Frob(a[1], k), F2Mul(F2Frob(a[2], k), g), F2Mul(F2Frob(a[3], k), F2Mul(g, g))>>
F6ScaleF2(s, a) == <<F2Mul(s, a[1]), F2Mul(s, a[2]), F2Mul(s, a[3])>>
F12Frob(a, k) == LET kk == k % 12 IN
  <<F6FrobRaw(a[1], kk), F6ScaleF2(Gamma6(kk), F6FrobRaw(a[2], kk))>>

F12Conj(a) == <<a[1], F6Neg(a[2])>>                                \* = x^(q^6)

\* ---- sparse elements used by the pairing ---------------------------------------------------------------
F6FromC1(c1)       == <<F2!EZero, c1, F2!EZero>>
F6FromC01(c0, c1)  == <<c0, c1, F2!EZero>>
F12FromC014(c0, c1, c4) == <<F6FromC01(c0, c1), F6FromC1(c4)>>

\* ---- cyclotomic subgroup:  x^(q^4 - q^2 + 1) = 1  and  x^(q^6 + 1) = 1 ------------------------------------
InCyclotomic(x) == /\ F12Mul(x, F12Conj(x)) = F12!EOne
                   /\ F12Mul(F12Frob(x, 4), x) = F12Frob(x, 2)
\* r = a^((q^6-1)(q^2+1))   <=>   r * a * a^(q^2) = conj(a) * conj(a)^(q^2)      (a # 0)
IsCycloMap(a, r) == F12Mul(r, F12Mul(a, F12Frob(a, 2))) = F12Mul(F12Conj(a), F12Frob(F12Conj(a), 2))
=============================================================================
