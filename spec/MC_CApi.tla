------------------------------ MODULE MC_CApi ------------------------------
(* Evaluates CApi.tla on the tables bin/check collected from the tree under test and prints the
   verdicts (one PrintT line per fault) for bin/check to turn into VIOLATION lines / evidence. *)
EXTENDS CApi, SequencesExt
ASSUME PrintT(<<"layout-rows", Cardinality(CppIdx), "c-rows", Cardinality(CIdx), "consts", Len(Consts), "symbols", Cardinality(Symbols),
                "declared-fns", Cardinality(DeclaredFns), "exercised-keys", Cardinality(ExKeys)>>)
ASSUME \A i \in CppIdx : LayoutFaults(i) = {} \/ PrintT(<<"LAYOUT-FAULT", Measured[i].cfg, Measured[i].type, Measured[i].cpp, LayoutFaults(i)>>)
ASSUME \A i \in CIdx : SpecFaults(i) = {} \/ PrintT(<<"SPEC-FAULT", Measured[i].cfg, Measured[i].type, SpecFaults(i)>>)
ASSUME \A i \in 1..Len(Consts) : ConstFaults(i) = {} \/ PrintT(<<"CONST-FAULT", Consts[i].cfg, Consts[i].name, ConstFaults(i)>>)
ASSUME \A c \in DeclaredConsts \ ConstNames : PrintT(<<"CONST-NOT-READ", c>>)
ASSUME \A f \in Undefined : PrintT(<<"SYMBOL-FAULT", "declared-not-defined", f>>)
ASSUME \A f \in Undeclared : PrintT(<<"NOTE", "exported-not-declared", f>>)
ASSUME \A f \in Unbound : PrintT(<<"NOTE", "function-without-binding", f>>)
ASSUME \A f \in NotExercised : PrintT(<<"NOTE", "function-not-exercised", f>>)
ASSUME \A f \in RejectedFns : PrintT(<<"FUNCTION-FAULT", f, FnKey(f)>>)
ASSUME \A s \in UnpairedStructs : PrintT(<<"NOTE", "struct-never-cast", s>>)
ASSUME PrintT(<<"summary", "functions-exercised", Cardinality(DeclaredFns \ (NotExercised \cup Unbound)), "of", Cardinality(DeclaredFns)>>)
VARIABLE x
Init == x = 0
Next == UNCHANGED x
=============================================================================
