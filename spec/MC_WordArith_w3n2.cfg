CONSTANTS W = 3
 N = 2
INIT Init
NEXT Next
INVARIANT Inv
CHECK_DEADLOCK FALSE
