-------------------------------- MODULE Marshal --------------------------------
(* Wire formats of the scheme objects and the caller protocol for variable-size objects
   (the Go wrappers are its only documentation):
        set_length(buf, n)  ->  -1: stop   |   l: allocate exactly l slots, then unmarshal(buf)
   Lengths are pure integer arithmetic; the byte layouts reuse Encoding.tla.
   The protocol is a small state machine (variables below) explored by MC_Marshal for every buffer
   length up to MaxN: the library may read only bytes [0, n) and write only slots [0, reported l). *)
EXTENDS Naturals, Sequences
CONSTANTS MaxN, MaxL
VARIABLES kind, comp, n, fb, phase, rep, alloc, readEnd, slotEnd

vars == <<kind, comp, n, fb, phase, rep, alloc, readEnd, slotEnd>>
G1Len(c) == IF c THEN 48 ELSE 96
G2Len(c) == IF c THEN 96 ELSE 192
GTLen == 576
SlotLen(c) == 4 + G1Len(c)

ParamsMin(c) == 1 + 2 * G1Len(c) + 2 * G2Len(c)
ParamsLen(l, sigs, c) == ParamsMin(c) + (IF c THEN 0 ELSE GTLen) + ((IF sigs THEN 1 ELSE 0) + l) * G1Len(c)
KeyMin(c) == 1 + G1Len(c) + G2Len(c)
KeyLen(l, sigs, c) == KeyMin(c) + l * SlotLen(c) + (IF sigs THEN 1 ELSE 0) * G1Len(c)
CiphertextLen(c) == G1Len(c) + G2Len(c) + GTLen
SignatureLen(c) == G1Len(c) + G2Len(c)
MasterKeyLen(c) == G1Len(c)
\* the slot count recovered from a buffer of nn bytes whose first byte is b (-1 is modelled as MaxL + 1 = "reject")
Reject == MaxL + 1
ParamsUnmLen(nn, b, c) == LET without == ParamsMin(c) + (IF c THEN 0 ELSE GTLen) + (IF b = 0 THEN 0 ELSE G1Len(c)) IN
  IF nn < without THEN Reject ELSE IF (nn - without) % G1Len(c) = 0 THEN (nn - without) \div G1Len(c) ELSE Reject
KeyUnmLen(nn, b, c) == LET without == KeyMin(c) + (IF b = 0 THEN 0 ELSE G1Len(c)) IN
  IF nn < without THEN Reject ELSE IF (nn - without) % SlotLen(c) = 0 THEN (nn - without) \div SlotLen(c) ELSE Reject

\* ---- caller protocol -------------------------------------------------------------------------------------
Init == /\ kind \in {"params", "key"} /\ comp \in BOOLEAN /\ n \in 1..MaxN /\ fb \in {0, 1, 255}
        /\ phase = "start" /\ rep = 0 /\ alloc = 0 /\ readEnd = 0 /\ slotEnd = 0
SetLength == /\ phase = "start"
             /\ rep' = (IF kind = "params" THEN ParamsUnmLen(n, fb, comp) ELSE KeyUnmLen(n, fb, comp))
             /\ readEnd' = 1                                             \* only the first byte is inspected
             /\ phase' = (IF rep' = Reject THEN "rejected" ELSE "sized")
             /\ UNCHANGED <<kind, comp, n, fb, alloc, slotEnd>>
Alloc == /\ phase = "sized" /\ alloc' = rep /\ phase' = "allocated"
         /\ UNCHANGED <<kind, comp, n, fb, rep, readEnd, slotEnd>>
\* unmarshal walks the fixed part, the optional signature element, then rep slots
Unmarshal == /\ phase = "allocated"
             /\ readEnd' = (IF kind = "params" THEN ParamsLen(rep, fb # 0, comp) ELSE KeyLen(rep, fb # 0, comp))
             /\ slotEnd' = rep
             /\ phase' = "parsed"
             /\ UNCHANGED <<kind, comp, n, fb, rep, alloc>>
Next == SetLength \/ Alloc \/ Unmarshal

ReadsInside  == readEnd <= n
WritesInside == slotEnd <= alloc
\* an accepted buffer is exactly as long as the object it describes (so it can be marshalled again into n bytes)
ExactLength  == phase = "parsed" => readEnd = n
\* length round trip: the count recovered from a marshalled object is its slot count
RoundTrip == \A l \in 0..MaxL, sg \in BOOLEAN, c \in BOOLEAN :
               /\ ParamsUnmLen(ParamsLen(l, sg, c), IF sg THEN 1 ELSE 0, c) = l
               /\ KeyUnmLen(KeyLen(l, sg, c), IF sg THEN 1 ELSE 0, c) = l
ASSUME RoundTrip
=============================================================================
