----------------------------- MODULE MarshalLen -----------------------------
(* Unbounded form of Marshal!RoundTrip and Marshal!ExactLength for Apalache: for EVERY slot count l >= 0
   (not only l <= MaxL) the count recovered from the length of a marshalled object is l, and every length
   the recovery accepts is the length of the object it describes.  Integer arithmetic only; the constants
   are those of Marshal.tla.  Checked as an inductive-free state invariant over one nondeterministic
   initial state (apalache-mc check --length=0). *)
EXTENDS Integers
VARIABLES
  \* @type: Int;
  l,
  \* @type: Int;
  nn,
  \* @type: Bool;
  sg,
  \* @type: Bool;
  c
G1Len(cc) == IF cc THEN 48 ELSE 96
G2Len(cc) == IF cc THEN 96 ELSE 192
GTLen == 576
SlotLen(cc) == 4 + G1Len(cc)
ParamsMin(cc) == 1 + 2 * G1Len(cc) + 2 * G2Len(cc)
ParamsLen(ll, s, cc) == ParamsMin(cc) + (IF cc THEN 0 ELSE GTLen) + ((IF s THEN 1 ELSE 0) + ll) * G1Len(cc)
KeyMin(cc) == 1 + G1Len(cc) + G2Len(cc)
KeyLen(ll, s, cc) == KeyMin(cc) + ll * SlotLen(cc) + (IF s THEN 1 ELSE 0) * G1Len(cc)
Reject == -1
ParamsUnmLen(n, s, cc) == LET without == ParamsMin(cc) + (IF cc THEN 0 ELSE GTLen) + (IF s THEN G1Len(cc) ELSE 0) IN
  IF n < without THEN Reject ELSE IF (n - without) % G1Len(cc) = 0 THEN (n - without) \div G1Len(cc) ELSE Reject
KeyUnmLen(n, s, cc) == LET without == KeyMin(cc) + (IF s THEN G1Len(cc) ELSE 0) IN
  IF n < without THEN Reject ELSE IF (n - without) % SlotLen(cc) = 0 THEN (n - without) \div SlotLen(cc) ELSE Reject

Init == l \in Nat /\ nn \in Nat /\ sg \in BOOLEAN /\ c \in BOOLEAN
Next == UNCHANGED <<l, nn, sg, c>>
RoundTrip == ParamsUnmLen(ParamsLen(l, sg, c), sg, c) = l /\ KeyUnmLen(KeyLen(l, sg, c), sg, c) = l
\* an accepted length is exactly the length of the object with the recovered slot count
ExactLength == /\ (ParamsUnmLen(nn, sg, c) # Reject => ParamsLen(ParamsUnmLen(nn, sg, c), sg, c) = nn /\ ParamsUnmLen(nn, sg, c) >= 0)
               /\ (KeyUnmLen(nn, sg, c) # Reject => KeyLen(KeyUnmLen(nn, sg, c), sg, c) = nn /\ KeyUnmLen(nn, sg, c) >= 0)
Inv == RoundTrip /\ ExactLength
=============================================================================
