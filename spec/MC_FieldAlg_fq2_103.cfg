CONSTANTS P = 103
 Bits = 8
 Mode = "sqrt-fq2"
INIT Init
NEXT Next
INVARIANT AllGood
CHECK_DEADLOCK FALSE
