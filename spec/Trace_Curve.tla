----------------------------- MODULE Trace_Curve -----------------------------
(* Trace specification for the curve layer (C05, C06): recorded point operations must agree with
   the affine group law of Curve.tla in every representation; recorded scalar multiplications must
   equal [k]P by double-and-add; recoded digit strings and decompositions must recombine to the
   scalar.  Outputs are Jacobian triples and are accepted in any representative. *)
EXTENDS TraceBase, Curves381
VARIABLES l, st
FqF == INSTANCE PrimeField WITH P <- QMod, NBytes <- 48

V1(x)  == FqF!Val(Norm(x))
V2(x)  == <<V1(x[1]), V1(x[2])>>
C1(x)  == Lt(Norm(x), QMod)
C2(x)  == C1(x[1]) /\ C1(x[2])
VF(g, x) == IF g = 1 THEN V1(x) ELSE V2(x)
CF(g, x) == IF g = 1 THEN C1(x) ELSE C2(x)
CanonJ(g, j) == CF(g, j[1]) /\ CF(g, j[2]) /\ CF(g, j[3])

\* Tier A at the real parameters: the exact Jacobian triple the coded formula yields (diagnostic: a correct implementation may
\* legitimately return another representative; a mismatch here with a correct value means the code no longer has the modelled shape)
A1 == INSTANCE CurveAlg WITH FZero <- Zero, FOne <- One, FAdd <- QAdd, FSub <- QSub, FMul <- QMul, FNeg <- QNeg, FInv <- QInv
A2 == INSTANCE CurveAlg WITH FZero <- F2!EZero, FOne <- F2!EOne, FAdd <- F2Add, FSub <- F2Sub, FMul <- F2Mul, FNeg <- F2Neg, FInv <- F2Inv
VJ(g, j) == <<VF(g, j[1]), VF(g, j[2]), VF(g, j[3])>>
VA(g, a) == <<VF(g, a[1]), VF(g, a[2]), a[3]>>
AlgAdd(g, a, b) == IF g = 1 THEN A1!JAdd(VJ(g, a), VJ(g, b)) ELSE A2!JAdd(VJ(g, a), VJ(g, b))
AlgMixed(g, a, b) == IF g = 1 THEN A1!JAddMixed(VJ(g, a), VA(g, b)) ELSE A2!JAddMixed(VJ(g, a), VA(g, b))
AlgDbl(g, a) == IF g = 1 THEN A1!JDouble(VJ(g, a)) ELSE A2!JDouble(VJ(g, a))

\* affine point denoted by a Jacobian triple / an affine record of the trace
JacPt(g, j) == IF g = 1 THEN E1!JacToAffine(V1(j[1]), V1(j[2]), V1(j[3])) ELSE E2!JacToAffine(V2(j[1]), V2(j[2]), V2(j[3]))
AffPt(g, a) == IF a[3] # 0 THEN <<>> ELSE <<VF(g, a[1]), VF(g, a[2])>>
OnC(g, P)   == IF g = 1 THEN E1!OnCurve(P) ELSE E2!OnCurve(P)
PAddG(g, P, R) == IF g = 1 THEN E1!PAdd(P, R) ELSE E2!PAdd(P, R)
PDblG(g, P) == IF g = 1 THEN E1!PDbl(P) ELSE E2!PDbl(P)
PNegG(g, P) == IF g = 1 THEN E1!PNeg(P) ELSE E2!PNeg(P)
SMul(g, k, P) == IF g = 1 THEN E1!ScalarMul(k, P) ELSE E2!ScalarMul(k, P)
JacIsG(g, j, P) == IF g = 1 THEN E1!JacIs(V1(j[1]), V1(j[2]), V1(j[3]), P) ELSE E2!JacIs(V2(j[1]), V2(j[2]), V2(j[3]), P)
InSub(g, P) == SMul(g, RMod, P) = <<>>

RECURSIVE SumPos(_, _, _), SumNeg(_, _, _)
SumPos(d, i, acc) == IF i > Len(d) THEN acc ELSE SumPos(d, i + 1, IF d[i] > 0 THEN Add(acc, ShiftL(FromNat(d[i]), i - 1)) ELSE acc)
SumNeg(d, i, acc) == IF i > Len(d) THEN acc ELSE SumNeg(d, i + 1, IF d[i] < 0 THEN Add(acc, ShiftL(FromNat(0 - d[i]), i - 1)) ELSE acc)
Abs(x) == IF x < 0 THEN 0 - x ELSE x

PointChecks(ev) ==
  LET g == ev.g  o == ev.op IN
  CASE o = "pt.add" -> LET A == JacPt(g, ev.a)  Bp == IF ev.alias = 3 THEN A ELSE JacPt(g, ev.b) IN
         << <<"pre.oncurve", OnC(g, A) /\ OnC(g, Bp)>>, <<"canon", CanonJ(g, ev.out.r)>>, <<"value", JacIsG(g, ev.out.r, PAddG(g, A, Bp))>>,
            <<"diag.alg-shape", VJ(g, ev.out.r) = AlgAdd(g, ev.a, IF ev.alias = 3 THEN ev.a ELSE ev.b)>> >>
    [] o = "pt.add_mixed" -> LET A == JacPt(g, ev.a)  Bp == AffPt(g, ev.b) IN
         << <<"pre.oncurve", OnC(g, A) /\ OnC(g, Bp)>>, <<"canon", CanonJ(g, ev.out.r)>>, <<"value", JacIsG(g, ev.out.r, PAddG(g, A, Bp))>>,
            <<"diag.alg-shape", VJ(g, ev.out.r) = AlgMixed(g, ev.a, ev.b)>> >>
    [] o = "pt.dbl" -> LET A == JacPt(g, ev.a) IN
         << <<"pre.oncurve", OnC(g, A)>>, <<"canon", CanonJ(g, ev.out.r)>>, <<"value", JacIsG(g, ev.out.r, PDblG(g, A))>>,
            <<"diag.alg-shape", VJ(g, ev.out.r) = AlgDbl(g, ev.a)>> >>
    [] o = "pt.neg" -> << <<"canon", CanonJ(g, ev.out.r)>>, <<"value", JacIsG(g, ev.out.r, PNegG(g, JacPt(g, ev.a)))>> >>
    [] o = "pt.aneg" -> << <<"value", AffPt(g, ev.out.r) = PNegG(g, AffPt(g, ev.a))>>,
                           <<"canon", ev.out.r[3] # 0 \/ (CF(g, ev.out.r[1]) /\ CF(g, ev.out.r[2]))>> >>
    [] o = "pt.eq" -> << <<"value", ev.out.v = (IF JacPt(g, ev.a) = JacPt(g, ev.b) THEN 1 ELSE 0)>> >>
    [] o = "pt.aeq" -> << <<"value", ev.out.v = (IF AffPt(g, ev.a) = AffPt(g, ev.b) THEN 1 ELSE 0)>> >>
    [] o = "pt.from_affine" -> << <<"canon", CanonJ(g, ev.out.r)>>, <<"value", JacIsG(g, ev.out.r, AffPt(g, ev.a))>> >>
    [] o = "pt.to_affine" -> << <<"value", AffPt(g, ev.out.r) = JacPt(g, ev.a)>>,
                                <<"canon", ev.out.r[3] # 0 \/ (CF(g, ev.out.r[1]) /\ CF(g, ev.out.r[2]))>> >>
    [] o \in {"pt.copy", "pt.set"} -> << <<"value", ev.out.r = ev.a>> >>
    [] o \in {"pt.acopy", "pt.aset"} -> << <<"value", AffPt(g, ev.out.r) = AffPt(g, ev.a) /\ (ev.a[3] # 0 \/ ev.out.r = ev.a)>> >>
    [] o = "mul.endo2" ->
         LET Bs == JacPt(g, ev.base)
             t0 == ModN(Norm(ev.c0), RMod)   t1 == MulMod(LambdaG1, ModN(Norm(ev.c1), RMod), RMod)
             k  == AddMod(IF ev.n0 = 1 THEN NegMod(t0, RMod) ELSE t0, IF ev.n1 = 1 THEN NegMod(t1, RMod) ELSE t1, RMod)
         IN << <<"pre.subgroup", OnC(g, Bs) /\ InSub(g, Bs)>>, <<"canon", CanonJ(g, ev.out.r)>>, <<"value", JacIsG(g, ev.out.r, SMul(g, k, Bs))>> >>
    [] o = "mul.powx" ->
         LET Bs == JacPt(g, ev.base) IN
         << <<"pre.subgroup", OnC(g, Bs) /\ InSub(g, Bs)>>, <<"canon", CanonJ(g, ev.out.r)>>, <<"value", JacIsG(g, ev.out.r, SMul(g, Norm(ev.k), Bs))>> >>
    \* the degree-1 maps used by the fast multiplications, stated through their eigenvalues on the order-r subgroups:
    \* (x, y) |-> (beta x, y) acts on G1 as [-x^2] (LambdaG1); the twisted q-power Frobenius acts on G2 as [q mod r]
    [] o = "pt.endo" -> LET A == JacPt(g, ev.a) IN
         << <<"pre.subgroup", OnC(g, A) /\ InSub(g, A)>>, <<"canon", CanonJ(g, ev.out.r)>>, <<"value", JacIsG(g, ev.out.r, SMul(g, LambdaG1, A))>> >>
    [] o = "pt.frob" -> LET A == JacPt(g, ev.a) IN
         << <<"pre.subgroup", OnC(g, A) /\ InSub(g, A) /\ ev.power \in {0, 1}>>, <<"canon", CanonJ(g, ev.out.r)>>,
            <<"value", JacIsG(g, ev.out.r, IF ev.power = 0 THEN A ELSE SMul(g, ModN(QMod, RMod), A))>> >>
    [] o = "pt.is_zero" -> << <<"value", ev.out.v = (IF JacPt(g, ev.a) = <<>> THEN 1 ELSE 0)>> >>
    [] o = "pt.on_curve" -> << <<"value", ev.out.v = (IF OnC(g, AffPt(g, ev.a)) THEN 1 ELSE 0)>> >>
    [] o = "pt.in_subgroup" -> << <<"pre.oncurve", OnC(g, AffPt(g, ev.a))>>, <<"value", ev.out.v = (IF InSub(g, AffPt(g, ev.a)) THEN 1 ELSE 0)>> >>
    [] o \in {"mul.fast", "mul.gen"} ->
         LET Bs == IF ev.affine = 1 THEN AffPt(g, ev.base) ELSE JacPt(g, ev.base)
             \* double-and-add reads bits hb..0 of the scalar when the optional highest-bit argument is given
             k  == IF Has(ev, "hb") THEN ModPow2(Norm(ev.k), ev.hb + 1) ELSE Norm(ev.k)
         IN << <<"pre.oncurve", OnC(g, Bs)>>,
               \* the accelerated entry points use the order-r eigenvalue / Frobenius: subgroup bases only
               <<"pre.subgroup", o = "mul.gen" \/ InSub(g, Bs)>>,
               <<"canon", CanonJ(g, ev.out.r)>>,
               <<"value", JacIsG(g, ev.out.r, SMul(g, k, Bs))>> >>
    [] OTHER -> << <<"unknown-op", FALSE>> >>

ScalarChecks(ev) ==
  CASE ev.op = "wnaf.recode" ->
         LET d == ev.out.digits  k == Norm(ev.k) IN
         << <<"size", ev.out.size = Len(d) /\ ev.out.size <= ev.bits + 1 /\ ev.out.size >= 0>>,
            <<"recombine", SumPos(d, 1, Zero) = Add(k, SumNeg(d, 1, Zero))>>,
            <<"digits", \A i \in 1..Len(d) : d[i] = 0 \/ (Abs(d[i]) % 2 = 1 /\ Abs(d[i]) < 2 ^ ev.window)>> >>
    [] ev.op = "powx.decompose" ->
         LET c == [i \in 1..4 |-> Norm(ev.out.c[i])]
             x == XAbs
             y == Add(Add(c[1], Mul(c[2], x)), Add(Mul(c[3], Mul(x, x)), Mul(c[4], Mul(x, Mul(x, x)))))
         IN << <<"recombine", ModN(y, RMod) = ModN(Norm(ev.k), RMod)>>,
               <<"width", \A i \in 1..4 : Len(ev.out.c[i]) = 8>> >>
    [] OTHER -> << <<"unknown-op", FALSE>> >>

Fails(ev) == FailsOf(IF ev.op \in {"wnaf.recode", "powx.decompose"} THEN ScalarChecks(ev) ELSE PointChecks(ev))
Init == l \in 1..NLines /\ st = "todo"
Next == /\ st = "todo"
        /\ LET f == Fails(Tr[l]) IN
             /\ st' = "done"
             /\ IF f = {} THEN TRUE ELSE PrintT(<<"FAIL", l, f>>)
        /\ UNCHANGED l
=============================================================================
