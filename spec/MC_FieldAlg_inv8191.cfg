CONSTANTS P = 8191
 Bits = 14
 Mode = "inverse"
INIT Init
NEXT Next
INVARIANT AllGood
CHECK_DEADLOCK FALSE
