------------------------------ MODULE Gen_Marshal ------------------------------
(* Generator (G->I) for marshalling (C15) and the buffer sweeps of C17.
   objects : every kind x slot count 0..L x signature support x encoding, built from multiples of the
             generators in non-normalised Jacobian form, slot indices including multi-byte values;
   bytes   : valid marshalled buffers in which one embedded element at a time is replaced by an invalid
             encoding (off curve, outside the subgroup, coordinate + q, stray flag bit, malformed identity),
             and buffers with a non-0/1 signature byte;
   sweeps  : for each variable-size kind x encoding x first byte x content class, every length 1..NMax. *)
EXTENDS MarshalLayout, Pairing, Json, IOUtils, TLC
Tier == IF "TIER" \in DOMAIN IOEnv THEN IOEnv.TIER ELSE "quick"
What == IF "WHAT" \in DOMAIN IOEnv THEN IOEnv.WHAT ELSE "objects"
Seed == IF "SEED" \in DOMAIN IOEnv THEN atoi(IOEnv.SEED) ELSE 1
Rnd(k) == ModExp(FromNat(5), FromNat(1000003 * Seed + 7919 * k), Q)
Raw1(v) == Pad(FqM!Mont(v), 48)
Raw2(x) == <<Raw1(x[1]), Raw1(x[2])>>
Raw6(x) == <<Raw2(x[1]), Raw2(x[2]), Raw2(x[3])>>
Raw12(x) == <<Raw6(x[1]), Raw6(x[2])>>
\* [k]G as a Jacobian triple with z # 1
J1(k) == LET P == E1!ScalarMul(FromNat(k), G1Gen)  z == Rnd(k) IN <<Raw1(QMul(P[1], QMul(z, z))), Raw1(QMul(P[2], QMul(z, QMul(z, z)))), Raw1(z)>>
J2(k) == LET P == E2!ScalarMul(FromNat(k), G2Gen)  z == <<Rnd(k), Rnd(k + 1)>>  z2 == F2Mul(z, z) IN <<Raw2(F2Mul(P[1], z2)), Raw2(F2Mul(P[2], F2Mul(z2, z))), Raw2(z)>>
A1(k) == LET P == E1!ScalarMul(FromNat(k), G1Gen) IN <<Raw1(P[1]), Raw1(P[2]), 0>>
A2(k) == LET P == E2!ScalarMul(FromNat(k), G2Gen) IN <<Raw2(P[1]), Raw2(P[2]), 0>>
O1 == <<Raw1(Rnd(90)), Raw1(Rnd(91)), Raw1(Zero)>>                    \* the identity, arbitrary x and y
GTv(k) == Raw12(<<<<<<Rnd(k), Rnd(k + 1)>>, <<Rnd(k + 2), Rnd(k + 3)>>, <<Rnd(k + 4), Rnd(k + 5)>>>>, <<<<Rnd(k + 6), Rnd(k + 7)>>, <<Rnd(k + 8), Rnd(k + 9)>>, <<Rnd(k + 10), Rnd(k + 11)>>>>>>)
MaxL == IF Tier = "quick" THEN 3 ELSE 5
\* slot counts at and just above the sizes an implementation might batch by (8, 16, 32)
BigLs == IF Tier = "quick" THEN {17} ELSE {8, 9, 16, 17, 33}
IdxOf(i) == CASE i = 1 -> 0 [] i = 2 -> 2 [] i = 3 -> 16909060 [] i = 4 -> 16909061 [] OTHER -> 1000000 + i          \* 16909060 = 0x01020304
Key(lc, sg) == [sigs |-> sg, a0 |-> J1(3), a1 |-> J2(4), bsig |-> IF sg = 1 THEN J1(5) ELSE O1, idx |-> [i \in 1..lc |-> IdxOf(i)], b |-> [i \in 1..lc |-> J1(10 + i)]]
\* pairing value consistent with g2, g1 (compressed parameters recompute it): e([7]G1, [6]G2) -- supplied by the caller as raw bytes
Params(lc, sg, pv) == [sigs |-> sg, g |-> J2(2), g1 |-> J2(6), g2 |-> J1(7), g3 |-> J1(8), pairing |-> pv, hsig |-> IF sg = 1 THEN J1(9) ELSE O1, h |-> [i \in 1..lc |-> J1(20 + i)]]
Fixed == << <<"wk.ct", [a |-> GTv(100), b |-> J2(11), c |-> J1(12)]>>, <<"wk.sig", [a0 |-> J1(13), a1 |-> J2(14)]>>, <<"wk.msk", [g2alpha |-> J1(15)]>>,
            <<"lq.params", [p |-> J2(16), sp |-> J2(17)]>>, <<"lq.id", [q |-> A1(18)]>>, <<"lq.sk", [q |-> A1(19)]>>, <<"lq.ct", [rp |-> A2(20)]>>,
            <<"lq.msk", [s |-> Pad(Sub(Pow2(256), FromNat(3)), 32)]>>, <<"wk.msk", [g2alpha |-> O1]>>, <<"lq.id", [q |-> <<Raw1(Zero), Raw1(One), 1>>]>> >>
PV == Raw12(F12Exp(GTGen, FromNat(42)))                 \* e([7]G1, [6]G2)
ObjCases ==
  SetToSeq({ [op |-> "mar.object", kind |-> "wk.key", comp |-> c, obj |-> Key(lc, sg), src |-> "gen"] : lc \in (0..MaxL) \cup BigLs, sg \in {0, 1}, c \in {0, 1} })
  \o SetToSeq({ [op |-> "mar.object", kind |-> "wk.params", comp |-> c, obj |-> Params(lc, sg, PV), src |-> "gen"] : lc \in (0..MaxL) \cup BigLs, sg \in {0, 1}, c \in {0, 1} })
  \o SetToSeq({ [op |-> "mar.object", kind |-> Fixed[i][1], comp |-> c, obj |-> Fixed[i][2], src |-> "gen"] : i \in 1..Len(Fixed), c \in {0, 1} })

\* ---- corrupted buffers --------------------------------------------------------------------------------------------
N1 == LET x == CHOOSE v \in 1..40 : QIsSquare(E1!Rhs(FromNat(v))) /\ E1!ScalarMul(RMod, <<FromNat(v), QSqrt(E1!Rhs(FromNat(v)))>>) # <<>>
      IN <<FromNat(x), QSqrt(E1!Rhs(FromNat(x)))>>
N2 == LET x == CHOOSE v \in 1..40 : F2Legendre(E2!Rhs(<<FromNat(v), One>>)) # (0 - 1)
      IN <<<<FromNat(x), One>>, F2Sqrt(E2!Rhs(<<FromNat(x), One>>))>>
SetB(b, i, v) == [b EXCEPT ![i] = v]
\* invalid encodings of a group element, by class
BadEnc(g, c) ==
  LET good == S(Encode(g, IF g = 1 THEN E1!ScalarMul(FromNat(3), G1Gen) ELSE E2!ScalarMul(FromNat(3), G2Gen), c))
      n == Len(good)
  IN { <<"outside-subgroup", S(Encode(g, IF g = 1 THEN N1 ELSE N2, c))>>,
       <<"last-byte-changed", SetB(good, n, (good[n] + 1) % 256)>>,                 \* off the curve / other x (almost surely invalid)
       <<"infinity-flag-on-point", SetB(good, 1, good[1] + 64)>>,
       <<"wrong-form", SetB(good, 1, IF c THEN good[1] - 128 ELSE good[1] + 128)>>,
       <<"stray-bit", IF n > 48 THEN SetB(good, 49, good[49] + 128) ELSE SetB(good, 1, IF c THEN good[1] ELSE good[1] + 32)>> }
     \* every flag-bit combination in the first byte over an all-zero body (identity encodings, well-formed and not): how far the
     \* "rest is zero" scan reads must not depend on the untrusted flags
     \cup { <<"flagzeros-" \o ToString(fb), [k \in 1..n |-> IF k = 1 THEN fb ELSE 0]>> : fb \in {0, 32, 64, 96, 128, 160, 192, 224} }
IsFlagZeros(cls) == \E fb \in {0, 32, 64, 96, 128, 160, 192, 224} : cls = "flagzeros-" \o ToString(fb)
Replace(b, off, e) == [i \in 1..Len(b) |-> IF i > off /\ i <= off + Len(e) THEN e[i - off] ELSE b[i]]
CorruptOf(kind, o, c, sigs, cnt) ==
  LET valid == Layout(kind, o, c)
      es == ElemsOf(kind, c, sigs, cnt)
  IN UNION { { [op |-> "mar.bytes", kind |-> kind, comp |-> (IF c THEN 1 ELSE 0), checked |-> 1, cls |-> bad[1] \o "@elem" \o ToString(i), bytes |-> Replace(valid, es[i][2], bad[2]), src |-> "gen"]
               : bad \in BadEnc(es[i][1], c) } : i \in 1..Len(es) }
     \* the same flag patterns through the non-validating path (only memory safety and the slot count are constrained there)
     \cup UNION { { [op |-> "mar.bytes", kind |-> kind, comp |-> (IF c THEN 1 ELSE 0), checked |-> 0, cls |-> bad[1] \o "@elem" \o ToString(i), bytes |-> Replace(valid, es[i][2], bad[2]), src |-> "gen"]
               : bad \in { bb \in BadEnc(es[i][1], c) : IsFlagZeros(bb[1]) } } : i \in 1..Len(es) }
     \cup { [op |-> "mar.bytes", kind |-> kind, comp |-> (IF c THEN 1 ELSE 0), checked |-> ck, cls |-> "valid", bytes |-> valid, src |-> "gen"] : ck \in {0, 1} }
ByteCases ==
  SetToSeq(UNION { CorruptOf("wk.key", Key(2, sg), c, sg = 1, 2) \cup CorruptOf("wk.params", Params(2, sg, PV), c, sg = 1, 2) : sg \in {0, 1}, c \in BOOLEAN })
  \o SetToSeq(UNION { CorruptOf(Fixed[i][1], Fixed[i][2], c, FALSE, 0) : i \in 1..7, c \in BOOLEAN })
  \* signature byte other than 0/1, truncated and extended buffers, wrong length for fixed-size kinds
  \o SetToSeq({ [op |-> "mar.bytes", kind |-> "wk.key", comp |-> 1, checked |-> 1, cls |-> "sigbyte-" \o ToString(v), bytes |-> SetB(Layout("wk.key", Key(2, 1), TRUE), 1, v), src |-> "gen"] : v \in {2, 255} })
  \o SetToSeq({ [op |-> "mar.bytes", kind |-> k, comp |-> 1, checked |-> 1, cls |-> "length" \o ToString(d),
                 bytes |-> LET b == Layout(k, IF k = "wk.key" THEN Key(2, 1) ELSE Params(2, 1, PV), TRUE) IN IF d < 0 THEN SubSeq(b, 1, Len(b) + d) ELSE b \o [i \in 1..d |-> 0], src |-> "gen"]
               : k \in {"wk.key", "wk.params"}, d \in {0 - 1, 1, 52, 48, 0 - 48, 0 - 52} })
  \o SetToSeq({ [op |-> "mar.bytes", kind |-> "wk.ct", comp |-> 1, checked |-> 1, cls |-> "length" \o ToString(d),
                 bytes |-> LET b == Layout("wk.ct", Fixed[1][2], TRUE) IN IF d < 0 THEN SubSeq(b, 1, Len(b) + d) ELSE b \o [i \in 1..d |-> 0], src |-> "gen"] : d \in {0 - 1, 1} })

\* ---- sweeps over every buffer length ---------------------------------------------------------------------------------
NMax == IF "NMAX" \in DOMAIN IOEnv THEN atoi(IOEnv.NMAX) ELSE 1200
SweepCases ==
  SetToSeq({ [op |-> "mar.sweep", kind |-> k, comp |-> c, checked |-> ck, fb |-> fb, content |-> ct, nmax |-> NMax, seed |-> Seed,
              valid |-> Layout(k, IF k = "wk.key" THEN Key(3, IF fb = 0 THEN 0 ELSE 1) ELSE Params(3, IF fb = 0 THEN 0 ELSE 1, PV), c = 1), src |-> "gen"]
             : k \in {"wk.key", "wk.params"}, c \in {0, 1}, ck \in {0, 1}, fb \in {0, 1, 255}, ct \in {"zeros", "valid", "random"} })
Cases == CASE What = "objects" -> ObjCases [] What = "bytes" -> ByteCases [] OTHER -> SweepCases
ASSUME PrintT(<<"cases", Len(Cases)>>)
ASSUME ndJsonSerialize(IOEnv.OUT, Cases)
=============================================================================
