------------------------------- MODULE Runtime -------------------------------
(* C20: the library keeps no mutable state between calls apart from the CPU-dispatch table written
   once at load time; concurrent calls on distinct output objects give the results of calling them
   one after another.

   The library never blocks and never yields except by invoking a caller-supplied callback
   (random source, hash function): those are its only linearization points.  A call is therefore a
   sequence of SEGMENTS separated by callback invocations; threads interleave at segment
   granularity (the real-code replayer parks every thread inside its callbacks and releases them
   in the order TLC chose, so each behaviour explored here is executed on the implementation).

   State:
     loaded      the static initialisers have run (dispatch table written)
     dispatch    the selected implementation ("none" before load)
     lib         every other writable byte of the library image, abstracted to the last writer
                 ("init" = the load-time image)
     pc[t]       <<index of t's current call, next segment>>; index > number of calls = finished
     acc[t]      what thread t's current call has computed so far (sequence of inputs it has seen)
     result[t]   sequence of results of t's completed calls
   The model is parameterised by the library variant so that TLC shows the invariants are not
   vacuous: Variant = "faithful" (all working storage on the caller's stack) satisfies them in every
   interleaving; "static-buffer" (a segment stores its working data in a library-static object that a
   later segment reads back - the shape of a function-local or file-scope static) and "lazy-init"
   (first call writes a library-static table) violate them. *)
EXTENDS Naturals, Sequences, FiniteSets, TLC

CONSTANTS Threads,        \* set of thread ids
          Calls,          \* Calls[t] = sequence of call names of thread t
          Segs,           \* Segs[t][i] = number of segments of thread t's i-th call (callback invocations + 1)
          Variant,        \* "faithful" | "static-buffer" | "lazy-init"
          Cpu             \* "bmi2" | "base": what CPUID reports at load time

VARIABLES loaded, dispatch, lib, pc, acc, result
vars == <<loaded, dispatch, lib, pc, acc, result>>

\* the sequential meaning of a call: a function of its name and the thread's private inputs only
F(t, c) == <<c, t>>
NCalls(t) == Len(Calls[t])
Done(t) == pc[t][1] > NCalls(t)
Cur(t) == Calls[t][pc[t][1]]

Init == /\ loaded = FALSE /\ dispatch = "none" /\ lib = <<"init">>
        /\ pc = [t \in Threads |-> <<1, 1>>] /\ acc = [t \in Threads |-> <<>>] /\ result = [t \in Threads |-> <<>>]

\* static initialisation: the only write to the dispatch table, before any call
Load == /\ ~loaded /\ loaded' = TRUE /\ dispatch' = Cpu
        /\ UNCHANGED <<lib, pc, acc, result>>

\* thread t runs the next segment of its current call
Segment(t) ==
  /\ loaded /\ ~Done(t)
  /\ LET c == Cur(t)  k == pc[t][2]  last == (k = Segs[t][pc[t][1]]) IN
     \* what the segment computes with: its own inputs, the dispatch table, and (variants) library-static storage
     /\ LET seen == IF Variant = "static-buffer" /\ k > 1 THEN lib ELSE <<c, t>>     \* reads back what "it" stored
        IN acc' = [acc EXCEPT ![t] = IF last THEN <<>> ELSE Append(@, seen)]
     /\ lib' = CASE Variant = "static-buffer" /\ ~last -> <<c, t>>                    \* stores working data in a static object
                 [] Variant = "lazy-init" /\ lib = <<"init">> -> <<"table-built">>            \* first call writes a static table
                 [] OTHER -> lib
     /\ result' = [result EXCEPT ![t] = IF last
                     THEN Append(@, IF Variant = "static-buffer" /\ k > 1 THEN lib ELSE F(t, c))
                     ELSE @]
     /\ pc' = [pc EXCEPT ![t] = IF last THEN <<pc[t][1] + 1, 1>> ELSE <<pc[t][1], k + 1>>]
     /\ UNCHANGED <<loaded, dispatch>>

Next == Load \/ \E t \in Threads : Segment(t)
Spec == Init /\ [][Next]_vars

\* ---- properties ------------------------------------------------------------------------------------------
NoWriteAfterLoad == [][loaded => dispatch' = dispatch]_vars
DispatchConsistent == loaded => dispatch = Cpu
LibStateConstant == lib = <<"init">>
\* every completed call returned the sequential result, whatever the interleaving
ResultIsFunctionOfArgs == \A t \in Threads : \A i \in 1..Len(result[t]) : result[t][i] = F(t, Calls[t][i])
AllDone == \A t \in Threads : Done(t)

\* ---- environment interface --------------------------------------------------------------------------------
\* the only external symbols a core object file may reference: C memory primitives and compiler arithmetic helpers
AllowedExtern == { "memcpy", "memmove", "memset", "memcmp", "bcmp",
                   "__udivti3", "__umodti3", "__multi3", "__divti3", "__modti3", "__ashlti3", "__lshrti3", "__ashrti3",
                   "__udivdi3", "__umoddi3", "__muldi3", "__divdi3", "__moddi3", "__ashldi3", "__lshrdi3", "__ashrdi3", "__udivmoddi4", "__udivmodti4" }
\* ARM EABI spellings of the same helpers (embedded builds)
AllowedAeabi == { "__aeabi_memcpy", "__aeabi_memcpy4", "__aeabi_memcpy8", "__aeabi_memmove", "__aeabi_memset", "__aeabi_memclr", "__aeabi_memclr4", "__aeabi_memclr8",
                  "__aeabi_uldivmod", "__aeabi_ldivmod", "__aeabi_lmul", "__aeabi_llsl", "__aeabi_llsr", "__aeabi_lasr", "__aeabi_uidiv", "__aeabi_uidivmod",
                  "__aeabi_idiv", "__aeabi_idivmod" }
IsAllowedExtern(sym) == sym \in AllowedExtern \cup AllowedAeabi

\* ---- schedules (for replay into the implementation) ---------------------------------------------------------
\* a schedule is the sequence of thread ids in the order their segments ran
TotalSegs(t) == LET RECURSIVE S(_) S(i) == IF i > NCalls(t) THEN 0 ELSE Segs[t][i] + S(i + 1) IN S(1)
=============================================================================
