CONSTANTS Bits = 6
 Win = 2
 KeepCarry = TRUE
INIT Init
NEXT Next
INVARIANTS FitsBuffer DigitsOk Represents LoopInv
CHECK_DEADLOCK FALSE
