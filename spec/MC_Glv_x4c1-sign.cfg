CONSTANTS X = 4
 Variant = "c1-sign"
 ExactRecip = TRUE
INIT Init
NEXT Next
INVARIANTS Recombines NoOverflow ShortOnDomain B2Untruncated
CHECK_DEADLOCK FALSE
