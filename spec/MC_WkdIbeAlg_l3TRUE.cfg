CONSTANTS NSlots = 3
 PR = 1009
 HiddenFix = TRUE
INIT Init
NEXT Next
INVARIANTS CursorsInRange KeyCorrect
CHECK_DEADLOCK FALSE
