----------------------------- MODULE TowerMachine -----------------------------
(* An abstract machine for the straight-line member functions of the extension-field tower, EXTRACTED
   FROM THE SOURCE TEXT of the tree under test (tools/extract_tower.py: every statement of Fq2 / Fq6 /
   Fq12 member functions that is a local declaration or a method call on `this`, a parameter, a local or
   one of their members).  The machine executes those step lists over a memory of Fq cells addressed by
   access paths, binding `this` and the parameters to caller-chosen objects - so the SAME object can be
   bound to the output and to an input (C18: out = a, out = b, out = a = b) - and expanding every call on
   a sub-object into the callee's own extracted steps, down to atomic Fq operations.

   It is evaluated over a toy base field F_QT, where the result can be compared with the quotient-ring
   definition (ExtField) for every element of Fq2 and for samples of Fq6 / Fq12: the multiplication /
   squaring / sparse-product / inversion formulas are polynomial identities, true in the quotient rings
   over any F_QT.  What it decides, for the code as written in the tree:
     value              the function computes the defining polynomial arithmetic (C04, at toy size, all Fq2 inputs)
     alias-independence the same result when the output object is one of the inputs (C18, design level)
     restrict           no call passes one object both as the destination and as a __restrict parameter
     initialised        no cell is read before it is written
   A function the extractor could not express as a step list is reported, not guessed. *)
EXTENDS Naturals, Integers, Sequences, FiniteSets, TLC, Json, IOUtils, SequencesExt

CONSTANT QT                     \* toy prime, QT = 3 (mod 4) is not required: the identities hold in the quotient rings
Progs == ndJsonDeserialize(IOEnv.TOWERPROG)
ProgIdx(cls, name) == { i \in 1..Len(Progs) : Progs[i].cls = cls /\ Progs[i].name = name /\ Progs[i].ovl = 1 /\ "steps" \in DOMAIN Progs[i] }
HasProg(cls, name) == ProgIdx(cls, name) # {}
Prog(cls, name) == Progs[CHOOSE i \in ProgIdx(cls, name) : TRUE]

\* ---- the toy tower, by definition -----------------------------------------------------------------------
TA(a, b) == (a + b) % QT
TS(a, b) == (a + QT - b) % QT
TM(a, b) == (a * b) % QT
TN(a) == (QT - a) % QT
RECURSIVE TPow(_, _)
TPow(a, e) == IF e = 0 THEN 1 ELSE IF e % 2 = 0 THEN TPow(TM(a, a), e \div 2) ELSE TM(a, TPow(a, e - 1))
TInv(a) == TPow(a, QT - 2)            \* 0 |-> 0, as fp_inverse does
T2 == INSTANCE ExtField WITH D <- 2, C <- QT - 1, KZero <- 0, KOne <- 1, KAdd <- TA, KSub <- TS, KMul <- TM, KNeg <- TN
T2Add(a, b) == T2!EAdd(a, b)   T2Sub(a, b) == T2!ESub(a, b)   T2Mul(a, b) == T2!EMul(a, b)   T2Neg(a) == T2!ENeg(a)
T6 == INSTANCE ExtField WITH D <- 3, C <- <<1, 1>>, KZero <- T2!EZero, KOne <- T2!EOne, KAdd <- T2Add, KSub <- T2Sub, KMul <- T2Mul, KNeg <- T2Neg
T6Add(a, b) == T6!EAdd(a, b)   T6Sub(a, b) == T6!ESub(a, b)   T6Mul(a, b) == T6!EMul(a, b)   T6Neg(a) == T6!ENeg(a)
T12 == INSTANCE ExtField WITH D <- 2, C <- <<T2!EZero, T2!EOne, T2!EZero>>, KZero <- T6!EZero, KOne <- T6!EOne, KAdd <- T6Add, KSub <- T6Sub, KMul <- T6Mul, KNeg <- T6Neg

\* ---- object model -------------------------------------------------------------------------------------------
\* the pairing's records of Fq2 / Fq coordinates (the `infinity` flag of the affine types is not an Fq cell and not modelled)
Members(T) == CASE T = "Fq2" -> <<"c0", "c1">> [] T = "Fq6" -> <<"c0", "c1", "c2">> [] T = "Fq12" -> <<"c0", "c1">>
                [] T = "MillerTriple" -> <<"a", "b", "c">> [] T = "G2" -> <<"x", "y", "z">> [] T \in {"G2Affine", "G1Affine"} -> <<"x", "y">> [] OTHER -> <<>>
MemberType(T) == CASE T = "Fq2" -> "Fq" [] T = "Fq6" -> "Fq2" [] T = "Fq12" -> "Fq6" [] T \in {"MillerTriple", "G2", "G2Affine"} -> "Fq2" [] T = "G1Affine" -> "Fq" [] OTHER -> "?"
RECURSIVE Leaves(_)
Leaves(T) == IF T = "Fq" THEN { <<>> } ELSE UNION { { <<Members(T)[k]>> \o s : s \in Leaves(MemberType(T)) } : k \in 1..Len(Members(T)) }
RECURSIVE TypeAfter(_, _)
TypeAfter(T, path) == IF path = <<>> THEN T ELSE TypeAfter(MemberType(T), Tail(path))
Cells(pfx, T) == { pfx \o s : s \in Leaves(T) }
Undef == 0 - 1

\* read / write whole objects as nested tuples (for set-up and comparison)
RECURSIVE ReadObj(_, _, _)
ReadObj(mem, pfx, T) == IF T = "Fq" THEN mem[pfx] ELSE [k \in 1..Len(Members(T)) |-> ReadObj(mem, pfx \o <<Members(T)[k]>>, MemberType(T))]
RECURSIVE FlatObj(_, _, _)
FlatObj(pfx, T, v) == IF T = "Fq" THEN { <<pfx, v>> } ELSE UNION { FlatObj(pfx \o <<Members(T)[k]>>, MemberType(T), v[k]) : k \in 1..Len(Members(T)) }

\* ---- execution ----------------------------------------------------------------------------------------------------
\* state: [mem |-> function from paths to values, faults |-> set of strings, skipped |-> set of strings]
Rd(st, p) == IF p \in DOMAIN st.mem THEN st.mem[p] ELSE Undef
Wr(st, p, v) == [st EXCEPT !.mem = (p :> v) @@ st.mem]
Arith1(f(_), x) == IF x = Undef THEN Undef ELSE f(x)
Arith2(f(_, _), x, y) == IF x = Undef \/ y = Undef THEN Undef ELSE f(x, y)
Fault(st, s) == [st EXCEPT !.faults = @ \cup {s}]
\* a step the machine cannot express: the case is not judged (reported as not executable), never a finding
Skip(st, s) == [st EXCEPT !.skipped = @ \cup {s}]

\* an atomic Fq operation (the Fp member functions; their own aliasing behaviour is C02's subject):
\* Fp::add / subtract declare their second operand __restrict
FqOp(st, op, d, args, where) ==
  LET x == Rd(st, args[1])
      y == IF Len(args) > 1 THEN Rd(st, args[2]) ELSE Undef
      st1 == IF op \in {"add", "subtract"} /\ Len(args) > 1 /\ args[2] = d THEN Fault(st, "restrict-violated in " \o where) ELSE st
      st2 == IF x = Undef \/ (Len(args) > 1 /\ y = Undef) THEN Fault(st1, "uninitialised-read in " \o where) ELSE st1
  IN CASE op = "add" -> Wr(st2, d, Arith2(TA, x, y)) [] op = "subtract" -> Wr(st2, d, Arith2(TS, x, y))
       [] op = "multiply" -> Wr(st2, d, Arith2(TM, x, y)) [] op = "square" -> Wr(st2, d, Arith2(TM, x, x))
       [] op = "negate" -> Wr(st2, d, Arith1(TN, x)) [] op = "multiply2" -> Wr(st2, d, Arith2(TA, x, x))
       [] op = "copy" -> Wr(st2, d, x) [] op = "inverse" -> Wr(st2, d, Arith1(TInv, x))
       [] OTHER -> Skip(st2, "unsupported Fq operation " \o op \o " in " \o where)

Overlaps(p, T, q, U) == Cells(p, T) \cap Cells(q, U) # {}

\* integer arguments (Frobenius powers) travel beside the object arguments; table entries are objects preloaded under <<"$tbl", table, index>>
IntVal(a, ienv) == IF a[2] = "lit" THEN a[3] ELSE ienv[a[3]]
TblIdx(a, ienv) == CASE a[3] = "lit" -> a[4] [] a[3] = "and1" -> ienv[a[4]] % 2 [] OTHER -> ienv[a[4]]
IsInt(a) == a[1] = "$int"
ArgPath(a, env, ienv) == IF a[1] = "$tbl" THEN <<"$tbl", a[2], ToString(TblIdx(a, ienv))>> ELSE IF IsInt(a) THEN <<"$int">> ELSE env[a[1]].pfx \o Tail(a)

RECURSIVE Exec(_, _, _, _, _, _, _), RunSteps(_, _, _, _, _, _, _)
\* run cls::name with `this` bound to thisPfx, the object parameters to argPfxs and the integer parameters to argInts (both indexed by
\* parameter position); depth makes local names unique
Exec(st, cls, name, thisPfx, argPfxs, argInts, depth) ==
  LET pg == Prog(cls, name)
      objPar == { i \in 1..Len(pg.params) : pg.params[i].type # "uint" }
      env == [n \in {"this"} \cup { pg.params[i].name : i \in objPar } \cup { pg.locals[i].name : i \in 1..Len(pg.locals) } |->
                IF n = "this" THEN [pfx |-> thisPfx, ty |-> cls]
                ELSE IF \E i \in objPar : pg.params[i].name = n
                     THEN LET i == CHOOSE j \in objPar : pg.params[j].name = n IN [pfx |-> argPfxs[i], ty |-> pg.params[i].type]
                     ELSE LET i == CHOOSE j \in 1..Len(pg.locals) : pg.locals[j].name = n IN [pfx |-> <<"local", ToString(depth), n>>, ty |-> pg.locals[i].type]]
      ienv == [n \in { pg.params[i].name : i \in (1..Len(pg.params)) \ objPar } |-> argInts[CHOOSE j \in 1..Len(pg.params) : pg.params[j].name = n]]
      \* a callee-side restrict check: a __restrict parameter bound to (part of) the object written
      st0 == IF cls # "pairing" /\ \E i \in objPar : pg.params[i].restrict = 1 /\ Overlaps(thisPfx, cls, argPfxs[i], pg.params[i].type)
             THEN Fault(st, "restrict-violated calling " \o cls \o "::" \o name) ELSE st
  IN RunSteps(st0, pg, env, ienv, 1, depth, cls \o "::" \o name)
RunSteps(st, pg, env, ienv, k, depth, where) ==
  IF k > Len(pg.steps) THEN st
  ELSE LET s == pg.steps[k] IN
       IF s.op = "$idx" THEN      \* n = p < K ? p : p % M
            LET p == IntVal(s.args[1], ienv)  kk == IntVal(s.args[2], ienv)  mm == IntVal(s.args[3], ienv)
            IN RunSteps(st, pg, env, (s.dst[1] :> (IF p < kk THEN p ELSE p % mm)) @@ ienv, k + 1, depth, where)
       ELSE
       LET dPfx == env[s.dst[1]].pfx \o Tail(s.dst)
           dTy == TypeAfter(env[s.dst[1]].ty, Tail(s.dst))
           aPfx == [i \in 1..Len(s.args) |-> ArgPath(s.args[i], env, ienv)]
           aInt == [i \in 1..Len(s.args) |-> IF IsInt(s.args[i]) THEN IntVal(s.args[i], ienv) ELSE 0]
           here == where \o " step " \o ToString(k) \o " (" \o s.op \o ")"
           st1 == IF "targs" \in DOMAIN s THEN Skip(st, "function template " \o s.op \o " is not executable here, in " \o here)
                  ELSE IF dTy = "Fq" THEN FqOp(st, s.op, dPfx, aPfx, here)
                  ELSE IF HasProg(dTy, s.op) /\ Len(Prog(dTy, s.op).params) = Len(s.args) THEN Exec(st, dTy, s.op, dPfx, aPfx, aInt, depth + 1)
                  ELSE Skip(st, "unsupported callee " \o dTy \o "::" \o s.op \o " in " \o here)
       IN RunSteps(st1, pg, env, ienv, k + 1, depth, where)

\* ---- definitional meaning of the extracted functions (those with one) ----------------------------------------------
AddT(T, a, b) == CASE T = "Fq2" -> T2Add(a, b) [] T = "Fq6" -> T6Add(a, b) [] OTHER -> T12!EAdd(a, b)
SubT(T, a, b) == CASE T = "Fq2" -> T2Sub(a, b) [] T = "Fq6" -> T6Sub(a, b) [] OTHER -> T12!ESub(a, b)
MulT(T, a, b) == CASE T = "Fq2" -> T2Mul(a, b) [] T = "Fq6" -> T6Mul(a, b) [] OTHER -> T12!EMul(a, b)
NegT(T, a) == CASE T = "Fq2" -> T2Neg(a) [] T = "Fq6" -> T6Neg(a) [] OTHER -> T12!ENeg(a)
OneT(T) == CASE T = "Fq2" -> T2!EOne [] T = "Fq6" -> T6!EOne [] OTHER -> T12!EOne
ZeroT(T) == CASE T = "Fq2" -> T2!EZero [] T = "Fq6" -> T6!EZero [] OTHER -> T12!EZero
Z2 == T2!EZero
\* ---- Frobenius, by definition: x |-> x^(QT^k), by k-fold QT-th powering in the quotient ring (no closed form, no table) ------------------
\* (folds, not recursive operators: TLC passes operator arguments unevaluated and a recursive operator re-evaluates them exponentially
\*  often; FoldLeft hands its accumulator on as a value)
RECURSIVE BitsMSBOf(_)
BitsMSBOf(e) == IF e = 0 THEN <<>> ELSE Append(BitsMSBOf(e \div 2), e % 2)
PowT(T, a, e) == FoldLeft(LAMBDA acc, bit : IF bit = 1 THEN MulT(T, MulT(T, acc, acc), a) ELSE MulT(T, acc, acc), OneT(T), BitsMSBOf(e))
FrobDef(T, a, k) == FoldLeft(LAMBDA acc, i : PowT(T, acc, QT), a, [i \in 1..k |-> i])
\* the coefficient tables, by the identities MC_Consts checks the real tables against (requires QT = 3 mod 4 and QT = 1 mod 6):
\*   u^(q^k) = (-1)^k u;  v^(q^k) = g3(k) v,  (v^2)^(q^k) = g3(k)^2 v^2,  w^(q^k) = g6(k) w  with  g(k+1) = g(k)^q g(1),  g3(1) = xi^((q-1)/3),  g6(1) = xi^((q-1)/6)
XiT == <<1, 1>>
G31 == PowT("Fq2", XiT, (QT - 1) \div 3)
G61 == PowT("Fq2", XiT, (QT - 1) \div 6)
G3(k) == FoldLeft(LAMBDA acc, i : T2Mul(PowT("Fq2", acc, QT), G31), T2!EOne, [i \in 1..k |-> i])
G6(k) == FoldLeft(LAMBDA acc, i : T2Mul(PowT("Fq2", acc, QT), G61), T2!EOne, [i \in 1..k |-> i])
TableCells == UNION ( { { <<<<"$tbl", "fq2_frobenius_coeff", ToString(k)>>, IF k = 0 THEN 1 ELSE QT - 1>> } : k \in 0..1 }
                 \cup { FlatObj(<<"$tbl", "fq6_frobenius_coeff_c1", ToString(k)>>, "Fq2", G3(k)) : k \in 0..5 }
                 \cup { FlatObj(<<"$tbl", "fq6_frobenius_coeff_c2", ToString(k)>>, "Fq2", T2Mul(G3(k), G3(k))) : k \in 0..5 }
                 \cup { FlatObj(<<"$tbl", "fq12_frobenius_coeff_c1", ToString(k)>>, "Fq2", G6(k)) : k \in 0..11 } )
ConjT(a) == <<a[1], T6Neg(a[2])>>

HasMeaning(cls, name) == name \in {"frobenius_map", "map_to_cyclotomic", "square_cyclotomic", "copy", "add", "subtract", "multiply2", "negate", "multiply", "square", "inverse", "multiply_by_nonresidue", "conjugate",
                                   "multiply_by_c1", "multiply_by_c01", "multiply_by_c014"}
\* expected value; for inverse a relation (see Holds)
Meaning(cls, name, a, b, cs) ==
  CASE name = "copy" -> a [] name = "add" -> AddT(cls, a, b) [] name = "subtract" -> SubT(cls, a, b) [] name = "multiply2" -> AddT(cls, a, a)
    [] name = "negate" -> NegT(cls, a) [] name = "multiply" -> MulT(cls, a, b) [] name = "square" -> MulT(cls, a, a)
    [] name = "multiply_by_nonresidue" -> IF cls = "Fq2" THEN T2Mul(a, <<1, 1>>) ELSE T6Mul(a, <<Z2, T2!EOne, Z2>>)
    [] name = "conjugate" -> <<a[1], T6Neg(a[2])>>
    [] name = "multiply_by_c1" -> T6Mul(a, <<Z2, cs[1], Z2>>)
    [] name = "multiply_by_c01" -> T6Mul(a, <<cs[1], cs[2], Z2>>)
    [] name = "multiply_by_c014" -> T12!EMul(a, << <<cs[1], cs[2], Z2>>, <<Z2, cs[3], Z2>> >>)
    [] OTHER -> a
\* QT is chosen so that the toy tower is a tower of fields (QT = 19: 1 + u is neither a square nor a cube in F_361), hence every
\* non-zero element is invertible; inversion maps zero to zero, as the library's does
\* cs[4] carries the Frobenius power of the case
Holds(cls, name, a, b, cs, r) ==
  CASE name = "inverse" -> (IF a = ZeroT(cls) THEN r = ZeroT(cls) ELSE MulT(cls, a, r) = OneT(cls))
    [] name = "frobenius_map" -> r = FrobDef(cls, a, cs[4] % 12)          \* x^(q^12) = x in the toy tower (a field for QT = 19)
    \* r = a^((q^6 - 1)(q^2 + 1)), stated without the inverse:  r a a^(q^2) = conj(a) conj(a)^(q^2)   (0 |-> 0)
    [] name = "map_to_cyclotomic" -> IF a = ZeroT(cls) THEN r = ZeroT(cls)
                                     ELSE T12!EMul(r, T12!EMul(a, FrobDef(cls, a, 2))) = T12!EMul(ConjT(a), FrobDef(cls, ConjT(a), 2))
    \* the compressed squaring is only claimed on the cyclotomic subgroup: the case's operand is mapped into it first
    [] name = "square_cyclotomic" -> r = T12!EMul(a, a)
    [] OTHER -> r = Meaning(cls, name, a, b, cs)
=============================================================================
