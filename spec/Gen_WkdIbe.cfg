
