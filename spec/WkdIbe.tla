-------------------------------- MODULE WkdIbe --------------------------------
(* Tier B: reference semantics of the WKD-IBE scheme (BBG-HIBE based) "in the exponent"
   (DESIGN.md appendix A).  Every group element is written by its discrete logarithm modulo
   RM to the fixed generators; only linear and bilinear relations are used.

   params   [l, sigs, gam (g), alp, del (g2), eps (g3), eta (h_1..h_l), sig (hsig)];  g1 = alp*gam,
            pairing = alp*gam*del,  master key = alp*del.
   lists    sequences of [idx (0-based), id, omit \in {0,1}], strictly ascending idx; flag = omitAll.
   keys     [kind |-> "key", pat, rho]: pat[i] is <<"F">>, <<"H">> or <<"X", v>>; a key is well formed by
            construction:  a0 = alp*del + rho*(eps + SUM_fixed eta_i v_i),  a1 = rho*gam,
            b_j = rho*eta_j for the free slots j (ascending),  bsig = rho*sig.
   The operators below are the documented behaviour of each API call; Permitted* are the
   documented preconditions on attribute lists.                                              *)
EXTENDS BigNat, Naturals, Sequences, FiniteSets
CONSTANT RM          \* the group order (BigNat)

A(x, y) == AddMod(x, y, RM)
S(x, y) == SubMod(x, y, RM)
M(x, y) == MulMod(x, y, RM)
Red(x)  == ModN(x, RM)

\* ---- attribute lists --------------------------------------------------------------------------------
Listed(L, i)  == \E k \in 1..Len(L) : L[k].idx = i
AttrAt(L, i)  == L[CHOOSE k \in 1..Len(L) : L[k].idx = i]
Sorted(L)     == \A k \in 1..(Len(L) - 1) : L[k].idx < L[k + 1].idx
InRange(L, l) == \A k \in 1..Len(L) : L[k].idx < l
\* the vector a list denotes: value mod RM for listed slots (hidden or not), 0 otherwise
Vec(L, l)     == [i \in 1..l |-> IF Listed(L, i - 1) THEN Red(AttrAt(L, i - 1).id) ELSE Zero]

RECURSIVE Dot(_, _, _)
Dot(eta, v, i) == IF i > Len(eta) THEN Zero ELSE A(M(eta[i], v[i]), Dot(eta, v, i + 1))
\* exponent of  g3 * PROD h_i^(v_i)
H(P, v) == A(P.eps, Dot(P.eta, v, 1))

\* ---- keys -----------------------------------------------------------------------------------------------
IsFixed(s) == s[1] = "X"
IsFree(s)  == s[1] = "F"
IsHidden(s) == s[1] = "H"
FixedVec(K)  == [i \in 1..Len(K.pat) |-> IF IsFixed(K.pat[i]) THEN K.pat[i][2] ELSE Zero]
FreeSlots(K) == SelectSeq([i \in 1..Len(K.pat) |-> i - 1], LAMBDA i : IsFree(K.pat[i + 1]))       \* 0-based, ascending
HiddenSet(K) == { i \in 0..(Len(K.pat) - 1) : IsHidden(K.pat[i + 1]) }
KeyA0(P, K)  == A(M(P.alp, P.del), M(K.rho, H(P, FixedVec(K))))
KeyA1(P, K)  == M(K.rho, P.gam)
KeyB(P, K, i) == M(K.rho, P.eta[i + 1])                                                         \* i 0-based
KeyBsig(P, K) == IF P.sigs THEN M(K.rho, P.sig) ELSE Zero

\* documented use of KeyGen: sorted list inside the slot range
PermittedGen(P, L) == Sorted(L) /\ InRange(L, P.l)
KeyGen(P, L, flag, rho) ==
  [kind |-> "key", rho |-> Red(rho),
   pat |-> [i \in 1..P.l |-> IF Listed(L, i - 1)
                             THEN (IF AttrAt(L, i - 1).omit = 1 THEN <<"H">> ELSE <<"X", Red(AttrAt(L, i - 1).id)>>)
                             ELSE IF flag = 1 THEN <<"H">> ELSE <<"F">>]]
\* documented use of Qualify: every fixed slot of the parent repeated with an equal value (mod RM) and not
\* marked omit; a hidden slot is never given a value (it may be listed again as hidden); free slots: anything
PermittedQual(P, K, L) ==
  /\ Sorted(L) /\ InRange(L, P.l)
  /\ \A i \in 0..(P.l - 1) :
       LET s == K.pat[i + 1] IN
       /\ IsFixed(s) => Listed(L, i) /\ AttrAt(L, i).omit = 0 /\ Red(AttrAt(L, i).id) = s[2]
       /\ (IsHidden(s) /\ Listed(L, i)) => AttrAt(L, i).omit = 1
Qualify(P, K, L, flag, t) ==
  [kind |-> "key", rho |-> A(K.rho, Red(t)),
   pat |-> [i \in 1..P.l |-> LET s == K.pat[i] IN
             IF IsFree(s) THEN (IF Listed(L, i - 1) THEN (IF AttrAt(L, i - 1).omit = 1 THEN <<"H">> ELSE <<"X", Red(AttrAt(L, i - 1).id)>>)
                              ELSE IF flag = 1 THEN <<"H">> ELSE <<"F">>)
             ELSE s]]
NdKeyGen(P, L, flag)    == KeyGen(P, L, flag, One)
NdQualify(P, K, L, flag) == Qualify(P, K, L, flag, Zero)
\* re-randomisation with fresh exponent t; "further = 0" drops every delegation component
Resample(P, K, t, further) ==
  [kind |-> "key", rho |-> A(K.rho, Red(t)),
   pat |-> [i \in 1..P.l |-> IF IsFree(K.pat[i]) /\ further = 0 THEN <<"H">> ELSE K.pat[i]]]

\* ---- ciphertexts, signatures (exponents) ------------------------------------------------------------------
PairingExp(P) == M(M(P.alp, P.gam), P.del)
\* ciphertext made with precomputed exponent h, randomness s, message exponent mu (w.r.t. e(G1,G2))
Encrypt(P, h, s, mu) == [kind |-> "ct", a |-> A(Red(mu), M(Red(s), PairingExp(P))), b |-> M(Red(s), P.gam), c |-> M(Red(s), h)]
\* decrypt with key exponents a0, a1:  a + c*a1 - a0*b
DecryptExp(ct, a0, a1) == S(A(ct.a, M(ct.c, a1)), M(a0, ct.b))
DecryptMasterExp(P, ct) == S(ct.a, M(M(P.alp, P.del), ct.b))
\* signing with key K, attribute list L (or the empty list), precomputed exponent h, message m, randomness s
SignExt(P, K, L, i) == IF ~Listed(L, i) \/ ~IsFree(K.pat[i + 1]) THEN Zero ELSE M(KeyB(P, K, i), Red(AttrAt(L, i).id))
RECURSIVE SumExt(_, _, _, _)
SumExt(P, K, L, i) == IF i >= P.l THEN Zero ELSE A(SignExt(P, K, L, i), SumExt(P, K, L, i + 1))
Sign(P, K, L, h, m, s) ==
  [kind |-> "sig",
   a0 |-> A(A(A(KeyA0(P, K), M(Red(m), KeyBsig(P, K))), SumExt(P, K, L, 0)), M(Red(s), A(M(P.sig, Red(m)), h))),
   a1 |-> A(KeyA1(P, K), M(Red(s), P.gam))]
\* e(a0, g) / e(hsig^m * prod, a1) = pairing
VerifyExp(P, h, sg, m) == S(M(P.gam, sg.a0), M(A(M(P.sig, Red(m)), h), sg.a1)) = PairingExp(P)

\* ---- pattern-level facts (checked by MC_WkdIbe on a toy group order) ----------------------------------------
\* a key opens a ciphertext for list L exactly when the vectors agree (for generic parameters)
Matches(K, L) == FixedVec(K) = Vec(L, Len(K.pat))
\* hidden slots stay hidden under every documented step
HiddenMonotone(K, K2) == HiddenSet(K) \subseteq HiddenSet(K2)
=============================================================================
