
