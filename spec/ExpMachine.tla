------------------------------ MODULE ExpMachine ------------------------------
(* The final exponentiation, executed IN THE EXPONENT at full size.

   pairing.cpp's final_exponentiation and Fq12::map_to_cyclotomic are straight-line sequences of Fq12
   operations (tools/extract_tower.py reads them from the SOURCE TEXT of the tree under test).  Every
   register they touch holds a power of the input a, and each operation acts on the exponent:
        multiply   e1 + e2          square   2 e          copy   e          inverse   -e      (a # 0)
        conjugate  q^6 e            frobenius_map(., k)   q^k e
        exp_by_x_restrict<s, t>     q^6 (|x| >> s) (t ? 2 : 1) e             (x < 0: the result is conjugated)
   all modulo q^12 - 1, the order of Fq12*.  TLC runs the extracted step list on exponents (381-bit
   arithmetic, BigNat) and compares the exponent left in the output with the definition
        final_exponentiation:   3 (q^12 - 1) / r         map_to_cyclotomic:   (q^6 - 1)(q^2 + 1)
   so the verdict holds for EVERY non-zero input at once (given that the tower operations are right,
   which is C04's subject), instead of for the inputs a test happens to draw.  Each function is run
   twice: with the output object distinct from the input, and bound to it (C18).  Reading a register
   nothing has written is a fault (an output read as if it were an input).

   Output lines:  <<"EXP-OK" | "EXP-BAD" | "EXP-FAULT" | "EXP-SKIP", function, alias, detail>>;  EXP-SKIP means the
   function is not (or no longer) expressible as such a step list: reported, not judged. *)
EXTENDS Pairing, Json, IOUtils, TLC, SequencesExt

Progs == ndJsonDeserialize(IOEnv.TOWERPROG)
M12 == Sub(QPow(12), One)
Q6 == ModN(QPow(6), M12)
QK(k) == ModN(QPow(k % 12), M12)
Undef == <<0>>              \* not a normalised BigNat: no arithmetic result equals it
NegM(e) == ModN(Sub(M12, ModN(e, M12)), M12)
XShift(s) == ShiftR(XAbs, s)

Idx(cls, name) == { i \in 1..Len(Progs) : Progs[i].cls = cls /\ Progs[i].name = name /\ Progs[i].ovl = 1 }

\* registers are whole objects (the functions operate on Fq12 objects only); a path with members is not expressible here
Simple(p) == Len(p) = 1
KnownOps == {"multiply", "square", "copy", "inverse", "conjugate", "frobenius_map", "exp_by_x_restrict"}
StepOk(s) == /\ s.op \in KnownOps /\ Simple(s.dst) /\ \A i \in 1..Len(s.args) : s.args[i][1] = "$int" \/ Simple(s.args[i])
             /\ (s.op = "frobenius_map" => Len(s.args) = 2 /\ s.args[2][1] = "$int" /\ s.args[2][2] = "lit")
             /\ (s.op = "exp_by_x_restrict" => "targs" \in DOMAIN s /\ Len(s.targs) = 2)
Expressible(pg) == "steps" \in DOMAIN pg /\ \A k \in 1..Len(pg.steps) : StepOk(pg.steps[k])

\* state: [regs |-> function name -> exponent or Undef, fault |-> BOOLEAN]
Rd(st, n) == IF n \in DOMAIN st.regs THEN st.regs[n] ELSE Undef
Step(st, s, ren) ==
  LET nm(p) == IF p[1] \in DOMAIN ren THEN ren[p[1]] ELSE p[1]
      d == nm(s.dst)
      x == Rd(st, nm(s.args[1]))
      y == IF s.op = "multiply" THEN Rd(st, nm(s.args[2])) ELSE Zero
      bad == x = Undef \/ y = Undef
      v == CASE s.op = "multiply" -> AddMod(x, y, M12)
             [] s.op = "square" -> AddMod(x, x, M12)
             [] s.op = "copy" -> x
             [] s.op = "inverse" -> NegM(x)
             [] s.op = "conjugate" -> MulMod(x, Q6, M12)
             [] s.op = "frobenius_map" -> MulMod(x, QK(s.args[2][3]), M12)
             [] OTHER -> MulMod(MulMod(x, MulMod(XShift(s.targs[1]), IF s.targs[2] = 1 THEN Two ELSE One, M12), M12), IF XIsNegative THEN Q6 ELSE One, M12)
  IN IF bad THEN [st EXCEPT !.fault = TRUE] ELSE [st EXCEPT !.regs = (d :> v) @@ st.regs]

\* run cls::name; the input parameter holds exponent 1; alias = 1 binds the output to the input object
Run(cls, name, outName, inName, alias) ==
  LET pg == Progs[CHOOSE i \in Idx(cls, name) : TRUE]
      ren == IF alias = 1 THEN (outName :> inName) ELSE <<>>
      fin == FoldLeft(LAMBDA st, s : IF st.fault THEN st ELSE Step(st, s, ren), [regs |-> (inName :> One), fault |-> FALSE], pg.steps)
  IN [fault |-> fin.fault, e |-> Rd(fin, IF alias = 1 THEN inName ELSE outName)]

Targets == << [cls |-> "pairing", name |-> "final_exponentiation", out |-> "result", inp |-> "a", want |-> ModN(FinalExponent, M12)],
              [cls |-> "Fq12", name |-> "map_to_cyclotomic", out |-> "this", inp |-> "a", want |-> ModN(Mul(Sub(QPow(6), One), Add(QPow(2), One)), M12)] >>

Verdict(t, alias) ==
  IF Idx(t.cls, t.name) = {} \/ ~Expressible(Progs[CHOOSE i \in Idx(t.cls, t.name) : TRUE]) THEN <<"EXP-SKIP", t.name, alias, "not a step list of whole-object Fq12 operations">>
  ELSE LET r == Run(t.cls, t.name, t.out, t.inp, alias) IN
       IF r.fault \/ r.e = Undef THEN <<"EXP-FAULT", t.name, alias, "a register is read before anything wrote it">>
       ELSE IF r.e = t.want THEN <<"EXP-OK", t.name, alias, "exponent equals the definition">> ELSE <<"EXP-BAD", t.name, alias, "exponent differs from the definition">>

VARIABLES l, st
Init == l \in (1..Len(Targets)) \X {0, 1} /\ st = "todo"
Next == /\ st = "todo" /\ PrintT(Verdict(Targets[l[1]], l[2])) /\ st' = "done" /\ UNCHANGED l
=============================================================================
