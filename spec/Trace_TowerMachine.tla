-------------------------- MODULE Trace_TowerMachine --------------------------
(* Runs the extracted tower functions (TowerMachine over env TOWERPROG) on the cases of env TRACE:
     {"op": "tm.case", "cls", "name", "alias": 0..3, "seed": n}      one evaluation on pseudo-random operands
     {"op": "tm.all2", "cls": "Fq2", "name", "alias", "x": n}        every second operand for the x-th first operand (exhaustive Fq2)
   alias: 0 output distinct, 1 output = a, 2 output = b, 3 output = a = b. *)
EXTENDS TraceBase, TowerMachine
VARIABLES l, st
Rnd(seed, i) == (((seed * 7919 + i * 104729 + 12345) % 1000003) * ((seed + 3 * i + 17) % 1009) + i) % QT
Comp(seed, i) == IF (seed + 5 * i) % 11 = 0 THEN 0 ELSE Rnd(seed, i)               \* zero components now and then
El2(seed, o) == <<Comp(seed, o + 1), Comp(seed, o + 2)>>
El6(seed, o) == <<El2(seed, o), El2(seed, o + 2), El2(seed, o + 4)>>
El12(seed, o) == <<El6(seed, o), El6(seed, o + 6)>>
El(T, seed, o) == CASE T = "Fq2" -> El2(seed, o) [] T = "Fq6" -> El6(seed, o) [] OTHER -> El12(seed, o)
Nth2(n) == <<n % QT, (n \div QT) % QT>>                                              \* enumeration of Fq2

RunCase(cls, name, alias, a, b, cs) ==
  LET pg == Prog(cls, name)
      outP == IF alias \in {1, 3} THEN <<"a">> ELSE IF alias = 2 THEN <<"b">> ELSE <<"out">>
      bP == IF alias = 3 THEN <<"a">> ELSE <<"b">>
      bv == IF alias = 3 THEN a ELSE b
      \* parameters in declaration order: the first is `a`; a second parameter of the class type is `b`; Fq2 parameters of the sparse products are c-objects
      argP == [i \in 1..Len(pg.params) |-> IF i = 1 THEN <<"a">> ELSE IF pg.params[i].type = cls /\ pg.params[i].name = "b" THEN bP ELSE <<"c" \o ToString(i)>>]
      cells == FlatObj(<<"a">>, cls, a) \cup (IF alias = 3 THEN {} ELSE FlatObj(<<"b">>, cls, bv))
               \cup UNION { FlatObj(<<"c" \o ToString(i)>>, "Fq2", cs[i - 1]) : i \in { j \in 2..Len(pg.params) : pg.params[j].type = "Fq2" /\ cls # "Fq2" } }
               \cup (IF alias = 0 THEN { <<p, Undef>> : p \in Cells(<<"out">>, cls) } ELSE {})
      mem0 == [p \in { c[1] : c \in cells } |-> (CHOOSE c \in cells : c[1] = p)[2]]
      fin == Exec([mem |-> mem0, faults |-> {}], cls, name, outP, argP, 0)
      r == ReadObj(fin.mem, outP, cls)
  IN [faults |-> fin.faults, r |-> r, ok |-> Holds(cls, name, a, bv, cs, r)]

Checks(ev) ==
  IF ev.op \notin {"tm.case", "tm.all2"} THEN << <<"unknown-op", FALSE>> >>
  ELSE IF ~HasProg(ev.cls, ev.name) THEN << <<"not-straight-line", FALSE>> >>
  ELSE IF ev.op = "tm.case" THEN
       LET a == El(ev.cls, ev.seed, 0)  b == El(ev.cls, ev.seed, 40)
           cs == <<El2(ev.seed, 80), El2(ev.seed, 90), El2(ev.seed, 100)>>
           res == RunCase(ev.cls, ev.name, ev.alias, a, b, cs)
       IN << <<"no-fault", res.faults = {}>>, <<"value", res.faults # {} \/ ~HasMeaning(ev.cls, ev.name) \/ res.ok>> >>
  ELSE \* every b for the x-th a
       LET a == Nth2(ev.x)
           bad == { y \in 0..(QT * QT - 1) : LET res == RunCase("Fq2", ev.name, ev.alias, a, Nth2(y), <<>>) IN res.faults # {} \/ ~res.ok }
       IN << <<"value", bad = {}>> >>

Fails(ev) == FailsOf(Checks(ev))
Init == l \in 1..NLines /\ st = "todo"
Next == /\ st = "todo"
        /\ LET f == Fails(Tr[l]) IN
             /\ st' = "done"
             /\ IF f = {} THEN TRUE ELSE PrintT(<<"FAIL", l, f>>)
        /\ UNCHANGED l
=============================================================================
