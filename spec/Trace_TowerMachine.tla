-------------------------- MODULE Trace_TowerMachine --------------------------
(* Runs the extracted tower functions (TowerMachine over env TOWERPROG) on the cases of env TRACE:
     {"op": "tm.case", "cls", "name", "alias": 0..3, "seed": n}      one evaluation on pseudo-random operands
     {"op": "tm.all2", "cls": "Fq2", "name", "alias", "x": n}        every second operand for the x-th first operand (exhaustive Fq2)
     {"op": "tm.frob", "cls", "alias": 0|1, "power": k, "seed": n}   frobenius_map with its integer argument; tables by their identities
     {"op": "tm.dbl", "pt": i, "seed": n}                            miller_doubling_step on the i-th point of the toy twist, Jacobian z from seed
     {"op": "tm.addstep", "pt": i, "pt2": j, "seed": n}              miller_addition_step on points i (Jacobian) and j (affine), x_i # x_j
     {"op": "tm.ell", "seed": n}                                     ell (multiplication of f by the line evaluated at P)
   alias: 0 output distinct, 1 output = a, 2 output = b, 3 output = a = b. *)
EXTENDS TraceBase, TowerMachine, SequencesExt
VARIABLES l, st
Rnd(seed, i) == (((seed * 7919 + i * 104729 + 12345) % 1000003) * ((seed + 3 * i + 17) % 1009) + i) % QT
Comp(seed, i) == IF (seed + 5 * i) % 11 = 0 THEN 0 ELSE Rnd(seed, i)               \* zero components now and then
El2(seed, o) == <<Comp(seed, o + 1), Comp(seed, o + 2)>>
El6(seed, o) == <<El2(seed, o), El2(seed, o + 2), El2(seed, o + 4)>>
El12(seed, o) == <<El6(seed, o), El6(seed, o + 6)>>
El(T, seed, o) == CASE T = "Fq2" -> El2(seed, o) [] T = "Fq6" -> El6(seed, o) [] OTHER -> El12(seed, o)
Nth2(n) == <<n % QT, (n \div QT) % QT>>                                              \* enumeration of Fq2

\* definitional inverse in the toy Fq12 (a field for QT = 19), through the norm to Fq6 and Fermat there:
\*   (a0 + a1 w)^(-1) = (a0 - a1 w) / (a0^2 - v a1^2),   n^(-1) = n^(q^6 - 2)
\* Strict(v, F): F applied to the VALUE of v (TLC hands operator arguments and LET definitions on unevaluated and may evaluate them once per use;
\* a tuple is built from values, and FoldLeft passes its elements to the operator as values)
Strict(v, F(_)) == FoldLeft(LAMBDA acc, x : F(x), <<>>, <<v>>)
InvDef12(a) == Strict(T6Sub(T6Mul(a[1], a[1]), T6Mul(T6Mul(a[2], a[2]), <<T2!EZero, T2!EOne, T2!EZero>>)),
                      LAMBDA n : Strict(PowT("Fq6", n, QT * QT * QT * QT * QT * QT - 2), LAMBDA ni : <<T6Mul(a[1], ni), T6Neg(T6Mul(a[2], ni))>>))
CycOf(a) == Strict(InvDef12(a), LAMBDA ai : Strict(T12!EMul(ConjT(a), ai), LAMBDA t : T12!EMul(t, FrobDef("Fq12", t, 2))))

TableMem == [p \in { c[1] : c \in TableCells } |-> (CHOOSE c \in TableCells : c[1] = p)[2]]

RunCase(cls, name, alias, a, b, cs) ==
  LET pg == Prog(cls, name)
      outP == IF alias \in {1, 3} THEN <<"a">> ELSE IF alias = 2 THEN <<"b">> ELSE <<"out">>
      bP == IF alias = 3 THEN <<"a">> ELSE <<"b">>
      bv == IF alias = 3 THEN a ELSE b
      \* parameters in declaration order: the first is `a`; a second parameter of the class type is `b`; Fq2 parameters of the sparse products are c-objects
      argP == [i \in 1..Len(pg.params) |-> IF i = 1 THEN <<"a">> ELSE IF pg.params[i].type = cls /\ pg.params[i].name = "b" THEN bP ELSE <<"c" \o ToString(i)>>]
      cells == FlatObj(<<"a">>, cls, a) \cup (IF alias = 3 THEN {} ELSE FlatObj(<<"b">>, cls, bv))
               \cup UNION { FlatObj(<<"c" \o ToString(i)>>, "Fq2", cs[i - 1]) : i \in { j \in 2..Len(pg.params) : pg.params[j].type = "Fq2" /\ cls # "Fq2" } }
               \cup (IF alias = 0 THEN { <<p, Undef>> : p \in Cells(<<"out">>, cls) } ELSE {})
      mem0 == [p \in { c[1] : c \in cells } |-> (CHOOSE c \in cells : c[1] = p)[2]] @@ TableMem
      argI == [i \in 1..Len(pg.params) |-> IF pg.params[i].type = "uint" /\ Len(cs) >= 4 THEN cs[4] ELSE 0]
      fin == Exec([mem |-> mem0, faults |-> {}, skipped |-> {}], cls, name, outP, argP, argI, 0)
      r == ReadObj(fin.mem, outP, cls)
  IN [faults |-> fin.faults \cup fin.skipped, gating |-> fin.faults, skipped |-> fin.skipped, r |-> r, ok |-> fin.faults # {} \/ fin.skipped # {} \/ fin.skipped # {} \/ Holds(cls, name, a, bv, cs, r)]

\* ---- the Miller-loop steps on a toy twist  E': y^2 = x^3 + 4 xi  over F_QT[u]/(u^2 + 1)  (the formulas do not use the coefficient) -----------
B2T == <<4 % QT, 4 % QT>>
F2All == { <<i, j>> : i \in 0..(QT - 1), j \in 0..(QT - 1) }
T2Inv(a) == PowT("Fq2", a, QT * QT - 2)
T2Cube(x) == T2Mul(T2Mul(x, x), x)
\* (enumerated with plain integer arithmetic: TLC evaluates this once, at start-up)
Sq2(y) == <<(y[1] * y[1] + (QT - 1) * ((y[2] * y[2]) % QT)) % QT, (2 * y[1] * y[2]) % QT>>
Mul2(a, b) == <<(a[1] * b[1] + (QT - 1) * ((a[2] * b[2]) % QT)) % QT, (a[1] * b[2] + a[2] * b[1]) % QT>>
Rhs2(x) == LET c == Mul2(Sq2(x), x) IN <<(c[1] + B2T[1]) % QT, (c[2] + B2T[2]) % QT>>
TwistPoints == SetToSeq(UNION { LET rhs == Rhs2(x) IN { <<x, y>> : y \in { yy \in F2All : Sq2(yy) = rhs } } : x \in F2All })
NPts == Len(TwistPoints)
Z2T == T2!EZero
NzEl2(seed, o) == LET e == El2(seed, o) IN IF e = Z2T THEN <<1, 0>> ELSE e
Jac(pt, z) == <<T2Mul(pt[1], T2Mul(z, z)), T2Mul(pt[2], T2Cube(z)), z>>
Three == <<3 % QT, 0>>   Two2 == <<2 % QT, 0>>
\* the group law of the twist, affine, by chord and tangent
DblAff(pt) == LET lam == T2Mul(T2Mul(Three, T2Mul(pt[1], pt[1])), T2Inv(T2Mul(Two2, pt[2])))
                  x3 == T2Sub(T2Sub(T2Mul(lam, lam), pt[1]), pt[1])
              IN <<x3, T2Sub(T2Mul(lam, T2Sub(pt[1], x3)), pt[2])>>
AddAff(p1, p2) == LET lam == T2Mul(T2Sub(p2[2], p1[2]), T2Inv(T2Sub(p2[1], p1[1])))
                      x3 == T2Sub(T2Sub(T2Mul(lam, lam), p1[1]), p2[1])
                  IN <<x3, T2Sub(T2Mul(lam, T2Sub(p1[1], x3)), p1[2])>>
\* a Jacobian triple denotes an affine point
Denotes(j, pt) == j[3] # Z2T /\ j[1] = T2Mul(pt[1], T2Mul(j[3], j[3])) /\ j[2] = T2Mul(pt[2], T2Cube(j[3]))
\* (a, b, c) is an Fq2-multiple of the line  L = (coefficient of y_P, of x_P, constant)  -- after multiplication by w^3 the line through
\* the untwisted points, evaluated at P, is  c + (b x_P) v + (a y_P) v w:  what ell() multiplies into f at positions 0, 1, 4
Proportional(t, L) == t[1] # Z2T /\ T2Mul(t[1], L[2]) = T2Mul(t[2], L[1]) /\ T2Mul(t[1], L[3]) = T2Mul(t[3], L[1])
RunPairingFn(name, cells, argP) ==
  LET mem0 == [p \in { c[1] : c \in cells } |-> (CHOOSE c \in cells : c[1] = p)[2]]
  IN Exec([mem |-> mem0, faults |-> {}, skipped |-> {}], "pairing", name, <<"nothis">>, argP, [i \in 1..Len(argP) |-> 0], 0)
UndefObj(pfx, T) == { <<p, Undef>> : p \in Cells(pfx, T) }

MillerChecks(ev) ==
  IF ev.op = "tm.dbl" THEN
    IF ~HasProg("pairing", "miller_doubling_step") THEN << <<"not-straight-line", FALSE>> >> ELSE
    LET pt == TwistPoints[(ev.pt % NPts) + 1]   z == NzEl2(ev.seed, 3)   j == Jac(pt, z)
        fin == RunPairingFn("miller_doubling_step", FlatObj(<<"r">>, "G2", j) \cup UndefObj(<<"res">>, "MillerTriple"), << <<"res">>, <<"r">> >>)
        r2 == ReadObj(fin.mem, <<"r">>, "G2")   tri == ReadObj(fin.mem, <<"res">>, "MillerTriple")
        x == pt[1]  y == pt[2]
    IN << <<"no-fault", fin.faults = {}>>, <<"diag.not-executable", fin.skipped = {}>>,
          <<"point", fin.faults # {} \/ fin.skipped # {} \/ IF y = Z2T THEN r2[3] = Z2T ELSE Denotes(r2, DblAff(pt))>>,
          <<"line", fin.faults # {} \/ fin.skipped # {} \/ y = Z2T \/ Proportional(tri, <<T2Mul(Two2, y), T2Neg(T2Mul(Three, T2Mul(x, x))),
                                                                        T2Sub(T2Mul(Three, T2Cube(x)), T2Mul(Two2, T2Mul(y, y)))>>)>> >>
  ELSE IF ev.op = "tm.addstep" THEN
    IF ~HasProg("pairing", "miller_addition_step") THEN << <<"not-straight-line", FALSE>> >> ELSE
    LET p1 == TwistPoints[(ev.pt % NPts) + 1]   p2 == TwistPoints[(ev.pt2 % NPts) + 1]   z == NzEl2(ev.seed, 3)   j == Jac(p1, z)
        fin == RunPairingFn("miller_addition_step", FlatObj(<<"r">>, "G2", j) \cup FlatObj(<<"q">>, "G2Affine", p2) \cup UndefObj(<<"res">>, "MillerTriple"),
                            << <<"res">>, <<"r">>, <<"q">> >>)
        r2 == ReadObj(fin.mem, <<"r">>, "G2")   tri == ReadObj(fin.mem, <<"res">>, "MillerTriple")
        d == T2Sub(p2[1], p1[1])   n == T2Sub(p2[2], p1[2])
    IN IF d = Z2T THEN << <<"no-fault", fin.faults = {}>>, <<"diag.not-executable", fin.skipped = {}>> >>          \* R = +-Q: outside what the Miller loop can reach for points of order r
       ELSE << <<"no-fault", fin.faults = {}>>, <<"diag.not-executable", fin.skipped = {}>>,
               <<"point", fin.faults # {} \/ fin.skipped # {} \/ Denotes(r2, AddAff(p1, p2))>>,
               <<"line", fin.faults # {} \/ fin.skipped # {} \/ Proportional(tri, <<d, T2Neg(n), T2Sub(T2Mul(n, p2[1]), T2Mul(d, p2[2]))>>)>>,
               <<"base-unchanged", fin.faults # {} \/ fin.skipped # {} \/ ReadObj(fin.mem, <<"q">>, "G2Affine") = p2>> >>
  ELSE \* tm.ell
    IF ~HasProg("pairing", "ell") THEN << <<"not-straight-line", FALSE>> >> ELSE
    LET f == El12(ev.seed, 0)   co == <<El2(ev.seed, 40), El2(ev.seed, 50), El2(ev.seed, 60)>>   xp == Comp(ev.seed, 71)   yp == Comp(ev.seed, 72)
        fin == RunPairingFn("ell", FlatObj(<<"f">>, "Fq12", f) \cup FlatObj(<<"co">>, "MillerTriple", co) \cup { <<<<"p", "x">>, xp>>, <<<<"p", "y">>, yp>> },
                            << <<"f">>, <<"co">>, <<"p">> >>)
        line == << <<co[3], T2Mul(co[2], <<xp, 0>>), Z2T>>, <<Z2T, T2Mul(co[1], <<yp, 0>>), Z2T>> >>
    IN << <<"no-fault", fin.faults = {}>>, <<"diag.not-executable", fin.skipped = {}>>, <<"value", fin.faults # {} \/ fin.skipped # {} \/ ReadObj(fin.mem, <<"f">>, "Fq12") = T12!EMul(f, line)>>,
          <<"coefficients-unchanged", fin.faults # {} \/ fin.skipped # {} \/ ReadObj(fin.mem, <<"co">>, "MillerTriple") = co>> >>

Checks(ev) ==
  IF ev.op \in {"tm.dbl", "tm.addstep", "tm.ell"} THEN MillerChecks(ev)
  ELSE IF ev.op = "tm.frob" THEN
       IF ~HasProg(ev.cls, "frobenius_map") THEN << <<"not-straight-line", FALSE>> >> ELSE
       LET a == El(ev.cls, ev.seed, 0)
           res == RunCase(ev.cls, "frobenius_map", ev.alias, a, a, <<Z2T, Z2T, Z2T, ev.power>>)
       IN << <<"no-fault", res.gating = {}>>, <<"diag.not-executable", res.skipped = {}>>, <<"value", res.faults # {} \/ res.ok>> >>
  ELSE IF ev.op \notin {"tm.case", "tm.all2"} THEN << <<"unknown-op", FALSE>> >>
  ELSE IF ~HasProg(ev.cls, ev.name) THEN << <<"not-straight-line", FALSE>> >>
  ELSE IF ev.op = "tm.case" THEN
       Strict(LET a0 == El(ev.cls, ev.seed, 0) IN IF ev.name = "square_cyclotomic" THEN CycOf(IF a0 = T12!EZero THEN T12!EOne ELSE a0) ELSE a0, LAMBDA a :
       LET b == El(ev.cls, ev.seed, 40)
           cs == <<El2(ev.seed, 80), El2(ev.seed, 90), El2(ev.seed, 100)>>
           res == RunCase(ev.cls, ev.name, ev.alias, a, b, cs)
       IN << <<"no-fault", res.gating = {}>>, <<"diag.not-executable", res.skipped = {}>>, <<"value", res.faults # {} \/ ~HasMeaning(ev.cls, ev.name) \/ res.ok>> >>)
  ELSE \* every b for the x-th a
       LET a == Nth2(ev.x)
           bad == { y \in 0..(QT * QT - 1) : LET res == RunCase("Fq2", ev.name, ev.alias, a, Nth2(y), <<>>) IN res.gating # {} \/ ~res.ok }
       IN << <<"value", bad = {}>> >>

Fails(ev) == FailsOf(Checks(ev))
Init == l \in 1..NLines /\ st = "todo"
Next == /\ st = "todo"
        /\ LET f == Fails(Tr[l]) IN
             /\ st' = "done"
             /\ IF f = {} THEN TRUE ELSE PrintT(<<"FAIL", l, f>>)
        /\ UNCHANGED l
=============================================================================
