CONSTANTS Mode = "single"
 Bits = 10
 Win = 2
 X = 3
 Variant = "shipped"
INIT Init
NEXT Next
INVARIANTS Correct TableInBounds BuffersInBounds
CHECK_DEADLOCK FALSE
