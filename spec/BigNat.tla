------------------------------- MODULE BigNat -------------------------------
(***************************************************************************)
(* Natural numbers of unbounded size for TLC (whose Int is 32 bit).       *)
(* A BigNat is a little-endian sequence of base-256 digits without        *)
(* trailing zero digits; <<>> is zero.  The *Def operators below are the  *)
(* semantics.  The un-suffixed operators are what the other modules use;   *)
(* TLC replaces them by the Java class BigNat.class (java.math.BigInteger) *)
(* found next to this file.  mc/BigNatOvr checks Op = OpDef, and           *)
(* mc/BigNatDef checks OpDef against TLC's native Nat arithmetic.          *)
(***************************************************************************)
EXTENDS Naturals, Sequences

LOCAL Digit == 0..255

IsBigNat(s) == /\ DOMAIN s = 1..Len(s)
               /\ \A i \in 1..Len(s) : s[i] \in Digit
               /\ (Len(s) > 0 => s[Len(s)] # 0)

RECURSIVE NormDef(_)
NormDef(s) == IF Len(s) = 0 THEN <<>>
              ELSE IF s[Len(s)] = 0 THEN NormDef(SubSeq(s, 1, Len(s) - 1)) ELSE s

Zero == <<>>
One  == <<1>>
Two  == <<2>>

RECURSIVE FromNatDef(_)
FromNatDef(n) == IF n = 0 THEN <<>> ELSE <<n % 256>> \o FromNatDef(n \div 256)

RECURSIVE ToNatDef(_)
ToNatDef(s) == IF Len(s) = 0 THEN 0 ELSE s[1] + 256 * ToNatDef(Tail(s))

LOCAL Dig(s, i) == IF i <= Len(s) THEN s[i] ELSE 0
LOCAL Max(a, b) == IF a > b THEN a ELSE b

RECURSIVE AddC(_, _, _, _)
AddC(a, b, i, c) ==    \* digits i.. of a+b with incoming carry c
  IF i > Len(a) /\ i > Len(b) THEN (IF c = 0 THEN <<>> ELSE <<c>>)
  ELSE LET t == Dig(a, i) + Dig(b, i) + c
       IN <<t % 256>> \o AddC(a, b, i + 1, t \div 256)
AddDef(a, b) == NormDef(AddC(a, b, 1, 0))

RECURSIVE CmpFrom(_, _, _)
CmpFrom(a, b, i) ==    \* compare digit i downwards
  IF i = 0 THEN 0
  ELSE IF Dig(a, i) < Dig(b, i) THEN 0 - 1
  ELSE IF Dig(a, i) > Dig(b, i) THEN 1
  ELSE CmpFrom(a, b, i - 1)
CmpDef(a, b) == CmpFrom(a, b, Max(Len(a), Len(b)))     \* -1, 0, 1

RECURSIVE SubB(_, _, _, _)
SubB(a, b, i, br) ==
  IF i > Len(a) THEN <<>>
  ELSE LET t == Dig(a, i) - Dig(b, i) - br
       IN IF t < 0 THEN <<t + 256>> \o SubB(a, b, i + 1, 1)
                   ELSE <<t>> \o SubB(a, b, i + 1, 0)
SubDef(a, b) == NormDef(SubB(a, b, 1, 0))              \* requires a >= b

RECURSIVE MulDigit(_, _, _, _)
MulDigit(a, d, i, c) ==
  IF i > Len(a) THEN (IF c = 0 THEN <<>> ELSE <<c>>)
  ELSE LET t == a[i] * d + c IN <<t % 256>> \o MulDigit(a, d, i + 1, t \div 256)

RECURSIVE MulFrom(_, _, _)
MulFrom(a, b, j) ==
  IF j > Len(b) THEN <<>>
  ELSE AddDef(MulDigit(a, b[j], 1, 0), <<0>> \o MulFrom(a, b, j + 1))
MulDef(a, b) == NormDef(MulFrom(a, b, 1))

\* bit i (0 = least significant)
BitDef(a, i) == (Dig(a, (i \div 8) + 1) \div (2 ^ (i % 8))) % 2

RECURSIVE BitLenDef(_)
BitLenDef(a) == IF Len(a) = 0 THEN 0
                ELSE LET top == a[Len(a)]
                         RECURSIVE w(_)
                         w(x) == IF x = 0 THEN 0 ELSE 1 + w(x \div 2)
                     IN 8 * (Len(a) - 1) + w(top)

Dbl(a) == AddDef(a, a)

\* schoolbook binary long division: returns <<quotient, remainder>>
RECURSIVE DivModFrom(_, _, _, _, _)
DivModFrom(a, m, i, q, r) ==
  IF i < 0 THEN <<q, r>>
  ELSE LET r2 == AddDef(Dbl(r), IF BitDef(a, i) = 1 THEN One ELSE Zero)
       IN IF CmpDef(r2, m) >= 0
          THEN DivModFrom(a, m, i - 1, AddDef(Dbl(q), One), SubDef(r2, m))
          ELSE DivModFrom(a, m, i - 1, Dbl(q), r2)
DivModDef(a, m) == DivModFrom(a, m, BitLenDef(a) - 1, Zero, Zero)   \* m # 0
DivDef(a, m)  == DivModDef(a, m)[1]
ModNDef(a, m) == DivModDef(a, m)[2]

RECURSIVE ModExpFrom(_, _, _, _, _)
ModExpFrom(b, e, m, i, acc) ==
  IF i < 0 THEN acc
  ELSE LET s == ModNDef(MulDef(acc, acc), m)
       IN ModExpFrom(b, e, m, i - 1,
                     IF BitDef(e, i) = 1 THEN ModNDef(MulDef(s, b), m) ELSE s)
ModExpDef(b, e, m) == ModExpFrom(ModNDef(b, m), e, m, BitLenDef(e) - 1, ModNDef(One, m))

\* the inverse is *characterised*, not computed: unique x < m with a*x = 1 (mod m); Zero if none
IsModInv(a, m, x) == CmpDef(x, m) < 0 /\ ModNDef(MulDef(a, x), m) = ModNDef(One, m)

ShiftRDef(a, k) == DivDef(a, ModExpDef(Two, FromNatDef(k), <<0, 0, 0, 0, 0, 0, 0, 0, 0, 0, 0, 0, 0, 0, 0, 0, 1>>))
   \* (only used in the self-check for k < 128)

(***************************************************************************)
(* Operators used by the other modules (overridden by BigNat.class).       *)
(***************************************************************************)
Norm(s)        == NormDef(s)
FromNat(n)     == FromNatDef(n)
ToNat(s)       == ToNatDef(s)
Add(a, b)      == AddDef(a, b)
Sub(a, b)      == SubDef(a, b)
Cmp(a, b)      == CmpDef(a, b)
Mul(a, b)      == MulDef(a, b)
Div(a, m)      == DivDef(a, m)
ModN(a, m)     == ModNDef(a, m)
ModExp(b, e, m) == ModExpDef(b, e, m)
Bit(a, i)      == BitDef(a, i)
BitLen(a)      == BitLenDef(a)
\* x with a*x = 1 (mod m) for gcd(a,m)=1, m prime here; Zero when a = 0 (mod m).
\* Definition via Fermat (m prime): a^(m-2).
ModInv(a, m)   == ModExpDef(a, SubDef(m, Two), m)
\* 2^k
Pow2(k)        == [i \in 1..((k \div 8) + 1) |-> IF i = (k \div 8) + 1 THEN 2 ^ (k % 8) ELSE 0]
ShiftR(a, k)   == DivDef(a, Pow2(k))
ShiftL(a, k)   == MulDef(a, Pow2(k))
ModPow2(a, k)  == ModNDef(a, Pow2(k))

Lt(a, b) == Cmp(a, b) < 0
Le(a, b) == Cmp(a, b) <= 0
IsZero(a) == Norm(a) = <<>>

\* modular helpers
AddMod(a, b, m) == ModN(Add(a, b), m)
SubMod(a, b, m) == ModN(Sub(Add(a, m), ModN(b, m)), m)      \* a < m assumed or reduced by caller
MulMod(a, b, m) == ModN(Mul(a, b), m)
NegMod(a, m)    == ModN(Sub(m, ModN(a, m)), m)

(***************************************************************************)
(* Fixed-width byte strings.                                               *)
(***************************************************************************)
\* little-endian, exactly n bytes (value must fit)
Pad(a, n)   == [i \in 1..n |-> IF i <= Len(a) THEN a[i] ELSE 0]
PadDef(a, n) == [i \in 1..n |-> IF i <= Len(a) THEN a[i] ELSE 0]
RevDef(s)   == [i \in 1..Len(s) |-> s[Len(s) + 1 - i]]
Rev(s)      == RevDef(s)
FromLE(bytes) == Norm(bytes)
FromBE(bytes) == Norm(Rev(bytes))
ToBE(a, n)    == Rev(Pad(a, n))
ToLE(a, n)    == Pad(a, n)
=============================================================================
