
