CONSTANTS P = 251
 Bits = 9
 Mode = "inverse"
INIT Init
NEXT Next
INVARIANT AllGood
CHECK_DEADLOCK FALSE
