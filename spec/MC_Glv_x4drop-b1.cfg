CONSTANTS X = 4
 Variant = "drop-b1"
 ExactRecip = TRUE
INIT Init
NEXT Next
INVARIANTS Recombines NoOverflow ShortOnDomain B2Untruncated
CHECK_DEADLOCK FALSE
