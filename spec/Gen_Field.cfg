
