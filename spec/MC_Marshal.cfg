CONSTANTS MaxN = 4096
 MaxL = 80
INIT Init
NEXT Next
INVARIANTS ReadsInside WritesInside ExactLength
CHECK_DEADLOCK FALSE
