------------------------------ MODULE Gen_Curve ------------------------------
(* Generator (G->I) for the curve layer.
   C05: scenario tuples  group x operation x relation (generic, a=b, a=-b, a=O, b=O, both O, same
        point in another representative, points outside the subgroup) x representatives
        (z in {1, 2, q-1, pseudo-random}; identity as (0,1,0) or (x,y,0) with arbitrary x,y) x API x
        alias pattern, with witnesses built by the affine group law from multiples of the generators.
   C06: scalar families (small values, 2^k +- j at every word boundary up to the width, multiples of
        r and neighbours, powers of |x| and neighbours, cofactors, pseudo-random) x routine x width x
        base (generator, non-normalised multiple, affine, curve point outside the subgroup).
   WHAT = "points" | "scalars" selects the part.                                              *)
EXTENDS Curves381, Json, IOUtils, TLC
Tier == IF "TIER" \in DOMAIN IOEnv THEN IOEnv.TIER ELSE "quick"
What == IF "WHAT" \in DOMAIN IOEnv THEN IOEnv.WHAT ELSE "points"
Seed == IF "SEED" \in DOMAIN IOEnv THEN atoi(IOEnv.SEED) ELSE 1
FqF == INSTANCE PrimeField WITH P <- QMod, NBytes <- 48
Rnd(k) == ModExp(FromNat(5), FromNat(1000003 * Seed + 7919 * k), Q)

Raw1(v) == Pad(FqF!Mont(v), 48)
Raw2(x) == <<Raw1(x[1]), Raw1(x[2])>>
RawF(g, x) == IF g = 1 THEN Raw1(x) ELSE Raw2(x)
FOneG(g)  == IF g = 1 THEN One ELSE F2!EOne
FZeroG(g) == IF g = 1 THEN Zero ELSE F2!EZero
FMulG(g, a, b) == IF g = 1 THEN QMul(a, b) ELSE F2Mul(a, b)
EmbG(g, v) == IF g = 1 THEN v ELSE <<v, Rnd(77)>>             \* a z value for the group's field
SMul(g, k, P) == IF g = 1 THEN E1!ScalarMul(k, P) ELSE E2!ScalarMul(k, P)
NegG(g, P) == IF g = 1 THEN E1!PNeg(P) ELSE E2!PNeg(P)
Gen(g) == IF g = 1 THEN G1Gen ELSE G2Gen

\* a Jacobian representative (raw) of the affine point P with the given z; identity: z = 0 and the given x, y
JacRaw(g, P, z) ==
  IF P = <<>> THEN <<RawF(g, z[1]), RawF(g, z[2]), RawF(g, FZeroG(g))>>     \* z is a pair <<x, y>> here
  ELSE LET z2 == FMulG(g, z, z) IN <<RawF(g, FMulG(g, P[1], z2)), RawF(g, FMulG(g, P[2], FMulG(g, z2, z))), RawF(g, z)>>
AffRaw(g, P) == IF P = <<>> THEN <<RawF(g, FZeroG(g)), RawF(g, FOneG(g)), 1>> ELSE <<RawF(g, P[1]), RawF(g, P[2]), 0>>
AffRawJunk(g, P) == <<RawF(g, EmbG(g, Rnd(5))), RawF(g, EmbG(g, Rnd(6))), 1>>  \* identity with arbitrary x, y

\* for G2 also z in the base field (2, -1: imaginary part zero) and z with real part one (1 + c u): "z = 1" tested on one coordinate only
ZSub(g) == IF g = 1 THEN {} ELSE { <<Two, Zero>>, <<Sub(Q, One), Zero>>, <<One, Rnd(13)>> }
\* z values whose STORED form (the Montgomery residue) is sparse: only words above bit 192 set, resp. only the low word - "z is zero" and
\* "z is one" are decided over all the words of every coordinate
St(v) == FqF!Val(v)                                            \* the field value whose stored form is v
ZSparse(g) == IF g = 1 THEN { St(Pow2(320)), St(Add(Pow2(192), Pow2(380))), St(FromNat(3)) }
              ELSE { <<St(Pow2(320)), St(Add(Pow2(192), Pow2(380)))>>, <<Zero, St(Pow2(320))>>, <<St(Pow2(256)), Zero>> }
ZSparseQ(g) == IF g = 1 THEN { St(Pow2(320)) } ELSE { <<St(Pow2(320)), St(Add(Pow2(192), Pow2(380)))>> }
ZReps(g) == IF Tier = "quick" THEN { FOneG(g), EmbG(g, Sub(Q, One)), EmbG(g, Rnd(11)) } \cup ZSub(g) \cup ZSparseQ(g)
            ELSE { FOneG(g), EmbG(g, Two), EmbG(g, Sub(Q, One)), EmbG(g, Rnd(11)), EmbG(g, Rnd(12)) } \cup ZSub(g) \cup ZSparse(g)
OReps(g) == { <<FZeroG(g), FOneG(g)>>, <<EmbG(g, Rnd(21)), EmbG(g, Rnd(22))>> }
Reps(g, P) == IF P = <<>> THEN { JacRaw(g, P, xy) : xy \in OReps(g) } ELSE { JacRaw(g, P, z) : z \in ZReps(g) }
AffReps(g, P) == IF P = <<>> THEN { AffRaw(g, P), AffRawJunk(g, P) } ELSE { AffRaw(g, P) }

\* a curve point outside the order-r subgroup: smallest small x with x^3 + b a square (not cofactor-cleared)
N1 == LET x == CHOOSE v \in 1..40 : QIsSquare(E1!Rhs(FromNat(v))) /\ E1!ScalarMul(RMod, <<FromNat(v), QSqrt(E1!Rhs(FromNat(v)))>>) # <<>>
      IN <<FromNat(x), QSqrt(E1!Rhs(FromNat(x)))>>
N2 == LET x == CHOOSE v \in 1..40 : F2Legendre(E2!Rhs(<<FromNat(v), One>>)) # (0 - 1)
      IN <<<<FromNat(x), One>>, F2Sqrt(E2!Rhs(<<FromNat(x), One>>))>>
NonSub(g) == IF g = 1 THEN N1 ELSE N2
ASSUME E1!OnCurve(N1) /\ E2!OnCurve(N2) /\ E2!ScalarMul(RMod, N2) # <<>>

\* curve points with a zero coordinate: (0, 2) and (0, -2) on E1 (order 3, outside the subgroup; E2 has no point over x = 0 and neither curve
\* has one over y = 0).  A finite point is told from the identity by its flag / its z, never by a coordinate being zero.
ZeroX(g) == IF g = 1 THEN { <<Zero, Two>>, <<Zero, Sub(QMod, Two)>> } ELSE {}
ASSUME \A P \in ZeroX(1) : E1!OnCurve(P)
P3(g) == SMul(g, FromNat(3), Gen(g))
P5(g) == SMul(g, FromNat(5), Gen(g))
\* relation classes: <<name, point a, point b>>
Rels(g) == { <<"generic", P3(g), P5(g)>>, <<"equal", P3(g), P3(g)>>, <<"opposite", P3(g), NegG(g, P3(g))>>,
             <<"aO", <<>>, P5(g)>>, <<"bO", P3(g), <<>>>>, <<"bothO", <<>>, <<>>>>,
             <<"nonsub-generic", NonSub(g), P5(g)>>, <<"nonsub-equal", NonSub(g), NonSub(g)>>, <<"nonsub-opposite", NonSub(g), NegG(g, NonSub(g))>>,
             <<"nonsub-double-vs-sum", SMul(g, Two, NonSub(g)), NonSub(g)>> }
           \cup UNION { { <<"xzero-generic", T, P5(g)>>, <<"xzero-generic", P3(g), T>>, <<"xzero-equal", T, T>>, <<"xzero-opposite", T, NegG(g, T)>> } : T \in ZeroX(g) }
Apis == {"cpp", "c"}

BinCases(g, o, RA(_, _), RB(_, _), aliases) ==
  UNION { { [op |-> o, g |-> g, rel |-> rl[1], a |-> ra, b |-> rb, alias |-> al, api |-> api, src |-> "gen"] :
            ra \in RA(g, rl[2]), rb \in RB(g, rl[3]), al \in aliases, api \in Apis } : rl \in Rels(g) }
PointCases(g) ==
  SetToSeq(BinCases(g, "pt.add", Reps, Reps, {0, 1}))
  \o SetToSeq(BinCases(g, "pt.add_mixed", Reps, AffReps, {0, 1}))
  \o SetToSeq(BinCases(g, "pt.eq", Reps, Reps, {0}))
  \o SetToSeq(BinCases(g, "pt.aeq", AffReps, AffReps, {0}))
  \* the identity flag decides, not the coordinate fields: an identity record that still holds the coordinates of the other operand
  \* (an object that held P and was then marked as the identity), in both argument orders
  \o SetToSeq(UNION { LET pr == AffRaw(g, pt)  idp == <<pr[1], pr[2], 1>> IN
                      { [op |-> "pt.aeq", g |-> g, rel |-> "identity-holding-operand", a |-> x[1], b |-> x[2], alias |-> 0, api |-> api, src |-> "gen"] :
                        x \in { <<pr, idp>>, <<idp, pr>>, <<idp, idp>> }, api \in Apis } : pt \in { P3(g), NonSub(g) } })
  \o SetToSeq(UNION { LET pr == AffRaw(g, pt)  idp == <<pr[1], pr[2], 1>> IN
                      { [op |-> "pt.add_mixed", g |-> g, rel |-> "identity-holding-operand", a |-> JacRaw(g, pt, FOneG(g)), b |-> idp, alias |-> al, api |-> api, src |-> "gen"] : al \in {0, 1}, api \in Apis }
                    : pt \in { P3(g), NonSub(g) } })
  \o SetToSeq({ [op |-> o, g |-> g, rel |-> "unary", a |-> ra, alias |-> al, api |-> api, src |-> "gen"] :
             o \in {"pt.dbl", "pt.neg", "pt.to_affine", "pt.is_zero"}, ra \in UNION { Reps(g, x) : x \in { P3(g), <<>>, NonSub(g) } \cup ZeroX(g) }, al \in {0, 1}, api \in Apis })
  \o SetToSeq({ [op |-> o, g |-> g, rel |-> "unary", a |-> ra, alias |-> al, api |-> api, src |-> "gen"] :
             o \in {"pt.from_affine", "pt.aneg", "pt.on_curve"}, ra \in UNION { AffReps(g, x) : x \in { P3(g), <<>>, NonSub(g) } \cup ZeroX(g) }, al \in {0, 1}, api \in Apis })
  \o SetToSeq({ [op |-> o, g |-> g, rel |-> "unary", a |-> ra, alias |-> al, api |-> "cpp", src |-> "gen"] :
             o \in {"pt.copy", "pt.set"}, ra \in UNION { Reps(g, x) : x \in { P3(g), <<>> } }, al \in {0, 1} })
  \o SetToSeq({ [op |-> o, g |-> g, rel |-> "unary", a |-> ra, alias |-> al, api |-> "cpp", src |-> "gen"] :
             o \in {"pt.acopy", "pt.aset"}, ra \in UNION { AffReps(g, x) : x \in { P3(g), <<>> } }, al \in {0, 1} })
  \o (IF g = 1 THEN SetToSeq({ [op |-> "pt.endo", g |-> g, rel |-> "unary", a |-> ra, alias |-> al, api |-> "cpp", src |-> "gen"] :
                               ra \in UNION { Reps(g, x) : x \in { P3(g), P5(g), <<>> } }, al \in {0, 1} })
       ELSE SetToSeq({ [op |-> "pt.frob", g |-> g, rel |-> "unary", a |-> ra, power |-> k, alias |-> al, api |-> "cpp", src |-> "gen"] :
                       ra \in UNION { Reps(g, x) : x \in { P3(g), P5(g), <<>> } }, k \in {0, 1}, al \in {0, 1} }))
  \o SetToSeq({ [op |-> "pt.on_curve", g |-> g, rel |-> "offcurve", a |-> <<RawF(g, P3(g)[1]), RawF(g, P5(g)[2]), 0>>, alias |-> 0, api |-> "cpp", src |-> "gen"] })
  \o SetToSeq({ [op |-> "pt.in_subgroup", g |-> g, rel |-> "unary", a |-> AffRaw(g, x), alias |-> 0, api |-> "cpp", src |-> "gen"] : x \in { P3(g), NonSub(g), SMul(g, Sub(RMod, One), Gen(g)) } })

\* ---- scalar families --------------------------------------------------------------------------------
Near(k, js) == { Sub(Pow2(k), FromNat(j)) : j \in js \ {0} } \cup { Add(Pow2(k), FromNat(j)) : j \in js }
Js == IF Tier = "quick" THEN {0, 1, 2, 15, 16, 17} ELSE 0..17
RFam == { Sub(RMod, One), RMod, Add(RMod, One), Sub(Add(RMod, RMod), One), Add(RMod, RMod), Add(Add(RMod, RMod), One), ShiftR(RMod, 1), Add(ShiftR(RMod, 1), One) }
XFam == LET x == XAbs  x2 == Mul(x, x)  x3 == Mul(x2, x) IN
        { Sub(x, One), x, Add(x, One), Sub(x2, One), x2, Add(x2, One), Sub(x3, One), x3, Add(x3, One),
          Mul(x3, Sub(x, One)), Sub(Mul(x3, x), One), Mul(x3, FromNat(65535)) }
\* digit patterns of the base-|x| decomposition c0 + c1|x| + c2|x|^2 + c3|x|^3 (after at most one subtraction of r): every digit
\* at 0 / 1 / |x|-1, with and without the subtraction, and a top digit that exceeds |x| (scalars >= r + |x|^4, i.e. about 2r)
DigitVal(d) == Add(Add(d[1], Mul(d[2], XAbs)), Add(Mul(d[3], Mul(XAbs, XAbs)), Mul(d[4], Mul(XAbs, Mul(XAbs, XAbs)))))
DigitChoices == { Zero, One, Sub(XAbs, One) }
DigitFamFull == { s \in { Add(IF b = 1 THEN RMod ELSE Zero, DigitVal(<<d0, d1, d2, d3>>)) : b \in {0, 1}, d0 \in DigitChoices, d1 \in DigitChoices, d2 \in DigitChoices,
                                                                                         d3 \in DigitChoices \cup { XAbs, Add(XAbs, FromNat(5)) } } : Lt(s, Pow2(256)) }
DigitFamCore == { s \in { Add(IF b = 1 THEN RMod ELSE Zero, DigitVal(<<d0, d1, Zero, d3>>)) : b \in {0, 1}, d0 \in { Zero, Sub(XAbs, One) }, d1 \in { Zero, FromNat(5) },
                                                                                          d3 \in { One, Sub(XAbs, One), XAbs, Add(XAbs, FromNat(5)) } } : Lt(s, Pow2(256)) }
\* scalars in which a leading part is an exact multiple of |x| (the division by |x| then meets a partial remainder equal to the divisor)
DivFam256 == LET x == XAbs IN
  { Add(Mul(x, Pow2(64)), Pow2(63)), Add(Mul(Mul(FromNat(3), x), Pow2(62)), Sub(Pow2(62), One)), Add(Mul(Mul(FromNat(5), x), Pow2(128)), Pow2(127)),
    Add(Mul(x, Pow2(180)), Sub(Pow2(180), One)), Add(Mul(Mul(FromNat(65537), x), Pow2(100)), Pow2(99)),
    Add(FromNat(7), Mul(x, Add(Mul(x, Pow2(64)), Pow2(63)))), Add(RMod, Add(Mul(x, Pow2(64)), Pow2(63))), Sub(Mul(x, Pow2(64)), One) }
\* small multiples of the eigenvalue structure: k = j x^2 + e (mod r) decomposes into tiny parts (c0, c1) = (e, -j), for which the interleaved
\* loop meets an accumulator equal (or opposite) to the next addend -- the doubling / identity branches of the addition inside the fast loop
EigenFam == LET x2 == Mul(XAbs, XAbs) IN
  UNION { { Add(Mul(FromNat(j), x2), FromNat(e)), Sub(Mul(FromNat(j), x2), FromNat(e)), Add(RMod, Add(Mul(FromNat(j), x2), FromNat(e))) } : j \in 1..4, e \in 0..2 }
  \cup { Sub(Add(RMod, RMod), FromNat(2)), Sub(Add(RMod, RMod), FromNat(3)), Sub(RMod, Mul(Two, x2)), Sub(RMod, Add(Mul(Two, x2), One)) }
Scalars(bits) ==
  { s \in { Zero, One, Two, FromNat(15), FromNat(16), FromNat(17), FromNat(31), FromNat(32), FromNat(33) }
          \cup UNION { Near(k, Js) : k \in { kk \in {32, 64, 128, 192, 255, 256, 384, 511} : kk < bits } }
          \cup { Sub(Pow2(bits), FromNat(j)) : j \in Js \ {0} }
          \cup RFam \cup XFam \cup EigenFam \cup { H1, H2 } \cup { ModN(Pow2(256), RMod), ModN(Pow2(512), RMod) }
          \cup { ModPow2(Mul(Rnd(900 + i), Rnd(950 + i)), bits) : i \in 1..(IF Tier = "quick" THEN 2 ELSE 8) }
      : Lt(s, Pow2(bits)) }

Bases(g) == LET T == SMul(g, FromNat(1234567), Gen(g)) IN
  { [affine |-> 0, base |-> JacRaw(g, Gen(g), FOneG(g)), sub |-> 1],
    [affine |-> 0, base |-> JacRaw(g, T, EmbG(g, Rnd(31))), sub |-> 1],
    [affine |-> 1, base |-> AffRaw(g, T), sub |-> 1],
    [affine |-> 0, base |-> JacRaw(g, NonSub(g), EmbG(g, Rnd(32))), sub |-> 0] }

\* the identity as base, in every form a caller can hold it: the affine record (canonical and with arbitrary coordinates under the flag),
\* the Jacobian record (z = 0 with canonical and with arbitrary x, y)
IdBases(g) == { [affine |-> 1, base |-> AffRaw(g, <<>>)], [affine |-> 1, base |-> AffRawJunk(g, <<>>)] }
              \cup { [affine |-> 0, base |-> JacRaw(g, <<>>, xy)] : xy \in OReps(g) }
IdScalars(bits) == { s \in { Zero, One, Two, FromNat(3), Sub(RMod, One), Sub(Pow2(bits), One), ModPow2(Rnd(901), bits) } : Lt(s, Pow2(bits)) }
ScalarCases(g) ==
  SetToSeq({ [op |-> "mul.fast", g |-> g, base |-> b.base, affine |-> b.affine, k |-> Pad(s, 32), alias |-> al, api |-> api, src |-> "gen"] :
             b \in { bb \in Bases(g) : bb.sub = 1 }, s \in Scalars(256), al \in {0, 1}, api \in Apis })
  \o SetToSeq({ [op |-> "mul.fast", g |-> g, base |-> b.base, affine |-> b.affine, k |-> Pad(s, 32), alias |-> al, api |-> api, cls |-> "identity-base", src |-> "gen"] :
             b \in IdBases(g), s \in IdScalars(256), al \in {0, 1}, api \in Apis })
  \o SetToSeq(UNION { { [op |-> "mul.gen", g |-> g, routine |-> rt, bits |-> bits, base |-> b.base, affine |-> b.affine, k |-> Pad(s, bits \div 8), alias |-> 0, api |-> "cpp",
                          cls |-> "identity-base", src |-> "gen"] :
             rt \in {"wnaf", "wnaf_s", "doubleadd", "table", "multiply"}, b \in IdBases(g), s \in IdScalars(bits) } : bits \in {128, 256} })
  \o SetToSeq(UNION { { [op |-> "mul.gen", g |-> g, routine |-> rt, bits |-> bits, base |-> b.base, affine |-> b.affine, k |-> Pad(s, bits \div 8), alias |-> 0, api |-> "cpp", src |-> "gen"] :
             rt \in {"wnaf", "wnaf_s", "doubleadd", "table", "multiply"},
             b \in { bb \in Bases(g) : Tier # "quick" \/ bb.affine = 0 }, s \in Scalars(bits) } : bits \in {64, 128, 256, 512} })
  \* double-and-add with its optional third argument (the highest bit to read): hints that are not byte-aligned, scalars whose byte at the
  \* hint is zero while lower bytes have high bits set, scalars with bits above the hint (they are not read)
  \o SetToSeq(UNION { { [op |-> "mul.gen", g |-> g, routine |-> "doubleadd", bits |-> bits, base |-> b.base, affine |-> b.affine, k |-> Pad(s, bits \div 8), hb |-> hb,
                          alias |-> 0, api |-> "cpp", src |-> "gen"] :
             b \in { bb \in Bases(g) : bb.affine = 0 \/ Tier # "quick" }, hb \in {0, 3, 11, 22, bits - 10, bits - 6, bits - 2, bits - 1},
             s \in { FromNat(240), FromNat(128), FromNat(61455), Sub(Pow2(bits), One), Add(Pow2(bits - 13), FromNat(3840)), ModPow2(Rnd(77), bits) } } : bits \in {64, 256} })
  \o (IF g = 1
      THEN SetToSeq({ [op |-> "mul.endo2", g |-> 1, base |-> b.base, affine |-> 0, c0 |-> Pad(c[1], 32), c1 |-> Pad(c[2], 32), n0 |-> n[1], n1 |-> n[2],
                       alias |-> al, api |-> "cpp", src |-> "gen"] :
                      b \in { bb \in Bases(g) : bb.sub = 1 /\ bb.affine = 0 },
                      c \in { <<Zero, Zero>>, <<One, Zero>>, <<Zero, One>>, <<Sub(Pow2(128), One), Sub(Pow2(127), One)>>, <<ModPow2(Rnd(41), 128), ModPow2(Rnd(42), 128)>>,
                              <<ModPow2(Rnd(43), 128), Zero>>, <<FromNat(17), Sub(Pow2(128), FromNat(15))>> },
                      n \in { <<0, 0>>, <<1, 0>>, <<0, 1>>, <<1, 1>> }, al \in {0, 1} })
      ELSE SetToSeq({ [op |-> "mul.powx", g |-> 2, base |-> b.base, affine |-> 0, k |-> Pad(s, 32), alias |-> al, api |-> "cpp", src |-> "gen"] :
                      b \in { bb \in Bases(g) : bb.sub = 1 /\ bb.affine = 0 },
                      s \in { Zero, One, Sub(RMod, One), RMod, Sub(Pow2(256), One), XAbs, Mul(XAbs, Mul(XAbs, XAbs)), ModPow2(Mul(Rnd(901), Rnd(951)), 256) }, al \in {0, 1} })
           \o SetToSeq({ [op |-> "mul.fast", g |-> 2, base |-> b.base, affine |-> b.affine, k |-> Pad(s, 32), alias |-> 0, api |-> "cpp", src |-> "gen"] :
                         b \in { bb \in Bases(g) : bb.sub = 1 /\ bb.affine = 0 }, s \in DigitFamCore \cup DivFam256 }))
     \* note: the statically dispatched 256-bit "multiply" is the accelerated routine and is only fed subgroup bases by the replayer filter below
RecodeCases ==
  SetToSeq(UNION { { [op |-> "wnaf.recode", bits |-> bw[1], window |-> bw[2], k |-> Pad(s, bw[1] \div 8), src |-> "gen"] : s \in Scalars(bw[1]) } :
             bw \in { <<64, 2>>, <<64, 4>>, <<128, 4>>, <<256, 4>>, <<256, 2>>, <<512, 4>> } })
  \o SetToSeq({ [op |-> "powx.decompose", k |-> Pad(s, 32), src |-> "gen"] : s \in Scalars(256) \cup DigitFamFull \cup DivFam256 })

Fits(c) == c.op # "wnaf.recode" \/ Lt(Norm(c.k), Pow2(c.bits))
Cases == IF What = "points" THEN PointCases(1) \o PointCases(2)
         ELSE SelectSeq(ScalarCases(1) \o ScalarCases(2), LAMBDA c : ~(c.op = "mul.gen" /\ c.routine = "multiply" /\ c.bits = 256 /\ c.base = JacRaw(c.g, NonSub(c.g), EmbG(c.g, Rnd(32)))))
              \o RecodeCases
ASSUME PrintT(<<"cases", Len(Cases)>>)
ASSUME ndJsonSerialize(IOEnv.OUT, Cases)
=============================================================================
