----------------------------- MODULE Trace_WkdIbe -----------------------------
(* Trace specification for WKD-IBE histories (C11-C14).  A trace line is one history: public
   parameters built from known discrete logarithms, a list of API calls with scripted randomness,
   and the objects the library produced.  The history is replayed in the exponent with the
   reference semantics of WkdIbe.tla; every recorded group element must be the expected multiple
   of the generator, every slot list exact and ascending, every verdict and decrypted message
   exactly the predicted one (also for non-matching keys and perturbed objects).            *)
EXTENDS TraceBase, Pairing
VARIABLES l, st
W == INSTANCE WkdIbe WITH RM <- RMod
FqF == INSTANCE PrimeField WITH P <- QMod, NBytes <- 48

V1(x)  == FqF!Val(Norm(x))
V2(x)  == <<V1(x[1]), V1(x[2])>>
V6(x)  == <<V2(x[1]), V2(x[2]), V2(x[3])>>
V12(x) == <<V6(x[1]), V6(x[2])>>
\* recorded Jacobian triple = [e] * generator ?
IsG1(j, e) == E1!JacIs(V1(j[1]), V1(j[2]), V1(j[3]), E1!ScalarMul(e, G1Gen))
IsG2(j, e) == E2!JacIs(V2(j[1]), V2(j[2]), V2(j[3]), E2!ScalarMul(e, G2Gen))
IsGT(x, e) == V12(x) = F12Exp(GTGen, e)

ParamsOf(ev) == [l |-> ev.l, sigs |-> ev.sigs = 1, gam |-> Norm(ev.dl.gam), alp |-> Norm(ev.dl.alp), del |-> Norm(ev.dl.del),
                 eps |-> Norm(ev.dl.eps), sig |-> (IF ev.sigs = 1 THEN Norm(ev.dl.sig) ELSE Zero),
                 eta |-> [i \in 1..ev.l |-> Norm(ev.dl.eta[i])]]
AttrsOf(a) == [k \in 1..Len(a) |-> [idx |-> a[k].idx, id |-> Norm(a[k].id), omit |-> a[k].omit]]
Flag(s) == IF Has(s, "flag") THEN s.flag ELSE 0

\* the parameters handed to the library are the ones the discrete logarithms describe
ParamsOk(ev, P) ==
  /\ IsG2(ev.params.g, P.gam) /\ IsG2(ev.params.g1, W!M(P.alp, P.gam)) /\ IsG1(ev.params.g2, P.del) /\ IsG1(ev.params.g3, P.eps)
  /\ IsG1(ev.params.hsig, P.sig) /\ \A i \in 1..P.l : IsG1(ev.params.h[i], P.eta[i])
  /\ IsGT(ev.params.pairing, W!PairingExp(P)) /\ IsG1(ev.msk, W!M(P.alp, P.del))

\* ---- reference object produced by step s given the earlier reference objects -----------------------------
Unknown == [kind |-> "unknown"]
RefStep(P, s, t, refs) ==
  LET a == s.a IN
  CASE a = "keygen"    -> IF W!PermittedGen(P, AttrsOf(s.attrs)) THEN W!KeyGen(P, AttrsOf(s.attrs), Flag(s), t) ELSE Unknown
    [] a = "ndkeygen"  -> IF W!PermittedGen(P, AttrsOf(s.attrs)) THEN W!NdKeyGen(P, AttrsOf(s.attrs), Flag(s)) ELSE Unknown
    [] a = "qualify"   -> LET K == refs[s.key] IN
                          IF K.kind = "key" /\ W!PermittedQual(P, K, AttrsOf(s.attrs)) THEN W!Qualify(P, K, AttrsOf(s.attrs), Flag(s), t)
                          ELSE [kind |-> "undocumented-key", hidden |-> IF K.kind = "key" THEN W!HiddenSet(K) ELSE {}]
    [] a = "ndqualify" -> LET K == refs[s.key] IN
                          IF K.kind = "key" /\ W!PermittedQual(P, K, AttrsOf(s.attrs)) THEN W!NdQualify(P, K, AttrsOf(s.attrs), Flag(s))
                          ELSE [kind |-> "undocumented-key", hidden |-> IF K.kind = "key" THEN W!HiddenSet(K) ELSE {}]
    \* adjusting NdQualify(parent, from) to "to" must give NdQualify(parent, to)
    [] a = "adjustnd"  -> LET Pk == refs[s.parent] IN
                          IF Pk.kind = "key" /\ W!PermittedQual(P, Pk, AttrsOf(s.to)) /\ W!PermittedQual(P, Pk, AttrsOf(s.from))
                             /\ refs[s.key] = W!NdQualify(P, Pk, AttrsOf(s.from), 0)
                          THEN W!NdQualify(P, Pk, AttrsOf(s.to), 0)
                          ELSE [kind |-> "undocumented-key", hidden |-> IF Pk.kind = "key" THEN W!HiddenSet(Pk) ELSE {}]
    [] a = "resample"  -> LET K == refs[s.key] IN
                          IF K.kind = "key" /\ refs[s.pre].kind = "pre" /\ refs[s.pre].h = W!H(P, W!FixedVec(K)) THEN W!Resample(P, K, t, s.further) ELSE Unknown
    [] a = "precompute" -> [kind |-> "pre", h |-> W!H(P, W!Vec(AttrsOf(s.attrs), P.l))]
    [] a = "adjustpre" -> IF refs[s.pre].kind = "pre" /\ refs[s.pre].h = W!H(P, W!Vec(AttrsOf(s.from), P.l)) /\ W!Sorted(AttrsOf(s.from)) /\ W!Sorted(AttrsOf(s.to))
                          THEN [kind |-> "pre", h |-> W!H(P, W!Vec(AttrsOf(s.to), P.l))] ELSE Unknown
    [] a = "encrypt"   -> W!Encrypt(P, W!H(P, W!Vec(AttrsOf(s.attrs), P.l)), t, Norm(s.mu)) @@ [vec |-> W!Vec(AttrsOf(s.attrs), P.l), mu |-> W!Red(Norm(s.mu))]
    [] a = "encryptpre" -> IF refs[s.pre].kind = "pre" THEN W!Encrypt(P, refs[s.pre].h, t, Norm(s.mu)) @@ [vec |-> <<>>, mu |-> W!Red(Norm(s.mu))] ELSE Unknown
    [] a = "decrypt"   -> LET K == refs[s.key]  ct == refs[s.ct] IN
                          IF K.kind = "key" /\ ct.kind = "ct" THEN [kind |-> "gt", e |-> W!DecryptExp(ct, W!KeyA0(P, K), W!KeyA1(P, K))]
                          ELSE IF K.kind = "undocumented-key" /\ ct.kind = "ct" THEN [kind |-> "gt-not", mu |-> ct.mu, vec |-> ct.vec, hidden |-> K.hidden]
                          ELSE Unknown
    [] a = "decryptmaster" -> IF refs[s.ct].kind = "ct" THEN [kind |-> "gt", e |-> W!DecryptMasterExp(P, refs[s.ct])] ELSE Unknown
    [] a \in {"sign", "signpre"} ->
                          LET K == refs[s.key]
                              L == AttrsOf(s.attrs)
                              h == IF a = "sign" THEN W!H(P, W!Vec(L, P.l)) ELSE refs[s.pre].h
                          IN IF K.kind = "key" THEN W!Sign(P, K, IF Has(s, "nullattrs") /\ s.nullattrs = 1 THEN <<>> ELSE L, h, Norm(s.msg), t) ELSE Unknown
    [] a \in {"verify", "verifypre"} ->
                          LET sg == refs[s.sig]
                              h == IF a = "verify" THEN W!H(P, W!Vec(AttrsOf(s.attrs), P.l)) ELSE refs[s.pre].h
                          IN IF sg.kind = "sig" THEN [kind |-> "verdict", v |-> IF W!VerifyExp(P, h, sg, Norm(s.msg)) THEN 1 ELSE 0] ELSE Unknown
    [] a = "perturb"   -> LET o == refs[s.obj]  by == FromNat(s.by) IN
                          IF o.kind = "ct" THEN (CASE s.field = "a" -> [o EXCEPT !.a = W!A(@, by)] [] s.field = "b" -> [o EXCEPT !.b = W!A(@, by)] [] OTHER -> [o EXCEPT !.c = W!A(@, by)])
                          ELSE IF o.kind = "sig" THEN (IF s.field = "a0" THEN [o EXCEPT !.a0 = W!A(@, by)] ELSE [o EXCEPT !.a1 = W!A(@, by)])
                          ELSE Unknown
    [] OTHER -> Unknown

\* ---- does the recorded object agree with the reference object? ------------------------------------------------
ObjOk(P, ref, o) ==
  CASE ref.kind = "key" ->
         LET free == W!FreeSlots(ref) IN
         /\ o.kind = "key" /\ o.l = Len(free) /\ Len(o.idx) = Len(free)
         /\ \A m \in 1..Len(free) : o.idx[m] = free[m]                                 \* exactly the free slots, ascending
         /\ o.sigs = (IF P.sigs THEN 1 ELSE 0) /\ o.tail_clean = 1
         /\ IsG1(o.a0, W!KeyA0(P, ref)) /\ IsG2(o.a1, W!KeyA1(P, ref)) /\ IsG1(o.bsig, W!KeyBsig(P, ref))
         /\ \A m \in 1..Len(free) : IsG1(o.b[m], W!KeyB(P, ref, free[m]))
    [] ref.kind = "pre" -> o.kind = "pre" /\ IsG1(o.p, ref.h)
    [] ref.kind = "ct"  -> o.kind = "ct" /\ IsGT(o.a, ref.a) /\ IsG2(o.b, ref.b) /\ IsG1(o.c, ref.c)
    [] ref.kind = "sig" -> o.kind = "sig" /\ IsG1(o.a0, ref.a0) /\ IsG2(o.a1, ref.a1)
    [] ref.kind = "gt"  -> o.kind = "gt" /\ IsGT(o.m, ref.e)
    \* a key obtained outside the documented domain from an ancestor with hidden slots must not open a
    \* ciphertext in which one of those slots is set
    [] ref.kind = "gt-not" -> o.kind = "gt" /\ ((\E i \in ref.hidden : ref.vec # <<>> /\ ref.vec[i + 1] # Zero) => ~IsGT(o.m, ref.mu))
    [] ref.kind = "verdict" -> o.kind = "verdict" /\ o.v = ref.v
    [] OTHER -> TRUE                                       \* outside the documented domain: no prediction

RECURSIVE Walk(_, _, _, _, _)
Walk(ev, P, i, refs, bad) ==
  IF i > Len(ev.steps) THEN bad
  ELSE LET s == ev.steps[i]
           t == IF Len(ev.out.drawn[i]) = 0 THEN Zero ELSE Norm(ev.out.drawn[i])
           r == RefStep(P, s, t, refs)
           ok == ObjOk(P, r, ev.out.objs[i])
       IN Walk(ev, P, i + 1, Append(refs, r), IF ok THEN bad ELSE bad \cup {"step" \o ToString(i) \o ":" \o s.a})

\* the scalar the library derived from the scripted stream is the one the generator intended (else: the
\* sampling protocol changed - exact prediction still uses the scalar actually drawn)
DrawnAsIntended(ev) == \A i \in 1..Len(ev.steps) : ~Has(ev.steps[i], "t") \/ Len(ev.out.drawn[i]) = 0 \/ Norm(ev.out.drawn[i]) = Norm(ev.steps[i].t)

Fails(ev) == IF ev.op # "wk.history" THEN {"unknown-op"} ELSE LET P == ParamsOf(ev) IN
  (IF ParamsOk(ev, P) THEN {} ELSE {"pre.params"}) \cup Walk(ev, P, 1, <<>>, {}) \cup (IF DrawnAsIntended(ev) THEN {} ELSE {"diag.sampler-protocol"})
Init == l \in 1..NLines /\ st = "todo"
Next == /\ st = "todo"
        /\ LET f == Fails(Tr[l]) IN
             /\ st' = "done"
             /\ IF f = {} THEN TRUE ELSE PrintT(<<"FAIL", l, f>>)
        /\ UNCHANGED l
=============================================================================
