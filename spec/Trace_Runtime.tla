---------------------------- MODULE Trace_Runtime ----------------------------
(* Trace specification for C20.  Every line is one run of a battery of C-API calls recorded by
   harness/drv_runtime.cpp:
     rt.sequential  the calls one after another: the reference results F(t, i), the number of segments of
                    every call, the library's writable image before/after
     rt.schedule    the same calls from several threads under a schedule generated from Runtime.tla
                    (Gen_Runtime): the schedule must be a complete behaviour of the specification for the
                    measured segment counts, every call must return the sequential result, the writable
                    image and the dispatch table must be unchanged
     rt.free        the same calls free-running (barrier start)
     rt.symbols     the undefined-symbol table of one build configuration of the library *)
EXTENDS TraceBase
VARIABLES l, st
\* the step relation of Runtime.tla applied to a recorded schedule: positions advance exactly as Segment(t) does
RECURSIVE Replay(_, _, _, _)
\* pc: thread -> <<call index, segment>>; returns [ok, pc]: ok = FALSE if some step was not enabled
Replay(sched, i, pc, segs) ==
  IF i > Len(sched) THEN [ok |-> TRUE, pc |-> pc]
  ELSE LET t == sched[i] IN
       IF t \notin DOMAIN pc \/ pc[t][1] > Len(segs[t]) THEN [ok |-> FALSE, pc |-> pc]
       ELSE LET last == pc[t][2] = segs[t][pc[t][1]] IN
            Replay(sched, i + 1, [pc EXCEPT ![t] = IF last THEN <<pc[t][1] + 1, 1>> ELSE <<pc[t][1], pc[t][2] + 1>>], segs)
AllDone(pc, segs) == \A t \in DOMAIN pc : pc[t][1] = Len(segs[t]) + 1
IsBehaviour(sched, segs) ==
  LET n == Len(segs)
      fin == Replay(sched, 1, [t \in 1..n |-> <<1, 1>>], segs)
  IN fin.ok /\ AllDone(fin.pc, segs)

RT == INSTANCE Runtime WITH Threads <- {}, Calls <- <<>>, Segs <- <<>>, Variant <- "faithful", Cpu <- "bmi2",
                            loaded <- TRUE, dispatch <- "bmi2", lib <- <<"init">>, pc <- <<>>, acc <- <<>>, result <- <<>>

Checks(ev) ==
  LET o == ev.op IN
  CASE o = "rt.sequential" ->
         << <<"lib-state-constant", ev.out.lib_changed = <<>> /\ ev.out.lib_changed_by_fixture = <<>>>>,
            <<"dispatch-written-once", ev.out.dispatch_before = ev.out.dispatch_after /\ ev.out.dispatch_after.table = ev.out.dispatch_after.cpu>>,
            \* the calls' input objects (const parameters), private or shared between threads, are not written
            <<"inputs-constant", ev.out.inputs_changed = 0 /\ ev.out.shared_inputs_changed = 0>>,
            <<"pre.image-found", ev.out.ranges > 0>> >>
    [] o \in {"rt.schedule", "rt.free"} ->
         << <<"pre.schedule-followed", o = "rt.free" \/ (ev.out.desync = 0 /\ ev.out.consumed = Len(ev.schedule))>>,
            <<"pre.schedule-is-behaviour", o = "rt.free" \/ IsBehaviour(ev.schedule, ev.expect_segs)>>,
            <<"results-sequential", ev.out.results = ev.expect>>,
            <<"segments", ev.out.segs = ev.expect_segs>>,
            <<"lib-state-constant", ev.out.lib_changed = <<>> /\ ev.out.lib_changed_by_fixture = <<>>>>,
            <<"inputs-constant", ev.out.inputs_changed = 0 /\ ev.out.shared_inputs_changed = 0>>,
            <<"dispatch-written-once", ev.out.dispatch_before = ev.out.dispatch_after /\ ev.out.dispatch_after.table = ev.out.dispatch_after.cpu>> >>
    [] o = "rt.symbols" ->
         << <<"extern-allowed", \A i \in 1..Len(ev.undefined) : RT!IsAllowedExtern(ev.undefined[i])>>,
            <<"pre.objects", ev.objects > 0>> >>
    [] OTHER -> << <<"unknown-op", FALSE>> >>

Fails(ev) == FailsOf(Checks(ev))
Init == l \in 1..NLines /\ st = "todo"
Next == /\ st = "todo"
        /\ LET f == Fails(Tr[l]) IN
             /\ st' = "done"
             /\ IF f = {} THEN TRUE ELSE PrintT(<<"FAIL", l, f>>)
        /\ UNCHANGED l
=============================================================================
