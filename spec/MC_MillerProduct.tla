--------------------------- MODULE MC_MillerProduct ---------------------------
EXTENDS MillerProduct
XB == <<0, 1, 1, 0>>       \* toy |x| = 0b10110: same shape as the real loop (lowest bit clear)
===============================================================================
