CONSTANTS M = 5
 MaskBits = 3
 RawBits = 4
 X = 3
 R = 61
 Alphabet = {0, 2, 4, 5, 7, 12, 15}
 MaxLen = 5
INIT Init
NEXT Next
INVARIANTS InRange NeverOverrun Total
CHECK_DEADLOCK FALSE
