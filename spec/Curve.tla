-------------------------------- MODULE Curve --------------------------------
(* Tier B: the group of points of  y^2 = x^3 + b  over a field given by its operations,
   with the textbook affine chord-and-tangent law.  The identity is <<>>, any other point
   <<x, y>>.  Nothing here knows about Jacobian formulas.                               *)
EXTENDS Naturals, Sequences, BigNat, SequencesExt
CONSTANTS FZero, FOne, FAdd(_, _), FSub(_, _), FMul(_, _), FNeg(_), FInv(_), BCoef

Inf == <<>>
IsInf(P) == P = <<>>
FSqr(a) == FMul(a, a)
FTwo == FAdd(FOne, FOne)
FThree == FAdd(FTwo, FOne)
Rhs(x) == FAdd(FMul(FSqr(x), x), BCoef)
OnCurve(P) == IsInf(P) \/ FSqr(P[2]) = Rhs(P[1])
PNeg(P) == IF IsInf(P) THEN P ELSE <<P[1], FNeg(P[2])>>

PDbl(P) == IF IsInf(P) \/ P[2] = FZero THEN Inf
          ELSE LET lam == FMul(FMul(FThree, FSqr(P[1])), FInv(FMul(FTwo, P[2])))
                   x3  == FSub(FSub(FSqr(lam), P[1]), P[1])
               IN <<x3, FSub(FMul(lam, FSub(P[1], x3)), P[2])>>
PAdd(P, R) == IF IsInf(P) THEN R ELSE IF IsInf(R) THEN P
             ELSE IF P[1] = R[1] THEN (IF P[2] = R[2] THEN PDbl(P) ELSE Inf)
             ELSE LET lam == FMul(FSub(R[2], P[2]), FInv(FSub(R[1], P[1])))
                      x3  == FSub(FSub(FSqr(lam), P[1]), R[1])
                  IN <<x3, FSub(FMul(lam, FSub(P[1], x3)), P[2])>>

\* [k]P by double-and-add over the bits of k, most significant first
BitsMSB(e) == [i \in 1..BitLen(e) |-> Bit(e, BitLen(e) - i)]
ScalarMulDef(k, P) == FoldLeft(LAMBDA acc, bit : IF bit = 1 THEN PAdd(PDbl(acc), P) ELSE PDbl(acc), Inf, BitsMSB(k))
ScalarMul(k, P) == ScalarMulDef(k, P)

\* a Jacobian triple (X, Y, Z) represents P:  Z = 0 for the identity, else (X/Z^2, Y/Z^3)
JacIs(X, Y, Z, P) == IF Z = FZero THEN IsInf(P)
                     ELSE /\ ~IsInf(P)
                          /\ X = FMul(P[1], FSqr(Z))
                          /\ Y = FMul(P[2], FMul(FSqr(Z), Z))
JacToAffine(X, Y, Z) == IF Z = FZero THEN Inf
                        ELSE LET zi == FInv(Z) IN <<FMul(X, FSqr(zi)), FMul(Y, FMul(FSqr(zi), zi))>>
MkJac(P, z) == IF IsInf(P) THEN <<FZero, FOne, FZero>> ELSE <<FMul(P[1], FSqr(z)), FMul(P[2], FMul(FSqr(z), z)), z>>
=============================================================================
