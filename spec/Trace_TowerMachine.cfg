CONSTANT QT = 19
INIT Init
NEXT Next
CHECK_DEADLOCK FALSE
