------------------------------ MODULE Gen_Codec -------------------------------
(* Generator (G->I) for encodings (C09) and hashing/sampling (C10).
   C09: round trips of identity / generators / +-P / multiples in both forms and groups, and the
        mutation classes of a valid encoding that validating decode must reject (flag flips,
        malformed identity, stray flag bits in later coordinate fields, x+q, off-curve y, x without y,
        points outside the subgroup).
   C10: hash inputs around the modulus and with flag bits set; scripted random streams that force
        0..k rejections in every sampler (candidates equal to the modulus, above it, with unused top
        bits set; digit tuples whose recombination is >= r).                                    *)
EXTENDS Encoding, Json, IOUtils, TLC
Tier == IF "TIER" \in DOMAIN IOEnv THEN IOEnv.TIER ELSE "quick"
Seed == IF "SEED" \in DOMAIN IOEnv THEN atoi(IOEnv.SEED) ELSE 1
Rnd(k) == ModExp(FromNat(5), FromNat(1000003 * Seed + 7919 * k), Q)
Raw1(v) == Pad(FqM!Mont(v), 48)
RawF(g, x) == IF g = 1 THEN Raw1(x) ELSE <<Raw1(x[1]), Raw1(x[2])>>
FZeroG(g) == IF g = 1 THEN Zero ELSE F2!EZero
FOneG(g)  == IF g = 1 THEN One ELSE F2!EOne
AffRaw(g, P) == IF P = <<>> THEN <<RawF(g, FZeroG(g)), RawF(g, FOneG(g)), 1>> ELSE <<RawF(g, P[1]), RawF(g, P[2]), 0>>
SMul(g, k, P) == IF g = 1 THEN E1!ScalarMul(k, P) ELSE E2!ScalarMul(k, P)
NegG(g, P) == IF g = 1 THEN E1!PNeg(P) ELSE E2!PNeg(P)
Gen(g) == IF g = 1 THEN G1Gen ELSE G2Gen
Mults(g) == { SMul(g, FromNat(k), Gen(g)) : k \in 1..(IF Tier = "quick" THEN 12 ELSE 40) }
Pts(g) == { <<>>, NegG(g, Gen(g)), SMul(g, Sub(RMod, Two), Gen(g)), SMul(g, ModN(Rnd(3), RMod), Gen(g)) } \cup Mults(g)
N1 == LET x == CHOOSE v \in 1..40 : QIsSquare(E1!Rhs(FromNat(v))) /\ E1!ScalarMul(RMod, <<FromNat(v), QSqrt(E1!Rhs(FromNat(v)))>>) # <<>>
      IN <<FromNat(x), QSqrt(E1!Rhs(FromNat(x)))>>
N2 == LET x == CHOOSE v \in 1..40 : F2Legendre(E2!Rhs(<<FromNat(v), One>>)) # (0 - 1)
      IN <<<<FromNat(x), One>>, F2Sqrt(E2!Rhs(<<FromNat(x), One>>))>>
NonSub(g) == IF g = 1 THEN N1 ELSE N2
NoY(g) == IF g = 1 THEN FromNat(CHOOSE v \in 1..40 : ~QIsSquare(E1!Rhs(FromNat(v))))
          ELSE <<FromNat(CHOOSE v \in 1..40 : F2Legendre(E2!Rhs(<<FromNat(v), One>>)) = 0 - 1), One>>

IsoU(g) == IF g = 1 THEN Two ELSE <<Two, One>>
FMulG(g, a, b) == IF g = 1 THEN QMul(a, b) ELSE F2Mul(a, b)
IsoX(g, P) == FMulG(g, FMulG(g, IsoU(g), IsoU(g)), P[1])
IsoY(g, P) == FMulG(g, FMulG(g, FMulG(g, IsoU(g), IsoU(g)), IsoU(g)), P[2])
M(v) == FqM!Mont(v)
\* a non-identity point killed by the cofactor: [r]N for a curve point N outside the order-r subgroup
Tor(g) == SMul(g, RMod, NonSub(g))
ASSUME Tor(1) # <<>> /\ Tor(2) # <<>>
SetByte(b, i, v) == [b EXCEPT ![i] = v]
OrByte(b, i, m) == [b EXCEPT ![i] = (b[i] - (b[i] % (2 * m)) + (IF (b[i] \div m) % 2 = 1 THEN b[i] % (2 * m) ELSE (b[i] % (2 * m)) + m))]
ToSeq(f) == [i \in 1..Len(f) |-> f[i]]
\* replace the k-th 48-byte field (0-based) by the big-endian form of value v (keeps the flag bits of byte 1 if k = 0)
PutField(b, k, v) == LET w == ToBE(v, 48) IN
  [i \in 1..Len(b) |-> IF i > 48 * k /\ i <= 48 * k + 48
                       THEN (IF i = 1 THEN (b[1] \div 32) * 32 + w[1] ELSE w[i - 48 * k]) ELSE b[i]]
FieldVal(b, k) == ModPow2(FromBE(SubSeq(b, 48 * k + 1, 48 * k + 48)), 381)

Mutants(g, P, comp) ==
  LET e == ToSeq(Encode(g, P, comp))
      nf == NFields(g, comp)
      inf == ToSeq(Encode(g, <<>>, comp))
  IN { [cls |-> "valid", bytes |-> e],
       [cls |-> "flip-compressed-flag", bytes |-> SetByte(e, 1, (e[1] % 128) + (IF comp THEN 0 ELSE 128))],
       [cls |-> "infinity-flag-nonzero-body", bytes |-> OrByte(e, 1, 64)],
       [cls |-> "infinity-with-sign", bytes |-> OrByte(inf, 1, 32)],
       [cls |-> "infinity-trailing-garbage", bytes |-> SetByte(inf, Len(inf), 1)],
       [cls |-> "infinity-low-bits", bytes |-> SetByte(inf, 1, inf[1] + 1)],
       [cls |-> "other-sign", bytes |-> IF comp THEN SetByte(e, 1, IF (e[1] \div 32) % 2 = 1 THEN e[1] - 32 ELSE e[1] + 32) ELSE OrByte(e, 1, 32)] }
     \cup { [cls |-> "stray-bit-field" \o ToString(k) \o "-" \o ToString(m), bytes |-> OrByte(e, 48 * k + 1, m)] : k \in 1..(nf - 1), m \in {32, 64, 128} }
     \cup { [cls |-> "coord-plus-q-field" \o ToString(k), bytes |-> PutField(e, k, Add(FieldVal(e, k), QMod))] :
            k \in { kk \in 0..(nf - 1) : Lt(Add(FieldVal(e, kk), QMod), Pow2(381)) } }
     \cup (IF comp THEN {} ELSE { [cls |-> "y-plus-one", bytes |-> PutField(e, nf - 1, ModN(Add(FieldVal(e, nf - 1), One), QMod))] })
     \* (u^2 x, u^3 y) lies on the isomorphic curve y^2 = x^3 + b u^6: off the curve, yet of order r under the (b-independent) group
     \* formulas, so only an explicit curve-equation test rejects it
     \cup (IF comp THEN {} ELSE { [cls |-> "off-curve-isomorphic", bytes |-> ToSeq(Wire(g, IsoX(g, P)) \o Wire(g, IsoY(g, P)))] })

EncCases(g) ==
  SetToSeq({ [op |-> "enc.encode", g |-> g, compressed |-> c, a |-> AffRaw(g, P), src |-> "gen"] : P \in Pts(g), c \in {0, 1} })
  \o SetToSeq(UNION { UNION { { [op |-> "enc.decode", g |-> g, compressed |-> c, checked |-> 1, cls |-> m.cls, bytes |-> m.bytes, src |-> "gen"] : m \in Mutants(g, P, c = 1) }
                              : P \in Pts(g) \ {<<>>} } : c \in {0, 1} })
  \o SetToSeq({ [op |-> "enc.decode", g |-> g, compressed |-> c, checked |-> 0, cls |-> "valid-unchecked", bytes |-> ToSeq(Encode(g, P, c = 1)), src |-> "gen"] : P \in Pts(g), c \in {0, 1} })
  \o SetToSeq({ [op |-> "enc.decode", g |-> g, compressed |-> c, checked |-> 1, cls |-> "valid-infinity", bytes |-> ToSeq(Encode(g, <<>>, c = 1)), src |-> "gen"] : c \in {0, 1} })
  \o SetToSeq({ [op |-> "enc.decode", g |-> g, compressed |-> c, checked |-> 1, cls |-> "outside-subgroup", bytes |-> ToSeq(Encode(g, NonSub(g), c = 1)), src |-> "gen"] : c \in {0, 1} })
  \o SetToSeq({ [op |-> "enc.decode", g |-> g, compressed |-> 1, checked |-> 1, cls |-> "x-without-y",
                 bytes |-> OrByte(ToSeq(Wire(g, NoY(g))), 1, 128), src |-> "gen"] })

\* ---- hashing -----------------------------------------------------------------------------------------
HashInts(m, nb) == { Zero, One, Sub(m, One), m, Add(m, One), Sub(Pow2(8 * nb - 1), One), Pow2(8 * nb - 1), Sub(Pow2(8 * nb), One),
                     Add(Pow2(8 * nb - 1), Sub(m, One)), Add(Pow2(8 * nb - 2), m) }
\* hashes whose first curve point over Fq2 has its y in the base field (y = (c0, 0)): x = u + v i with Im(x^3 + 4 + 4i) = 0, i.e. u^2 = (v^3 - 4)/(3v),
\* and Re(x^3 + 4 + 4i) a square of Fq.  For such y the order of the two roots is decided by the SECOND key of the lexicographic comparison.
SubfieldY ==
  UNION { LET t == QMul(QSub(QMul(QMul(FromNat(v), FromNat(v)), FromNat(v)), FromNat(4)), QInv(FromNat(3 * v)))
          IN IF ~IsSq(1, t) THEN {}
             ELSE { <<u, FromNat(v)>> : u \in { uu \in { QSqrt(t), QNeg(QSqrt(t)) } :
                                                 IsSq(1, QAdd(QSub(QMul(QMul(uu, uu), uu), QMul(FromNat(3 * v * v), uu)), FromNat(4))) } }
          : v \in 1..(IF Tier = "quick" THEN 40 ELSE 120) }
SubfieldYCases == SetToSeq({ [op |-> "hash.g2", hash |-> ToBE(Add(x[2], top), 48) \o ToBE(x[1], 48), cls |-> "y-in-base-field", src |-> "gen"] : x \in SubfieldY, top \in { Zero, Pow2(383) } })
\* hashes whose x has x^3 + 4 + 4i on the IMAGINARY axis (real part zero): x = u + v i with u^3 - 3 u v^2 + 4 = 0, i.e. v^2 = (u^3 + 4)/(3u).
\* c i is a square of Fq2 for every c (its norm c^2 is a square of Fq), so the first curve point is the one over x itself, whatever the
\* quadratic character of c in Fq is.
ImagRhs ==
  UNION { LET t == QMul(QAdd(QMul(QMul(FromNat(u), FromNat(u)), FromNat(u)), FromNat(4)), QInv(FromNat(3 * u)))
          IN IF ~IsSq(1, t) THEN {} ELSE { <<FromNat(u), w>> : w \in { QSqrt(t), QNeg(QSqrt(t)) } }
          : u \in 1..(IF Tier = "quick" THEN 12 ELSE 60) }
ImagRhsCases == SetToSeq({ [op |-> "hash.g2", hash |-> ToBE(x[2], 48) \o ToBE(x[1], 48), cls |-> "rhs-on-imaginary-axis", src |-> "gen"] : x \in ImagRhs })

HashCases ==
  SetToSeq({ [op |-> "hash.zp", hash |-> ToBE(v, 32), src |-> "gen"] : v \in HashInts(RMod, 32) \cup { ModPow2(Rnd(k), 256) : k \in 40..44 } })
  \o SetToSeq({ [op |-> "hash.scalar_reduce", n |-> Pad(v, 32), src |-> "gen"] : v \in HashInts(RMod, 32) })
  \o SetToSeq({ [op |-> o, hash |-> ToBE(v, 48), src |-> "gen"] : o \in {"hash.g1", "hash.id"},
                v \in { x \in HashInts(QMod, 48) \cup { Sub(Pow2(381), One), Pow2(381), Add(Pow2(381), FromNat(2)) } \cup { FromNat(k) : k \in 0..12 } \cup { Rnd(k) : k \in 50..55 } : Lt(x, Pow2(384)) } })
  \o SetToSeq({ [op |-> "hash.g2", hash |-> ToBE(v, 48) \o ToBE(w, 48), src |-> "gen"] :
                v \in { Zero, One, Sub(QMod, One), QMod, Sub(Pow2(384), One), Rnd(60) }, w \in { Zero, FromNat(3), Sub(QMod, One), Add(QMod, FromNat(5)), Pow2(383), Rnd(61) } })
  \o SubfieldYCases \o ImagRhsCases

\* ---- scripted random streams -------------------------------------------------------------------------
LE(v, n) == ToSeq(Pad(v, n))
Cat(ss) == IF Len(ss) = 0 THEN <<>> ELSE FoldLeft(LAMBDA a, b : a \o b, <<>>, ss)
FrCands == << <<RMod, Sub(RMod, One)>>, <<Add(RMod, One), Zero>>, <<Add(Pow2(255), FromNat(5))>>, <<Sub(Pow2(256), One), Sub(Pow2(255), One), RMod, FromNat(7)>>,
              <<Sub(RMod, One)>>, <<Pow2(255), One>>, <<Add(Pow2(255), RMod), Add(Pow2(255), Sub(RMod, One))>> >>
FqCands == << <<QMod, Sub(QMod, One)>>, <<Add(QMod, One), Zero>>, <<Add(Pow2(381), FromNat(5))>>, <<Sub(Pow2(384), One), Sub(Pow2(381), One), QMod, FromNat(7)>>,
              <<Add(Pow2(383), QMod), Add(Pow2(382), Sub(QMod, One))>> >>
X == XAbs
DigitsOf(y) == <<ModN(y, X), ModN(Div(y, X), X), ModN(Div(y, Mul(X, X)), X), Div(y, Mul(X, Mul(X, X)))>>
PowXStreams == {
  Cat(<<LE(X, 8), LE(Sub(X, One), 8), LE(Sub(Pow2(64), One), 8), LE(Zero, 8), LE(One, 8), LE(Add(X, One), 8), LE(Two, 8)>>),      \* inner rejections
  Cat([i \in 1..4 |-> LE(DigitsOf(RMod)[i], 8)]) \o Cat([i \in 1..4 |-> LE(DigitsOf(Sub(RMod, One))[i], 8)]),                   \* y = r rejected, then r-1
  Cat([i \in 1..4 |-> LE(Sub(X, One), 8)]) \o Cat([i \in 1..4 |-> LE(Zero, 8)]),                                                  \* largest tuple (>= r), then 0
  Cat([i \in 1..4 |-> LE(DigitsOf(Add(RMod, One))[i], 8)]) \o Cat([i \in 1..4 |-> LE(DigitsOf(ModN(Rnd(70), RMod))[i], 8)]) }
RunLens == IF Tier = "quick" THEN {7, 31, 32, 33, 64} ELSE {7, 15, 16, 30, 31, 32, 33, 63, 64, 65, 100, 127, 128, 255, 256, 300}
RandCases ==
  SetToSeq({ [op |-> o, stream |-> Cat([i \in 1..Len(FrCands[k]) |-> LE(FrCands[k][i], 32)]), src |-> "gen"] : o \in {"rand.zp", "rand.zpstar"}, k \in 1..Len(FrCands) })
  \o SetToSeq({ [op |-> "rand.fq", stream |-> Cat([i \in 1..Len(FqCands[k]) |-> LE(FqCands[k][i], 48)]), src |-> "gen"] : k \in 1..Len(FqCands) })
  \o SetToSeq({ [op |-> "rand.fq2", stream |-> Cat([i \in 1..Len(FqCands[k]) |-> LE(FqCands[k][i], 48)]), src |-> "gen"] : k \in 1..Len(FqCands) })
  \* fill: what the caller's output objects hold on entry (all-zero storage is a scalar below r; 0xA5.. is not) - the result may not depend on it
  \o SetToSeq({ [op |-> o, stream |-> s, fill |-> fl, src |-> "gen"] : o \in {"rand.powx", "rand.zpstar_px"}, fl \in {165, 0, 1},
                s \in PowXStreams \cup { Cat([i \in 1..4 |-> LE(Zero, 8)]) \o Cat([i \in 1..4 |-> LE(DigitsOf(v)[i], 8)]) \o Cat([i \in 1..4 |-> LE(One, 8)]) : v \in { One, Sub(RMod, One), ModN(Rnd(72), RMod) } } })
  \* the non-zero sampler: a first draw of zero (32 zero bytes), then a value; the decomposed form must follow the redraw
  \o SetToSeq({ [op |-> o, stream |-> Cat(<<LE(Zero, 32), LE(v, 32)>>), cls |-> "zero-first-draw", src |-> "gen"] : o \in {"rand.zpstar", "rand.zp"}, v \in { One, Sub(RMod, One), ModN(Rnd(71), RMod) } })
  \* long runs of rejected draws before the accepted one (the rejection loop has no bound: the n-th draw is as good as the first)
  \o SetToSeq({ [op |-> o, stream |-> Cat([i \in 1..(n + 1) |-> LE(IF i <= n THEN Add(RMod, FromNat(i)) ELSE Sub(RMod, FromNat(n)), 32)]), cls |-> "long-rejection-run", src |-> "gen"] :
                o \in {"rand.zp", "rand.zpstar"}, n \in RunLens })
  \o SetToSeq({ [op |-> o, stream |-> Cat([i \in 1..(n + 1) |-> LE(IF i <= n THEN Add(QMod, FromNat(i)) ELSE Sub(QMod, FromNat(n)), 48)]) \o LE(FromNat(n), 48), cls |-> "long-rejection-run", src |-> "gen"] :
                o \in {"rand.fq", "rand.fq2"}, n \in RunLens })
  \* the samplers fill the field element's storage directly, i.e. the stream bytes are Montgomery residues: candidates are given in that form.
  \* Candidate sequence: >= q (rejected by the field sampler), an x without y (rejected by the curve equation), then a small x; and
  \* torsion candidates - x of a point of order dividing the cofactor ((0, 2) on E; [r]N for a curve point N outside the subgroup),
  \* which cofactor clearing sends to the identity: the sampler must retry - followed by the generator's x.
  \o SetToSeq({ [op |-> "rand.g1", stream |-> LE(QMod, 48) \o LE(M(NoY(1)), 48) \o <<b>> \o LE(M(FromNat(k)), 48) \o <<b>> \o LE(M(G1GenX), 48) \o <<b>>, src |-> "gen"] :
                b \in {0, 1}, k \in {0, 1, 2, 3} })
  \o SetToSeq({ [op |-> "rand.g1", stream |-> LE(M(Tor(1)[1]), 48) \o <<b>> \o LE(M(G1GenX), 48) \o <<b>>, cls |-> "torsion-candidate", src |-> "gen"] : b \in {0, 1} })
  \o SetToSeq({ [op |-> "rand.g2", stream |-> LE(QMod, 48) \o LE(M(NoY(2)[1]), 48) \o LE(M(NoY(2)[2]), 48) \o <<b>> \o LE(M(FromNat(k)), 48) \o LE(M(One), 48) \o <<b>>
                                               \o LE(M(G2GenX[1]), 48) \o LE(M(G2GenX[2]), 48) \o <<b>>, src |-> "gen"] : b \in {0, 1}, k \in {1, 2, 3} })
  \o SetToSeq({ [op |-> "rand.g2", stream |-> LE(M(Tor(2)[1][1]), 48) \o LE(M(Tor(2)[1][2]), 48) \o <<b>> \o LE(M(G2GenX[1]), 48) \o LE(M(G2GenX[2]), 48) \o <<b>>,
                 cls |-> "torsion-candidate", src |-> "gen"] : b \in {0, 1} })

What == IF "WHAT" \in DOMAIN IOEnv THEN IOEnv.WHAT ELSE "enc"
Cases == IF What = "enc" THEN EncCases(1) \o EncCases(2) ELSE HashCases \o RandCases
ASSUME PrintT(<<"cases", Len(Cases)>>)
ASSUME ndJsonSerialize(IOEnv.OUT, Cases)
=============================================================================
