CONSTANTS Bits = 8
 Win = 4
 KeepCarry = FALSE
INIT Init
NEXT Next
INVARIANTS FitsBuffer DigitsOk Represents LoopInv
CHECK_DEADLOCK FALSE
