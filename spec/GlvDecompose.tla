---------------------------- MODULE GlvDecompose -----------------------------
(* Tier A: the G1 scalar decomposition of src/bls12_381/curve_fast_multiply.cpp
   (multiply_endomorphism(scalar) -> decompose_lambda -> floordiv_by_fr_p_value) transcribed step by
   step with its fixed register widths, on toy members of the BLS12 family (r = x^4 - x^2 + 1, the
   lattice basis (x^2 - 1, x^2), eigenvalue L = r - x^2, reciprocal m = ceil(2^(N+l) / r)), so that TLC
   can decide it for EVERY scalar of the accepted width -- including the scalars in [r, 2^KB) which
   the caller, as shipped, passes on unreduced (it computes scalar - r into a local and then does not
   use it).

   Widths, as in the code:  k : KB bits (256);  v1_2, v2_1, rounded b2 : VB bits (128);
   v1_2 * k : N = KB + VB bits (384);  m : N bits;  shift N + l with l = bitlen(r) - 1 (254).

   Variant  "shipped"         the code as it is (unreduced scalar reaches decompose_lambda)
            "reduced-caller"  the caller passes scalar - r when scalar >= r (what the local suggests)
            "drop-b1"         the +1 for rounded_b1 = 1 is forgotten             (must be rejected)
            "c1-sign"         c1's sign flag wrong in the rounded_b1 = 0 branch    (must be rejected)
            "basis-off"       v1_2 = x^2 instead of x^2 - 1                        (must be rejected) *)
EXTENDS Integers, TLC
CONSTANTS X, Variant, ExactRecip
VARIABLES k, pc, kk, b1, b2, prod, c0, c0neg, c1, c1neg

RECURSIVE BitLen(_)
BitLen(n) == IF n = 0 THEN 0 ELSE 1 + BitLen(n \div 2)
Max(a, b) == IF a > b THEN a ELSE b
X2 == X * X
R  == X2 * X2 - X2 + 1
V12 == IF Variant = "basis-off" THEN X2 ELSE X2 - 1
V21 == X2
Lam == R - X2
VB == BitLen(X2)
KB == Max(BitLen(R) + 1, 2 * VB)
N  == KB + VB
Lr == BitLen(R) - 1
Recip == ((2 ^ (N + Lr)) + R - 1) \div R                  \* ceil(2^(N+l) / r): the constant m of Theorem 4.2

\* the structural facts the real constants satisfy (MC_Consts checks them on the source text at full size)
ASSUME V21 + Lam = R
ASSUME Variant = "basis-off" \/ (V12 * Lam) % R = 1
ASSUME (Lam * Lam + Lam + 1) % R = 0
ASSUME Recip < 2 ^ N
\* floor(n m / 2^(N+l)); the product is wider than TLC's 32-bit integers, so m is split into two halves:
\* n m = 2^h (n mh) + n ml, and the low h bits of the sum cannot reach the quotient
HalfM == (N + 1) \div 2
MulShift(n) == LET h == 2 ^ HalfM IN ((n * (Recip \div h)) + ((n * (Recip % h)) \div h)) \div (2 ^ (N + Lr - HalfM))
\* Theorem 4.2 promises exact floor division of every N-bit dividend when 2^(N+l) <= m r <= 2^(N+l) + 2^l.  With
\* l = bitlen(r) - 1 (the choice that keeps m within N bits) that is a numeric accident of r: it holds for the real
\* r (MC_Consts), for x = 4, 7, 8, 9, and fails for x = 2, 3, 5, 6.  ExactRecip says which case the instance is; the
\* instances where it fails show that correctness does not rest on it.
ASSUME ExactRecip = (Recip * R - 2 ^ (N + Lr) <= 2 ^ Lr)
ASSUME ExactRecip => \A n \in 0..(2 ^ N - 1) : MulShift(n) = n \div R

vars == <<k, pc, kk, b1, b2, prod, c0, c0neg, c1, c1neg>>
Init == /\ k \in 0..(2 ^ KB - 1) /\ pc = "caller" /\ kk = 0 /\ b1 = 0 /\ b2 = 0 /\ prod = 0
        /\ c0 = 0 /\ c0neg = FALSE /\ c1 = 0 /\ c1neg = FALSE

\* multiply_endomorphism(a, scalar): the comparison with r and what is handed to decompose_lambda
Caller == /\ pc = "caller"
          /\ kk' = IF k < R THEN k ELSE IF Variant = "reduced-caller" THEN k - R ELSE k
          /\ pc' = "b1" /\ UNCHANGED <<k, b1, b2, prod, c0, c0neg, c1, c1neg>>
\* rounded_b1: shift_left_in_word<1> carries out, else compare 2k with r
RoundB1 == /\ pc = "b1"
           /\ b1' = IF 2 * kk >= 2 ^ KB THEN 1 ELSE IF (2 * kk) % (2 ^ KB) < R THEN 0 ELSE 1
           /\ pc' = "b2" /\ UNCHANGED <<k, kk, b2, prod, c0, c0neg, c1, c1neg>>
\* rounded_b2 = low VB bits of floor(v1_2 k m / 2^(N+l))   (result.copy into BigInt<VB> truncates)
RoundB2 == /\ pc = "b2"
           /\ b2' = MulShift(V12 * kk) % (2 ^ VB)
           /\ pc' = "c0" /\ UNCHANGED <<k, kk, b1, prod, c0, c0neg, c1, c1neg>>
\* c0 = k - rounded_b1 - rounded_b2 v2_1, as magnitude and sign; product lives in a KB-bit register
C0 == /\ pc = "c0"
      /\ LET p == (b2 * V21 + (IF b1 = 1 /\ Variant # "drop-b1" THEN 1 ELSE 0)) % (2 ^ KB) IN
           /\ prod' = b2 * V21 + b1                      \* exact value, for the NoOverflow invariant
           /\ c0neg' = (kk < p)
           /\ c0' = IF kk < p THEN p - kk ELSE kk - p
      /\ pc' = "c1" /\ UNCHANGED <<k, kk, b1, b2, c1, c1neg>>
\* c1 = rounded_b1 v1_2 - rounded_b2
C1 == /\ pc = "c1"
      /\ IF b1 = 0 THEN c1neg' = (Variant # "c1-sign") /\ c1' = b2
         ELSE c1neg' = (V12 < b2) /\ c1' = (IF V12 < b2 THEN b2 - V12 ELSE V12 - b2)
      /\ pc' = "done" /\ UNCHANGED <<k, kk, b1, b2, prod, c0, c0neg>>
Next == Caller \/ RoundB1 \/ RoundB2 \/ C0 \/ C1
Spec == Init /\ [][Next]_vars

Signed(v, neg) == IF neg THEN 0 - v ELSE v
\* the decomposition is one: [k]P = [c0]P + [c1]phi(P) for P of order r
Recombines == pc = "done" => (Signed(c0, c0neg) + Signed(c1, c1neg) * Lam - k) % R = 0
\* no register wraps: the exact product fits KB bits, the results fit the KB-bit outputs
NoOverflow == pc \in {"c1", "done"} => prod < 2 ^ KB /\ c0 < 2 ^ KB /\ c1 < 2 ^ KB
\* on the documented domain the parts are short (this is what makes the method fast, not what makes it right)
ShortOnDomain == (ExactRecip /\ pc = "done" /\ k < R) => c0 <= 2 ^ VB /\ c1 <= 2 ^ VB
\* the comment "we can bound it to VB bits" holds exactly on the documented domain
B2Untruncated == (ExactRecip /\ pc \in {"c0", "c1", "done"} /\ kk < R) => b2 = (V12 * kk) \div R
=============================================================================
