
