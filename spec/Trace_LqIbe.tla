------------------------------ MODULE Trace_LqIbe ------------------------------
EXTENDS TraceBase, LqIbe
VARIABLES l, st
V1(x)  == FqM!Val(Norm(x))
V2(x)  == <<V1(x[1]), V1(x[2])>>
Aff1(a) == IF a[3] # 0 THEN <<>> ELSE <<V1(a[1]), V1(a[2])>>
Aff2(a) == IF a[3] # 0 THEN <<>> ELSE <<V2(a[1]), V2(a[2])>>
Jac2(j) == E2!JacToAffine(V2(j[1]), V2(j[2]), V2(j[3]))

Checks(ev) ==
  LET Pp == Jac2(ev.p)
      s  == ModN(Norm(ev.s), RMod)
      rho == Norm(ev.out.drawn)
      Qid == Aff1(ev.out.id)
      Rp == Aff2(ev.out.rp)
      g  == RefPairing(Qid, E2!ScalarMul(MulMod(rho, s, RMod), Pp))
      want == HashInput(Qid, Rp, g)
  IN << <<"pre.params", Jac2(ev.sp) = E2!ScalarMul(s, Pp) /\ E2!OnCurve(Pp) /\ E2!ScalarMul(RMod, Pp) = <<>> /\ Pp # <<>>>>,
        <<"identity-point", Qid \in IdPoints(ev.idhash) /\ E1!ScalarMul(RMod, Qid) = <<>>>>,
        <<"identity-overlapping-storage", ~Has(ev.out, "id_overlap") \/ Aff1(ev.out.id_overlap) = Qid>>,
        <<"secret-key", Aff1(ev.out.sk) = E1!ScalarMul(s, Qid)>>,
        <<"ciphertext", Rp = E2!ScalarMul(rho, Pp)>>,
        <<"one-hash-call-each", ev.out.hash_calls = 2>>,
        <<"enc-hash-input", ev.out.enc_in = want>>,
        <<"dec-hash-input", ev.out.dec_in = ev.out.enc_in>>,
        <<"hash-input-length", Len(ev.out.enc_in) = 48 + 96 + 576>>,
        <<"symmetric-key", ev.out.sym_d = ev.out.sym_e /\ Len(ev.out.sym_e) = ev.len /\ ev.out.guard = 1>>,
        \* the derived identity must be a usable (non-identity) element of G1
        <<"identity-not-at-infinity", Qid # <<>>>>,
        <<"negatives-differ", Qid = <<>> \/ \A i \in 1..Len(ev.out.neg_in) : (i \in {1, 2} /\ Aff1(ev.out.id2) = Qid) \/ ev.out.neg_in[i] # ev.out.enc_in>>,
        \* names the route of a known finding (the order-3 point (0, +-2)); never a violation by itself
        <<"diag.tai-x-nonzero", ~IsZero(TaiX(ev.idhash))>>,
        <<"diag.sampler-protocol", rho = Norm(ev.t)>> >>
Fails(ev) == IF ev.op # "lq.run" THEN {"unknown-op"} ELSE FailsOf(Checks(ev))
Init == l \in 1..NLines /\ st = "todo"
Next == /\ st = "todo"
        /\ LET f == Fails(Tr[l]) IN
             /\ st' = "done"
             /\ IF f = {} THEN TRUE ELSE PrintT(<<"FAIL", l, f>>)
        /\ UNCHANGED l
=============================================================================
