---------------------------- MODULE MC_WordArith -----------------------------
(* Exhaustive check of the Tier A algorithms (WordArith) against integer arithmetic, for all
   operands and every admissible odd modulus of a small (W,N) instance.  The verdict of each
   (modulus, a, b) triple is computed in an action so that the workers share the work.       *)
EXTENDS WordArith, TLC, FiniteSets
VARIABLES p, a, b, st
vars == <<p, a, b, st>>

M == B ^ N                                      \* 2^(W*N)
\* admissible moduli: odd, top word non-zero, and 2p < 2^(WN) (the library's primes satisfy this;
\* TLC shows the final meta-carry may be dropped exactly under this condition, see NeedsMeta)
Moduli == { x \in 3..(M - 1) : x % 2 = 1 /\ 2 * x < M /\ x >= B ^ (N - 1) }
AnyOddModuli == { x \in 3..(M - 1) : x % 2 = 1 /\ x >= B ^ (N - 1) }

IsPrime(x) == \A d \in 2..(x - 1) : x % d # 0
InvWord(x) == CHOOSE i \in Words : (x * i + 1) % B = 0       \* -x^-1 mod B
Wd(v) == ToWords(v, N)

Ok(pp, x, y) ==
  LET P == Wd(pp)  X == Wd(x)  Y == Wd(y)
      inv == InvWord(pp)
      R == M % pp
      Rinv == CHOOSE i \in 0..(pp - 1) : (i * R) % pp = 1 % pp
      prod == x * y
  IN
  \* raw add / subtract / compare / shift with flags
  /\ ValOf(AddW(X, Y).r) = (x + y) % M /\ AddW(X, Y).c = (x + y) \div M
  /\ ValOf(SubW(X, Y).r) = (x + M - y) % M /\ SubW(X, Y).c = (IF x < y THEN 1 ELSE 0)
  /\ CmpW(X, Y) = (IF x < y THEN 0 - 1 ELSE IF x > y THEN 1 ELSE 0)
  /\ ValOf(Shl1(X).r) = (2 * x) % M /\ Shl1(X).c = (2 * x) \div M
  \* full products
  /\ ValOf(MulSchool(X, Y)) = prod
  /\ ValOf(SquareHalfGrid(X)) = x * x
  /\ ValOf(SquareAsmBase(X, TRUE)) = x * x
  \* modular operations on canonical operands; the generic and the assembly shape agree
  /\ (x < pp /\ y < pp) =>
       /\ ValOf(FpAdd(X, Y, P)) = (x + y) % pp /\ FpAddEarly(X, Y, P) = FpAdd(X, Y, P)
       /\ ValOf(FpSub(X, Y, P)) = (x + pp - y) % pp /\ FpSubAsm(X, Y, P) = FpSub(X, Y, P)
       /\ ValOf(FpDbl(X, P)) = (2 * x) % pp /\ FpDblEarly(X, P) = FpDbl(X, P)
       /\ ValOf(FpNeg(X, P)) = (pp - x) % pp
       /\ ValOf(MontMul(X, Y, P, inv)) = (prod * Rinv) % pp
       /\ ValOf(MontSqr(X, P, inv)) = (x * x * Rinv) % pp
       /\ MontReduceEarly(MulSchool(X, Y), P, inv) = MontMul(X, Y, P, inv)
       /\ MontReduceMeta(MulSchool(X, Y), P, inv) = 0
       /\ IsPrime(pp) => FpInverseBeea(x, (R * R) % pp, pp) = (IF x = 0 THEN 0 ELSE CHOOSE i \in 1..(pp - 1) : (i * x) % pp = (R * R) % pp)
  /\ (x < 2 * pp) => ValOf(Reduce(X, P)) = x % pp
  \* conversion out of Montgomery form reduces the zero-extended value
  /\ (x < pp) => ValOf(MontReduce([k \in 1..(2 * N) |-> IF k <= N THEN X[k] ELSE 0], P, inv)) = (x * Rinv) % pp
  \* word division
  /\ (y % B # 0) => LET d == y % B  q == DivWord(X, d) IN ValOf(q.q) = x \div d /\ q.rem = x % d

Init == p \in Moduli /\ a \in 0..(M - 1) /\ b \in 0..(M - 1) /\ st = "todo"
Next == st = "todo" /\ st' = (IF Ok(p, a, b) THEN "ok" ELSE "bad") /\ UNCHANGED <<p, a, b>>
Inv == st # "bad"
=============================================================================
