---------------------------- MODULE Trace_Pairing -----------------------------
(* Trace specification for the pairing and the target group (C01, C07, C08). *)
EXTENDS TraceBase, Pairing
VARIABLES l, st
FqF == INSTANCE PrimeField WITH P <- QMod, NBytes <- 48

V1(x)  == FqF!Val(Norm(x))
V2(x)  == <<V1(x[1]), V1(x[2])>>
V6(x)  == <<V2(x[1]), V2(x[2]), V2(x[3])>>
V12(x) == <<V6(x[1]), V6(x[2])>>
C1(x)  == Lt(Norm(x), QMod)
C2(x)  == C1(x[1]) /\ C1(x[2])
C6(x)  == C2(x[1]) /\ C2(x[2]) /\ C2(x[3])
C12(x) == C6(x[1]) /\ C6(x[2])
Aff1(a) == IF a[3] # 0 THEN <<>> ELSE <<V1(a[1]), V1(a[2])>>
Aff2(a) == IF a[3] # 0 THEN <<>> ELSE <<V2(a[1]), V2(a[2])>>
Jac1(j) == E1!JacToAffine(V1(j[1]), V1(j[2]), V1(j[3]))
Jac2(j) == E2!JacToAffine(V2(j[1]), V2(j[2]), V2(j[3]))
InG1(P) == E1!OnCurve(P) /\ E1!ScalarMul(RMod, P) = <<>>
InG2(P) == E2!OnCurve(P) /\ E2!ScalarMul(RMod, P) = <<>>
BE12(x) == LET b1(v) == ToBE(v, 48)
               b2(v) == b1(v[2]) \o b1(v[1])
               b6(v) == b2(v[3]) \o b2(v[2]) \o b2(v[1])
           IN b6(x[2]) \o b6(x[1])

RECURSIVE BuildSingles(_, _, _)
BuildSingles(es, i, acc) == IF i > Len(es) THEN acc ELSE BuildSingles(es, i + 1, Append(acc, RefPairing(Aff1(es[i].p), Aff2(es[i].q))))
RECURSIVE ProdSeq(_, _)
ProdSeq(s, i) == IF i > Len(s) THEN F12!EOne ELSE F12Mul(s[i], ProdSeq(s, i + 1))
X == XAbs
PowXVal(c) == Add(Add(c[1], Mul(c[2], X)), Add(Mul(c[3], Mul(X, X)), Mul(c[4], Mul(X, Mul(X, X)))))

\* recover the four base-|x| digits the sampler accepted from the logged requests (8 bytes each)
RECURSIVE TakeDigits(_, _, _)
TakeDigits(reqs, i, acc) ==
  IF i > Len(reqs) THEN acc
  ELSE LET c == Norm(reqs[i])
           acc2 == IF Lt(c, X) THEN Append(acc, c) ELSE acc
       IN IF Len(acc2) = 4 THEN (IF Lt(PowXVal(acc2), RMod) THEN acc2 ELSE TakeDigits(reqs, i + 1, <<>>)) ELSE TakeDigits(reqs, i + 1, acc2)

Checks(ev) ==
  LET o == ev.op IN
  CASE o = "pair.single" ->
         LET P == IF Has(ev, "pj") THEN Jac1(ev.pj) ELSE Aff1(ev.p)
             Qt == IF Has(ev, "qj") THEN Jac2(ev.qj) ELSE Aff2(ev.q)
             e == V12(ev.out.r)
         IN << <<"pre.subgroup", InG1(P) /\ InG2(Qt)>>,
               <<"canon", C12(ev.out.r)>>,
               <<"value", e = RefPairing(P, Qt)>>,
               <<"identity-iff", (e = F12!EOne) = (P = <<>> \/ Qt = <<>>)>>,
               <<"order-r", F12Exp(e, RMod) = F12!EOne>>,
               \* consequences recorded by the random driver: e(aP, bQ) = e(P, Q)^(ab)
               <<"bilinear", ~Has(ev, "sa") \/ e = F12Exp(RefPairing(Aff1(ev.p0), Aff2(ev.q0)), MulMod(Norm(ev.sa), Norm(ev.sb), RMod))>>,
               <<"prepared-flag", ~Has(ev.out, "prep_is_zero") \/ (ev.out.prep_is_zero = 1) = (Qt = <<>>)>> >>
    [] o = "pair.sum" ->
         LET n == Len(ev.entries)
             singles == BuildSingles(ev.entries, 1, <<>>)       \* a real tuple: computed once
             prod == ProdSeq(singles, 1)
             skipped(i) == ev.entries[i].p[3] # 0 \/ ev.entries[i].q[3] # 0
             prepIdx == SelectSeq([i \in 1..n |-> i], LAMBDA i : ev.entries[i].kind = "prepared")
         IN << <<"num-coeffs", ev.out.num_coeffs = NumCoeffs /\ ev.out.num_coeffs_cpp = NumCoeffs>>,
               <<"singles", \A i \in 1..n : V12(ev.out.singles[i]) = singles[i]>>,
               <<"product", \A k \in 1..Len(ev.out.results) : V12(ev.out.results[k]) = prod /\ C12(ev.out.results[k])>>,
               <<"cursors", \A k \in 1..Len(ev.out.cursors) : \A m \in 1..Len(prepIdx) :
                              ev.out.cursors[k][m] = (IF skipped(prepIdx[m]) THEN 0 ELSE NumCoeffs)>> >>
    \* n records of one pair with identity operands at some positions: the product is e(P, Q)^(n - #identity positions), whatever n is
    [] o = "pair.long" ->
         << <<"product", V12(ev.out.r) = F12Exp(RefPairing(Aff1(ev.p), Aff2(ev.q)), FromNat(ev.n - Len(ev.idpos)))>>, <<"canon", C12(ev.out.r)>> >>
    [] o = "gt.const" ->
         << <<"gt-generator", V12(ev.out.gen) = GTGen>>, <<"gt-one", V12(ev.out.one) = F12!EOne>>,
            <<"g1-generator", Aff1(ev.out.g1) = G1Gen>>, <<"g2-generator", Aff2(ev.out.g2) = G2Gen>>, <<"order", Norm(ev.out.order) = RMod>> >>
    [] o = "gt.exp" ->
         LET a == V12(ev.a) IN
         << <<"pre.in-gt", InGT(a) /\ InCyclotomic(a)>>, <<"canon", C12(ev.out.r)>>, <<"value", V12(ev.out.r) = F12Exp(a, Norm(ev.k))>> >>
    [] o = "gt.op" ->
         LET a == V12(ev.a)  w == ev.which IN
         CASE w = "add" -> << <<"value", V12(ev.out.r) = F12Mul(a, IF Has(ev, "alias") /\ ev.alias = 3 THEN a ELSE V12(ev.b))>>, <<"canon", C12(ev.out.r)>> >>
           [] w = "negate" -> << <<"value", F12Mul(V12(ev.out.r), a) = F12!EOne>>, <<"canon", C12(ev.out.r)>> >>
           [] w = "double" -> << <<"pre.in-gt", InCyclotomic(a)>>, <<"value", V12(ev.out.r) = F12Mul(a, a)>>, <<"canon", C12(ev.out.r)>> >>
           [] w = "equal" -> << <<"value", ev.out.v = (IF a = V12(ev.b) THEN 1 ELSE 0)>> >>
           [] w = "marshal" -> << <<"bytes", ev.out.bytes = BE12(a)>>, <<"roundtrip", V12(ev.out.back) = a>>, <<"size", ev.out.size = 576 /\ ev.out.guard = 1>> >>
           [] OTHER -> << <<"unknown-op", FALSE>> >>
    [] o = "gt.finalexp" ->
         << <<"canon", C12(ev.out.r)>>, <<"value", V12(ev.out.r) = F12Exp(V12(ev.a), FinalExponent)>> >>
    [] o = "gt.random" ->
         LET a == V12(ev.a)  y == Norm(ev.out.y)
             d == TakeDigits(ev.out.reqs, 1, <<>>)
         IN << <<"pre.in-gt", InGT(a)>>, <<"range", Lt(y, RMod)>>, <<"value", V12(ev.out.r) = F12Exp(a, y)>>, <<"canon", C12(ev.out.r)>>,
               <<"diag.protocol", Len(d) = 4 /\ PowXVal(d) = y>> >>
    [] OTHER -> << <<"unknown-op", FALSE>> >>

Fails(ev) == FailsOf(Checks(ev))
Init == l \in 1..NLines /\ st = "todo"
Next == /\ st = "todo"
        /\ LET f == Fails(Tr[l]) IN
             /\ st' = "done"
             /\ IF f = {} THEN TRUE ELSE PrintT(<<"FAIL", l, f>>)
        /\ UNCHANGED l
=============================================================================
