------------------------------- MODULE IsaA64 -------------------------------
(* Operational semantics of the AArch64 subset that the library's assembly back end uses
   (adds adcs subs sbcs add mul umulh cmp cmn cset ldp stp b.cond ret; 64-bit registers, flags
   C and Z, little-endian memory of 64-bit words, post- / pre-indexed and offset addressing),
   so that TLC can EXECUTE the assembled routines of the tree under test (instruction records
   produced from llvm-objdump by tools/a64_listing.py) on the C03 vectors: the AArch64
   configuration cannot be run natively in this sandbox.

   Machine state: [x |-> registers 0..30 and 32 (= sp) as big naturals below 2^64, c, z |-> flags,
   mem |-> function from 8-byte-aligned addresses to 64-bit words, pc, halted, fault].
   Register 31 is xzr: reads as zero, writes are discarded.  A load from an address outside mem
   or an instruction outside the modelled subset sets fault (reported, never guessed). *)
EXTENDS BigNat, Naturals, Sequences, FiniteSets, TLC

W64 == Pow2(64)
Ones64 == Sub(W64, One)
Trunc(v) == ModPow2(v, 64)
XZR == 31
SP == 32

Rd(st, r) == IF r = XZR THEN Zero ELSE st.x[r]
Wr(st, r, v) == IF r = XZR THEN st ELSE [st EXCEPT !.x[r] = Trunc(v)]

\* the ARM pseudocode AddWithCarry: result, carry flag (unsigned overflow), zero flag
AWC(a, b, cin) == LET s == Add(Add(a, b), FromNat(cin)) IN [v |-> Trunc(s), c |-> IF Lt(s, W64) THEN 0 ELSE 1, z |-> IF IsZero(Trunc(s)) THEN 1 ELSE 0]
Not64(v) == Sub(Ones64, v)
SetFlags(st, r) == [st EXCEPT !.c = r.c, !.z = r.z]

Cond(st, cc) == CASE cc \in {"hs", "cs"} -> st.c = 1
                  [] cc \in {"lo", "cc"} -> st.c = 0
                  [] cc = "hi" -> st.c = 1 /\ st.z = 0
                  [] cc = "ls" -> ~(st.c = 1 /\ st.z = 0)
                  [] cc = "eq" -> st.z = 1
                  [] cc = "ne" -> st.z = 0
                  [] OTHER -> FALSE
KnownCond == {"hs", "cs", "lo", "cc", "hi", "ls", "eq", "ne"}

\* second source operand: register or immediate
Op2(st, i) == IF i.mode = "imm" THEN FromNat(i.imm) ELSE Rd(st, i.r[Len(i.r)])
Addr(st, i) == LET b == ToNat(st.x[i.r[3]]) IN IF i.mode = "post" THEN b ELSE b + i.imm
Next4(st) == [st EXCEPT !.pc = @ + 4]
Fault(st, why) == [st EXCEPT !.halted = TRUE, !.fault = why]

Step(st, i) ==
  LET mn == i.mn IN
  CASE mn = "adds" -> LET r == AWC(Rd(st, i.r[2]), Op2(st, i), 0) IN Next4(SetFlags(Wr(st, i.r[1], r.v), r))
    [] mn = "adcs" -> LET r == AWC(Rd(st, i.r[2]), Op2(st, i), st.c) IN Next4(SetFlags(Wr(st, i.r[1], r.v), r))
    [] mn = "subs" -> LET r == AWC(Rd(st, i.r[2]), Not64(Op2(st, i)), 1) IN Next4(SetFlags(Wr(st, i.r[1], r.v), r))
    [] mn = "sbcs" -> LET r == AWC(Rd(st, i.r[2]), Not64(Op2(st, i)), st.c) IN Next4(SetFlags(Wr(st, i.r[1], r.v), r))
    [] mn = "cmp"  -> LET r == AWC(Rd(st, i.r[1]), Not64(Op2(st, i)), 1) IN Next4(SetFlags(st, r))
    [] mn = "cmn"  -> LET r == AWC(Rd(st, i.r[1]), Op2(st, i), 0) IN Next4(SetFlags(st, r))
    [] mn = "add"  -> Next4(Wr(st, i.r[1], Add(Rd(st, i.r[2]), Op2(st, i))))
    [] mn = "adc"  -> Next4(Wr(st, i.r[1], Add(Add(Rd(st, i.r[2]), Op2(st, i)), FromNat(st.c))))
    [] mn = "mul"  -> Next4(Wr(st, i.r[1], Mul(Rd(st, i.r[2]), Rd(st, i.r[3]))))
    [] mn = "umulh" -> Next4(Wr(st, i.r[1], ShiftR(Mul(Rd(st, i.r[2]), Rd(st, i.r[3])), 64)))
    [] mn = "cset" -> IF i.cond \in KnownCond THEN Next4(Wr(st, i.r[1], IF Cond(st, i.cond) THEN One ELSE Zero)) ELSE Fault(st, "condition " \o i.cond)
    [] mn = "bcond" -> IF i.cond \in KnownCond THEN (IF Cond(st, i.cond) THEN [st EXCEPT !.pc = i.target] ELSE Next4(st)) ELSE Fault(st, "condition " \o i.cond)
    [] mn = "ldp" -> LET a == Addr(st, i) IN
                     IF a \notin DOMAIN st.mem \/ (a + 8) \notin DOMAIN st.mem THEN Fault(st, "load outside the operands")
                     ELSE LET s1 == Wr(Wr(st, i.r[1], st.mem[a]), i.r[2], st.mem[a + 8])
                              wb == IF i.mode = "off" THEN s1 ELSE [s1 EXCEPT !.x[i.r[3]] = FromNat(ToNat(st.x[i.r[3]]) + i.imm)]
                          IN Next4(wb)
    [] mn = "stp" -> LET a == Addr(st, i) IN
                     IF a \notin DOMAIN st.mem \/ (a + 8) \notin DOMAIN st.mem THEN Fault(st, "store outside the operands")
                     ELSE LET s1 == [st EXCEPT !.mem[a] = Rd(st, i.r[1]), !.mem[a + 8] = Rd(st, i.r[2]), !.written = @ \cup {a, a + 8}]
                              wb == IF i.mode = "off" THEN s1 ELSE [s1 EXCEPT !.x[i.r[3]] = FromNat(ToNat(st.x[i.r[3]]) + i.imm)]
                          IN Next4(wb)
    [] mn = "ret" -> [st EXCEPT !.halted = TRUE]
    [] OTHER -> Fault(st, "unmodelled instruction " \o i.text)

\* run from st.pc until ret (prog: function from address to instruction record)
RECURSIVE Run(_, _, _)
Run(st, prog, fuel) ==
  IF st.halted THEN st
  ELSE IF fuel = 0 THEN Fault(st, "no ret within the step budget")
  ELSE IF st.pc \notin DOMAIN prog THEN Fault(st, "pc outside the routine")
  ELSE Run([Step(st, prog[st.pc]) EXCEPT !.steps = @ + 1], prog, fuel - 1)

\* ---- memory images -------------------------------------------------------------------------------------------
\* n 64-bit words of value v (little-endian word order) at base address
Words(v, n) == [k \in 0..(n - 1) |-> ModPow2(ShiftR(v, 64 * k), 64)]
Region(base, n) == { base + 8 * k : k \in 0..(n - 1) }
ReadValue(mem, base, n) == LET RECURSIVE S(_) S(k) == IF k = n THEN Zero ELSE Add(ShiftL(mem[base + 8 * k], 64 * k), S(k + 1)) IN S(0)
=============================================================================
