CONSTANTS P = 1019
 Bits = 11
 Mode = "sqrt-34"
INIT Init
NEXT Next
INVARIANT AllGood
CHECK_DEADLOCK FALSE
