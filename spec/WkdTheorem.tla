---------------------------- MODULE WkdTheorem ----------------------------
(* Proved with TLAPS (tlapm; back end Z3) for ALL integers, hence modulo r and for ANY number of slots: the algebra behind
   WkdIbe.tla's representation of a key as (rho, pattern).  Group elements are written by their discrete logarithms (Appendix A
   of DESIGN.md); a pairing multiplies logarithms.  ad = alpha * delta (the master secret's exponent), gam = log g, sig = log hsig,
   H = log(g3 * prod h_i^id_i) over the fixed slots of the key.

   QualifyKeepsForm   a key of the form  a0 = ad + rho H,  b_j = rho eta_j  delegated by  a0' = a0 + sum_j b_j id_j + t H'
                      (D = sum_j eta_j id_j over the newly fixed slots, H' = H + D) is again of that form with rho + t;
                      likewise every remaining b_j' = b_j + t eta_j.  By induction every key reachable by ANY delegation history
                      has the form that WkdIbe.tla takes as the definition of a key (MC_WkdIbeAlg explores histories up to 4 slots).
   DecryptRecovers    any key of that form opens any ciphertext made for the same H:  a + c a1 - a0 b = mu.
   SignatureVerifies  a signature made with any key of that form, extended by free slots (E = sum eta_j id_j, ext = rho E),
                      satisfies the verification equation for H' = H + E and the signed message.                           *)
EXTENDS Integers, TLAPS

THEOREM QualifyKeepsForm ==
  ASSUME NEW ad \in Int, NEW rho \in Int, NEW t \in Int, NEW H \in Int, NEW D \in Int, NEW a0 \in Int, NEW bsum \in Int, NEW H2 \in Int,
         NEW eta \in Int, NEW b \in Int,
         a0 = ad + rho * H, bsum = rho * D, H2 = H + D, b = rho * eta
  PROVE  /\ a0 + bsum + t * H2 = ad + (rho + t) * H2
         /\ b + t * eta = (rho + t) * eta
<1>1. a0 + bsum + t * H2 = ad + rho * H + rho * D + t * (H + D)
  OBVIOUS
<1>2. ad + rho * H + rho * D + t * (H + D) = ad + (rho + t) * (H + D)
  BY Z3T(30)
<1>3. b + t * eta = (rho + t) * eta
  BY Z3T(30)
<1> QED BY <1>1, <1>2, <1>3

THEOREM DecryptRecovers ==
  ASSUME NEW alp \in Int, NEW del \in Int, NEW gam \in Int, NEW rho \in Int, NEW h \in Int, NEW s \in Int, NEW mu \in Int,
         NEW a \in Int, NEW b \in Int, NEW c \in Int, NEW a0 \in Int, NEW a1 \in Int,
         a = mu + s * (alp * gam * del), b = s * gam, c = s * h,
         a0 = alp * del + rho * h, a1 = rho * gam
  PROVE  a + c * a1 - a0 * b = mu
<1>1. a + c * a1 - a0 * b = mu + s * (alp * gam * del) + (s * h) * (rho * gam) - (alp * del + rho * h) * (s * gam)
  OBVIOUS
<1>2. mu + s * (alp * gam * del) + (s * h) * (rho * gam) - (alp * del + rho * h) * (s * gam) = mu
  BY Z3T(60)
<1> QED BY <1>1, <1>2

THEOREM SignatureVerifies ==
  ASSUME NEW alp \in Int, NEW del \in Int, NEW gam \in Int, NEW sig \in Int, NEW rho \in Int, NEW hK \in Int, NEW E \in Int, NEW h2 \in Int,
         NEW m \in Int, NEW s \in Int, NEW a0 \in Int, NEW a1 \in Int, NEW bsig \in Int, NEW ext \in Int, NEW s0 \in Int, NEW s1 \in Int,
         a0 = alp * del + rho * hK, a1 = rho * gam, bsig = rho * sig, ext = rho * E, h2 = hK + E,
         s0 = a0 + m * bsig + ext + s * (sig * m + h2), s1 = a1 + s * gam
  PROVE  gam * s0 - (sig * m + h2) * s1 = alp * gam * del
<1>1. gam * s0 - (sig * m + h2) * s1
        = gam * (alp * del + rho * hK + m * (rho * sig) + rho * E + s * (sig * m + (hK + E))) - (sig * m + (hK + E)) * (rho * gam + s * gam)
  OBVIOUS
<1>2. gam * (alp * del + rho * hK + m * (rho * sig) + rho * E + s * (sig * m + (hK + E))) - (sig * m + (hK + E)) * (rho * gam + s * gam)
        = alp * gam * del
  BY Z3T(60)
<1> QED BY <1>1, <1>2
=============================================================================
