------------------------------ MODULE MC_CurveAlg ------------------------------
(* Exhaustive check of the coded Jacobian formulas (CurveAlg) against the affine group law (Curve)
   on a toy curve y^2 = x^3 + B over F_P: every pair of Jacobian representatives - every point, every
   z in F_P*, identities with every (x, y) pair from a sample - every affine operand, every unary
   operation.  P and B are chosen in the cfg (curves of odd order like the real ones, and one with
   2-torsion so that doubling a point with y = 0 is exercised). *)
EXTENDS Naturals, Sequences, FiniteSets, TLC
CONSTANTS P, B
Fp == 0..(P - 1)
TAdd(a, b) == (a + b) % P
TSub(a, b) == (a + P - b) % P
TMul(a, b) == (a * b) % P
TNeg(a) == (P - a) % P
RECURSIVE TPow(_, _)
TPow(a, e) == IF e = 0 THEN 1 ELSE IF e % 2 = 0 THEN TPow(TMul(a, a), e \div 2) ELSE TMul(a, TPow(a, e - 1))
TInv(a) == TPow(a, P - 2)
\* Curve.tla extends BigNat only for ScalarMul; the law itself is over the field operations given here
C == INSTANCE Curve WITH FZero <- 0, FOne <- 1, FAdd <- TAdd, FSub <- TSub, FMul <- TMul, FNeg <- TNeg, FInv <- TInv, BCoef <- B
A == INSTANCE CurveAlg WITH FZero <- 0, FOne <- 1, FAdd <- TAdd, FSub <- TSub, FMul <- TMul, FNeg <- TNeg, FInv <- TInv

Points == { <<>> } \cup { <<x, y>> \in Fp \X Fp : TMul(y, y) = TAdd(TMul(TMul(x, x), x), B) }
\* every Jacobian representative of a point: all z # 0; the identity as (x, y, 0) for a sample of (x, y)
Reps(Q) == IF Q = <<>> THEN { <<x, y, 0>> : x \in {0, 1, P - 1}, y \in {0, 1, 2} }
           ELSE { <<TMul(Q[1], TMul(z, z)), TMul(Q[2], TMul(TMul(z, z), z)), z>> : z \in 1..(P - 1) }
AffReps(Q) == IF Q = <<>> THEN { <<0, 1, 1>>, <<3, 5, 1>> } ELSE { <<Q[1], Q[2], 0>> }
Denotes(J, Q) == C!JacIs(J[1], J[2], J[3], Q)
AffDenotes(a, Q) == IF a[3] # 0 THEN Q = <<>> ELSE Q = <<a[1], a[2]>>

VARIABLES p1, p2
Init == p1 \in Points /\ p2 \in Points
Next == UNCHANGED <<p1, p2>>
\* invariants: evaluated for every pair of points, quantifying over every representative inside
AddOk == \A ja \in Reps(p1), jb \in Reps(p2) : Denotes(A!JAdd(ja, jb), C!PAdd(p1, p2))
MixedOk == \A ja \in Reps(p1), qb \in AffReps(p2) : Denotes(A!JAddMixed(ja, qb), C!PAdd(p1, p2))
DoubleOk == \A ja \in Reps(p1) : Denotes(A!JDouble(ja), C!PDbl(p1)) /\ Denotes(A!JNeg(ja), C!PNeg(p1))
EqualOk == \A ja \in Reps(p1), jb \in Reps(p2) : A!JEqual(ja, jb) = (p1 = p2)
ConvertOk == /\ \A ja \in Reps(p1) : AffDenotes(A!AFromJac(ja), p1)
             /\ \A qa \in AffReps(p1) : Denotes(A!JFromAffine(qa), p1)
\* results stay on the curve (as a consequence) and the group order is what the cfg says (sanity of the toy instance)
OrderIs(n) == Cardinality(Points) = n
=============================================================================
