// TLC module override for Tower.tla: schoolbook multiplication in Fq2 / Fq6 / Fq12 with
// java.math.BigInteger.  Accelerator only: Tower.tla/ExtField.tla hold the definitions and
// MC_Tower checks  F*MulQ(a,b,q) = F*!EMul(a,b)  on boundary and pseudo-random elements.
import java.math.BigInteger;
import tlc2.value.impl.IntValue;
import tlc2.value.impl.TupleValue;
import tlc2.value.impl.Value;

public class Tower {
    static BigInteger big(Value v) { return BigNat.big(v); }
    static Value val(BigInteger b) { return BigNat.val(b); }
    static Value[] el(Value v) { return ((TupleValue) v.toTuple()).elems; }

    static BigInteger[] f2(Value v) { Value[] e = el(v); return new BigInteger[] { big(e[0]), big(e[1]) }; }
    static BigInteger[][] f6(Value v) { Value[] e = el(v); return new BigInteger[][] { f2(e[0]), f2(e[1]), f2(e[2]) }; }
    static BigInteger[][][] f12(Value v) { Value[] e = el(v); return new BigInteger[][][] { f6(e[0]), f6(e[1]) }; }
    static Value v2(BigInteger[] a) { return new TupleValue(new Value[] { val(a[0]), val(a[1]) }); }
    static Value v6(BigInteger[][] a) { return new TupleValue(new Value[] { v2(a[0]), v2(a[1]), v2(a[2]) }); }
    static Value v12(BigInteger[][][] a) { return new TupleValue(new Value[] { v6(a[0]), v6(a[1]) }); }

    // Fq2 = Fq[u]/(u^2+1)
    static BigInteger[] mul2(BigInteger[] a, BigInteger[] b, BigInteger q) {
        BigInteger c0 = a[0].multiply(b[0]).subtract(a[1].multiply(b[1])).mod(q);
        BigInteger c1 = a[0].multiply(b[1]).add(a[1].multiply(b[0])).mod(q);
        return new BigInteger[] { c0, c1 };
    }
    static BigInteger[] add2(BigInteger[] a, BigInteger[] b, BigInteger q) {
        return new BigInteger[] { a[0].add(b[0]).mod(q), a[1].add(b[1]).mod(q) };
    }
    static final BigInteger[] Z2 = { BigInteger.ZERO, BigInteger.ZERO };
    static final BigInteger[] XI = { BigInteger.ONE, BigInteger.ONE };
    // Fq6 = Fq2[v]/(v^3 - xi): polynomial product, then v^3 = xi, v^4 = xi v
    static BigInteger[][] mul6(BigInteger[][] a, BigInteger[][] b, BigInteger q) {
        BigInteger[][] c = new BigInteger[5][];
        for (int k = 0; k < 5; k++) c[k] = Z2;
        for (int i = 0; i < 3; i++) for (int j = 0; j < 3; j++) c[i + j] = add2(c[i + j], mul2(a[i], b[j], q), q);
        return new BigInteger[][] { add2(c[0], mul2(XI, c[3], q), q), add2(c[1], mul2(XI, c[4], q), q), c[2] };
    }
    static BigInteger[][] add6(BigInteger[][] a, BigInteger[][] b, BigInteger q) {
        return new BigInteger[][] { add2(a[0], b[0], q), add2(a[1], b[1], q), add2(a[2], b[2], q) };
    }
    // multiplication by v in Fq6: (c0,c1,c2) -> (xi c2, c0, c1)
    static BigInteger[][] mulv(BigInteger[][] a, BigInteger q) {
        return new BigInteger[][] { mul2(XI, a[2], q), a[0], a[1] };
    }
    // Fq12 = Fq6[w]/(w^2 - v)
    static BigInteger[][][] mul12(BigInteger[][][] a, BigInteger[][][] b, BigInteger q) {
        BigInteger[][] c0 = mul6(a[0], b[0], q), c2 = mul6(a[1], b[1], q);
        BigInteger[][] c1 = add6(mul6(a[0], b[1], q), mul6(a[1], b[0], q), q);
        return new BigInteger[][][] { add6(c0, mulv(c2, q), q), c1 };
    }

    public static Value F2MulQ(Value a, Value b, Value q) { return v2(mul2(f2(a), f2(b), big(q))); }
    public static Value F6MulQ(Value a, Value b, Value q) { return v6(mul6(f6(a), f6(b), big(q))); }
    public static Value F12MulQ(Value a, Value b, Value q) { return v12(mul12(f12(a), f12(b), big(q))); }
    public static Value F12ExpQ(Value a, Value e, Value q) {
        BigInteger Q = big(q), E = big(e);
        BigInteger[][][] base = f12(a);
        BigInteger[] one2 = { BigInteger.ONE, BigInteger.ZERO };
        BigInteger[][][] acc = { { one2, Z2, Z2 }, { Z2, Z2, Z2 } };
        for (int i = E.bitLength() - 1; i >= 0; i--) {
            acc = mul12(acc, acc, Q);
            if (E.testBit(i)) acc = mul12(acc, base, Q);
        }
        return v12(acc);
    }
}
