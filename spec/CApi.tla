--------------------------------- MODULE CApi ---------------------------------
(* C19: the C interface is a faithful view of the C++ implementation.

   Inputs (all derived from the tree under test by tools/capi_extract.py and bin/check):
     DECLS     decls.ndjson : C struct declarations, typedef aliases, exported constants and functions
               parsed from the four C headers; the (C type, C++ type) pairs found in the wrapper
               translation units (every reinterpret_cast of a C struct pointer parameter, every
               exported constant pointer initialiser)
     MEASURED  rows printed by a C11 program (side "c": sizeof/_Alignof/offsetof of every declared
               struct and member) and by C++ programs (side "cpp": the same for the C++ type each
               struct is cast to, looked up member by member BY NAME; pairs are closed under
               struct-typed members and pointer element types), tagged with the word-size configuration
     CONSTS    every exported constant read through the C declaration and the C++ object it mirrors
     SYMBOLS   extern "C" symbols the static library defines (nm)
     EXERCISED keys of the driver events validated in this run (key -> number accepted / rejected)

   The judgement is made here; bin/check only moves files. *)
EXTENDS Json, IOUtils, TLC, Sequences, Naturals, FiniteSets, Pairing

Decls == ndJsonDeserialize(IOEnv.DECLS)
Rows(kind) == SelectSeq(Decls, LAMBDA d : d.kind = kind)
StructNames == { Rows("struct")[i].name : i \in 1..Len(Rows("struct")) }
DeclaredFns == { Rows("func")[i].name : i \in 1..Len(Rows("func")) }
DeclaredConsts == { Rows("const")[i].name : i \in 1..Len(Rows("const")) }

\* ---- layout ----------------------------------------------------------------------------------------------
Measured == ndJsonDeserialize(IOEnv.MEASURED)
CRow(cfg, type) == LET S == { i \in 1..Len(Measured) : Measured[i].side = "c" /\ Measured[i].cfg = cfg /\ Measured[i].type = type }
                   IN IF S = {} THEN [type |-> "<none>"] ELSE Measured[CHOOSE i \in S : TRUE]
CppIdx == { i \in 1..Len(Measured) : Measured[i].side = "cpp" }
MemberOf(row, path) == LET S == { j \in 1..Len(row.members) : row.members[j].path = path } IN row.members[CHOOSE j \in S : TRUE]
Has(r, k) == k \in DOMAIN r
\* the C++ type offers none of the C member names (e.g. Fr for the 256-bit integer struct): only size and alignment can be compared
Opaque(r) == \A j \in 1..Len(r.members) : Has(r.members[j], "missing")
LayoutFaults(i) ==
  LET r == Measured[i]   c == CRow(r.cfg, r.type) IN
  IF c.type = "<none>" THEN {"no-c-row"}
  ELSE (IF r.size # c.size THEN {"size"} ELSE {}) \cup (IF r.align # c.align THEN {"align"} ELSE {})
       \cup (IF Opaque(r) THEN {}
             ELSE UNION { LET m == r.members[j]  cm == MemberOf(c, m.path) IN
                          IF Has(m, "missing") THEN {"member-missing:" \o m.path}
                          ELSE (IF m.off # cm.off THEN {"offset:" \o m.path} ELSE {}) \cup (IF m.size # cm.size THEN {"member-size:" \o m.path} ELSE {})
                          : j \in 1..Len(r.members) })
\* sizes the specification itself fixes
SpecSizes == [ embedded_pairing_core_bigint_256_t |-> 32, embedded_pairing_core_bigint_384_t |-> 48, embedded_pairing_bls12_381_fq_t |-> 48,
               embedded_pairing_bls12_381_fq2_t |-> 96, embedded_pairing_bls12_381_fq6_t |-> 288, embedded_pairing_bls12_381_fq12_t |-> 576,
               embedded_pairing_bls12_381_g1_t |-> 144, embedded_pairing_bls12_381_g2_t |-> 288 ]
CIdx == { i \in 1..Len(Measured) : Measured[i].side = "c" /\ Measured[i].type # "<prim>" }
SpecFaults(i) ==
  LET r == Measured[i] IN
  (IF r.type \in DOMAIN SpecSizes /\ r.size # SpecSizes[r.type] THEN {"spec-size"} ELSE {})
  \cup (IF r.type = "embedded_pairing_bls12_381_g2prepared_t"
        THEN LET a == MemberOf(r, "coeffs")  s == MemberOf(r, "coeffs[1]") IN
             IF a.size = NumCoeffs * s.off /\ s.off = 3 * 96 THEN {} ELSE {"coefficient-count"}
        ELSE {})
PairedStructs == { Measured[i].type : i \in CppIdx }
UnpairedStructs == StructNames \ PairedStructs

\* ---- constants ---------------------------------------------------------------------------------------------
Consts == ndJsonDeserialize(IOEnv.CONSTS)
ConstFaults(i) == LET k == Consts[i] IN
  (IF k.c # k.cpp THEN {"c-vs-cpp"} ELSE {})
  \cup (IF k.name = "embedded_pairing_bls12_381_group_order" /\ Norm(k.c) # RMod THEN {"group-order"} ELSE {})
  \cup (IF k.name = "embedded_pairing_bls12_381_g1_marshalled_compressed_size" /\ k.c # <<48>> THEN {"size"} ELSE {})
  \cup (IF k.name = "embedded_pairing_bls12_381_g1_marshalled_uncompressed_size" /\ k.c # <<96>> THEN {"size"} ELSE {})
  \cup (IF k.name = "embedded_pairing_bls12_381_g2_marshalled_compressed_size" /\ k.c # <<96>> THEN {"size"} ELSE {})
  \cup (IF k.name = "embedded_pairing_bls12_381_g2_marshalled_uncompressed_size" /\ k.c # <<192>> THEN {"size"} ELSE {})
  \cup (IF k.name = "embedded_pairing_bls12_381_gt_marshalled_size" /\ k.c # <<576>> THEN {"size"} ELSE {})
ConstNames == { Consts[i].name : i \in 1..Len(Consts) }

\* ---- functions ---------------------------------------------------------------------------------------------
Symbols == { s.name : s \in { ndJsonDeserialize(IOEnv.SYMBOLS)[i] : i \in 1..Len(ndJsonDeserialize(IOEnv.SYMBOLS)) } }
G(f) == { "embedded_pairing_bls12_381_g1" \o f, "embedded_pairing_bls12_381_g2" \o f }
\* C function -> keys of the driver events that call it (an event key names operation, API variant and group)
FnKey(fn) ==
  LET B == "embedded_pairing_bls12_381_"  W == "embedded_pairing_wkdibe_"  L == "embedded_pairing_lqibe_" IN
  CASE fn = B \o "g1_add" -> "pt.add:c:1" [] fn = B \o "g2_add" -> "pt.add:c:2"
    [] fn = B \o "g1_add_mixed" -> "pt.add_mixed:c:1" [] fn = B \o "g2_add_mixed" -> "pt.add_mixed:c:2"
    [] fn = B \o "g1_negate" -> "pt.neg:c:1" [] fn = B \o "g2_negate" -> "pt.neg:c:2"
    [] fn = B \o "g1_double" -> "pt.dbl:c:1" [] fn = B \o "g2_double" -> "pt.dbl:c:2"
    [] fn = B \o "g1_multiply" -> "mul.fast:c:1:proj" [] fn = B \o "g2_multiply" -> "mul.fast:c:2:proj"
    [] fn = B \o "g1_multiply_affine" -> "mul.fast:c:1:affine" [] fn = B \o "g2_multiply_affine" -> "mul.fast:c:2:affine"
    [] fn = B \o "g1_equal" -> "pt.eq:c:1" [] fn = B \o "g2_equal" -> "pt.eq:c:2"
    [] fn = B \o "g1_from_affine" -> "pt.from_affine:c:1" [] fn = B \o "g2_from_affine" -> "pt.from_affine:c:2"
    [] fn = B \o "g1affine_from_projective" -> "pt.to_affine:c:1" [] fn = B \o "g2affine_from_projective" -> "pt.to_affine:c:2"
    [] fn = B \o "g1affine_negate" -> "pt.aneg:c:1" [] fn = B \o "g2affine_negate" -> "pt.aneg:c:2"
    [] fn = B \o "g1affine_equal" -> "pt.aeq:c:1" [] fn = B \o "g2affine_equal" -> "pt.aeq:c:2"
    [] fn = B \o "g1_random" -> "rand.g1" [] fn = B \o "g2_random" -> "rand.g2"
    [] fn = B \o "g1affine_from_hash" -> "hash.g1" [] fn = B \o "g2affine_from_hash" -> "hash.g2"
    [] fn = B \o "zp_random" -> "rand.zp" [] fn = B \o "zp_from_hash" -> "hash.zp"
    [] fn = B \o "g1_marshal" -> "enc.encode:1" [] fn = B \o "g2_marshal" -> "enc.encode:2"
    [] fn = B \o "g1_unmarshal" -> "enc.decode:1" [] fn = B \o "g2_unmarshal" -> "enc.decode:2"
    [] fn = B \o "pairing" -> "pair.single:c" [] fn \in {B \o "prepared_pairing", B \o "g2prepared_prepare", B \o "g2prepared_is_zero"} -> "pair.single:c_prepared"
    [] fn = B \o "pairing_sum" -> "pair.sum"
    [] fn = B \o "gt_add" -> "gt.op:add" [] fn = B \o "gt_negate" -> "gt.op:negate" [] fn = B \o "gt_double" -> "gt.op:double"
    [] fn = B \o "gt_equal" -> "gt.op:equal" [] fn \in {B \o "gt_marshal", B \o "gt_unmarshal"} -> "gt.op:marshal"
    [] fn = B \o "gt_multiply" -> "gt.exp:c" [] fn = B \o "gt_multiply_random" -> "gt.random:c"
    [] fn = W \o "scalar_hash_reduce" -> "hash.scalar_reduce" [] fn = W \o "random_zpstar" -> "rand.zpstar"
    [] fn = W \o "keygen" -> "wk:keygen" [] fn = W \o "qualifykey" -> "wk:qualify" [] fn = W \o "nondelegable_keygen" -> "wk:ndkeygen"
    [] fn = W \o "nondelegable_qualifykey" -> "wk:ndqualify" [] fn = W \o "adjust_nondelegable" -> "wk:adjustnd"
    [] fn = W \o "precompute" -> "wk:precompute" [] fn = W \o "adjust_precomputed" -> "wk:adjustpre" [] fn = W \o "resamplekey" -> "wk:resample"
    [] fn = W \o "encrypt" -> "wk:encrypt" [] fn = W \o "encrypt_precomputed" -> "wk:encryptpre" [] fn = W \o "decrypt" -> "wk:decrypt"
    [] fn = W \o "decrypt_master" -> "wk:decryptmaster" [] fn = W \o "sign" -> "wk:sign" [] fn = W \o "sign_precomputed" -> "wk:signpre"
    [] fn = W \o "verify" -> "wk:verify" [] fn = W \o "verify_precomputed" -> "wk:verifypre"
    [] fn \in {W \o "params_marshal", W \o "params_unmarshal", W \o "params_get_marshalled_length", W \o "params_set_length"} -> "mar.object:wk.params"
    [] fn \in {W \o "secretkey_marshal", W \o "secretkey_unmarshal", W \o "secretkey_get_marshalled_length", W \o "secretkey_set_length"} -> "mar.object:wk.key"
    [] fn \in {W \o "params_unmarshalled_length", W \o "params_marshalled_length"} -> "mar.sweep:wk.params"
    [] fn \in {W \o "secretkey_unmarshalled_length", W \o "secretkey_marshalled_length"} -> "mar.sweep:wk.key"
    [] fn \in {W \o "ciphertext_marshal", W \o "ciphertext_unmarshal", W \o "ciphertext_get_marshalled_length"} -> "mar.object:wk.ct"
    [] fn \in {W \o "signature_marshal", W \o "signature_unmarshal", W \o "signature_get_marshalled_length"} -> "mar.object:wk.sig"
    [] fn \in {W \o "masterkey_marshal", W \o "masterkey_unmarshal", W \o "masterkey_get_marshalled_length"} -> "mar.object:wk.msk"
    [] fn = L \o "compute_id_from_hash" -> "hash.id" [] fn \in {L \o "keygen", L \o "encrypt", L \o "decrypt"} -> "lq.run"
    [] fn \in {L \o "params_marshal", L \o "params_unmarshal", L \o "params_get_marshalled_length"} -> "mar.object:lq.params"
    [] fn \in {L \o "id_marshal", L \o "id_unmarshal", L \o "id_get_marshalled_length"} -> "mar.object:lq.id"
    [] fn \in {L \o "masterkey_marshal", L \o "masterkey_unmarshal", L \o "masterkey_get_marshalled_length"} -> "mar.object:lq.msk"
    [] fn \in {L \o "secretkey_marshal", L \o "secretkey_unmarshal", L \o "secretkey_get_marshalled_length"} -> "mar.object:lq.sk"
    [] fn \in {L \o "ciphertext_marshal", L \o "ciphertext_unmarshal", L \o "ciphertext_get_marshalled_length"} -> "mar.object:lq.ct"
    [] fn \in {W \o "setup", L \o "setup"} -> "setup:" \o fn
    [] fn \in {W \o "random_g1", W \o "random_g2", W \o "random_gt"} -> "rand:" \o fn
    [] OTHER -> "<unbound>"

Exercised == ndJsonDeserialize(IOEnv.EXERCISED)
ExKeys == { Exercised[i].key : i \in 1..Len(Exercised) }
ExRow(k) == Exercised[CHOOSE i \in 1..Len(Exercised) : Exercised[i].key = k]
\* symbols: functions and constants the headers declare vs what the library defines
FnSymbols == { s \in Symbols : s \notin DeclaredConsts }
Undeclared == FnSymbols \ DeclaredFns           \* exported but absent from the headers
Undefined  == (DeclaredFns \cup DeclaredConsts) \ Symbols    \* declared but not defined by the library
Unbound    == { f \in DeclaredFns : FnKey(f) = "<unbound>" }
NotExercised == { f \in DeclaredFns : FnKey(f) # "<unbound>" /\ FnKey(f) \notin ExKeys }
RejectedFns == { f \in DeclaredFns : FnKey(f) \in ExKeys /\ ExRow(FnKey(f)).rejected > 0 }
=============================================================================
