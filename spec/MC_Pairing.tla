----------------------------- MODULE MC_Pairing ------------------------------
(* Self-checks of the pairing oracle (no states): shape of the loop, the twist-slope form against
   the unoptimised definition on E(Fq12), order and bilinearity on small multiples. *)
EXTENDS Pairing, TLC
ASSUME NumCoeffs = 68
ASSUME E12!OnCurve(Untwist(G2Gen))
ASSUME RefPairingDirect(G1Gen, G2Gen) = GTGen
ASSUME InGT(GTGen) /\ GTGen # F12!EOne /\ InCyclotomic(GTGen)
ASSUME RefPairing(E1!ScalarMul(FromNat(5), G1Gen), E2!ScalarMul(FromNat(7), G2Gen)) = F12Exp(GTGen, FromNat(35))
ASSUME RefPairing(E1!PNeg(G1Gen), G2Gen) = F12Exp(GTGen, Sub(RMod, One))
VARIABLE dummy
Init == dummy = 0
Next == UNCHANGED dummy
=============================================================================
