------------------------------- MODULE Encoding -------------------------------
(* Point encodings of G1 (48/96 bytes) and G2 (96/192 bytes): Encode, and validating Decode as a
   decision procedure with named reject points (DESIGN.md appendix C).  The theorem
   "checked accept  <=>  bytes = Encode(P) for a point P of the order-r subgroup" is what the
   property states; DecodeChecked below is written independently of Encode and the equivalence
   is checked by TLC on every generated / recorded byte string (label "accept-iff-canonical"). *)
EXTENDS Curves381, Naturals, Sequences
FqM == INSTANCE PrimeField WITH P <- QMod, NBytes <- 48

FlagC == 128   \* compressed
FlagI == 64    \* infinity
FlagS == 32    \* "greater" y
CoordBytes(g) == IF g = 1 THEN 48 ELSE 96
EncLen(g, compressed) == IF compressed THEN CoordBytes(g) ELSE 2 * CoordBytes(g)

\* wire form of a field element: Fq big-endian; Fq2 as c1 || c0
Wire(g, x) == IF g = 1 THEN ToBE(x, 48) ELSE ToBE(x[2], 48) \o ToBE(x[1], 48)
\* the library's order on field elements (used only to pick the sign flag): Montgomery residues,
\* for Fq2 the u-coefficient first.  Any fixed total order would satisfy the property.
LibCmp(g, a, b) == IF g = 1 THEN Cmp(FqM!Mont(a), FqM!Mont(b))
                   ELSE IF Cmp(FqM!Mont(a[2]), FqM!Mont(b[2])) # 0 THEN Cmp(FqM!Mont(a[2]), FqM!Mont(b[2]))
                        ELSE Cmp(FqM!Mont(a[1]), FqM!Mont(b[1]))
NegF(g, y) == IF g = 1 THEN QNeg(y) ELSE F2Neg(y)
Greater(g, y) == LibCmp(g, y, NegF(g, y)) = 1
OrHead(bytes, flag) == [i \in 1..Len(bytes) |-> IF i = 1 THEN bytes[1] + flag ELSE bytes[i]]   \* top bits of a coordinate are zero

Encode(g, P, compressed) ==
  IF P = <<>> THEN [i \in 1..EncLen(g, compressed) |-> IF i = 1 THEN FlagI + (IF compressed THEN FlagC ELSE 0) ELSE 0]
  ELSE IF compressed THEN OrHead(Wire(g, P[1]), FlagC + (IF Greater(g, P[2]) THEN FlagS ELSE 0))
  ELSE Wire(g, P[1]) \o Wire(g, P[2])

\* ---- validating decode --------------------------------------------------------------------------
Bits765(b) == b \div 32                                  \* the three flag bits of a byte
Low5(b)    == b % 32
\* the 48-byte fields of a coordinate block, as integers with the three top bits masked off, and their top bits
Field(bytes, k) == SubSeq(bytes, 48 * k + 1, 48 * k + 48)           \* k-th 48-byte field (0-based)
Masked(bytes, k) == ModPow2(FromBE(Field(bytes, k)), 381)
NFields(g, compressed) == (IF g = 1 THEN 1 ELSE 2) * (IF compressed THEN 1 ELSE 2)
CoordOf(g, bytes, k0) == IF g = 1 THEN Masked(bytes, k0) ELSE <<Masked(bytes, k0 + 1), Masked(bytes, k0)>>   \* c1 first on the wire
OnC(g, P) == IF g = 1 THEN E1!OnCurve(P) ELSE E2!OnCurve(P)
RhsG(g, x) == IF g = 1 THEN E1!Rhs(x) ELSE E2!Rhs(x)
IsSq(g, a) == IF g = 1 THEN QIsSquare(a) ELSE F2Legendre(a) # (0 - 1)
SqrtG(g, a) == IF g = 1 THEN QSqrt(a) ELSE F2Sqrt(a)
InSub(g, P) == (IF g = 1 THEN E1!ScalarMul(RMod, P) ELSE E2!ScalarMul(RMod, P)) = <<>>

\* returns [ok |-> BOOLEAN, why |-> reject point or "accept", pt |-> point]
DecodeChecked(g, bytes, compressed) ==
  LET b0 == bytes[1]
      nf == NFields(g, compressed)
      rej(w) == [ok |-> FALSE, why |-> w, pt |-> <<>>]
  IN
  IF Len(bytes) # EncLen(g, compressed) THEN rej("WrongLength")
  ELSE IF (b0 \div 128 = 1) # compressed THEN rej("WrongForm")
  ELSE IF (b0 \div 64) % 2 = 1 THEN
       (IF b0 % 64 # 0 \/ \E i \in 2..Len(bytes) : bytes[i] # 0 THEN rej("BadInfinity") ELSE [ok |-> TRUE, why |-> "accept", pt |-> <<>>])
  ELSE IF ~compressed /\ (b0 \div 32) % 2 = 1 THEN rej("StrayFlag")
  ELSE IF \E k \in 1..(nf - 1) : Bits765(bytes[48 * k + 1]) # 0 THEN rej("StrayFlag")
  ELSE IF \E k \in 0..(nf - 1) : ~Lt(Masked(bytes, k), QMod) THEN rej("NonCanonicalCoord")
  ELSE LET x == CoordOf(g, bytes, 0) IN
       IF compressed THEN
            (IF ~IsSq(g, RhsG(g, x)) THEN rej("NoSuchY")
             ELSE LET y0 == SqrtG(g, RhsG(g, x))
                      wantGreater == (b0 \div 32) % 2 = 1
                      y  == IF Greater(g, y0) = wantGreater THEN y0 ELSE NegF(g, y0)
                  IN IF ~InSub(g, <<x, y>>) THEN rej("NotInSubgroup") ELSE [ok |-> TRUE, why |-> "accept", pt |-> <<x, y>>])
       ELSE LET y == CoordOf(g, bytes, IF g = 1 THEN 1 ELSE 2) IN
            IF ~OnC(g, <<x, y>>) THEN rej("OffCurve")
            ELSE IF ~InSub(g, <<x, y>>) THEN rej("NotInSubgroup") ELSE [ok |-> TRUE, why |-> "accept", pt |-> <<x, y>>]
\* the property's characterisation
AcceptIffCanonical(g, bytes, compressed) ==
  LET d == DecodeChecked(g, bytes, compressed) IN d.ok => (Encode(g, d.pt, compressed) = bytes /\ OnC(g, d.pt) /\ InSub(g, d.pt))
=============================================================================
