----------------------------- MODULE PrimeField -----------------------------
(* Tier B: the prime field Z_P as integer arithmetic modulo P, and the Montgomery
   representation the library stores (raw = v * R mod P with R = 2^(8*NBytes)).     *)
EXTENDS BigNat, Naturals, Sequences
CONSTANTS P,        \* the prime modulus (BigNat)
          NBytes    \* storage width in bytes; R = 2^(8*NBytes)

R      == Pow2(8 * NBytes)
RModP  == ModN(R, P)
RInv   == ModInv(RModP, P)

\* raw storage words  <->  represented integer
IsCanon(raw) == Lt(raw, P)
Val(raw)     == MulMod(raw, RInv, P)
Mont(v)      == MulMod(v, RModP, P)

FAdd(a, b) == AddMod(a, b, P)
FSub(a, b) == SubMod(a, b, P)
FNeg(a)    == NegMod(a, P)
FMul(a, b) == MulMod(a, b, P)
FSqr(a)    == MulMod(a, a, P)
FDbl(a)    == AddMod(a, a, P)
FExp(a, e) == ModExp(a, e, P)
FInv(a)    == ModInv(a, P)          \* 0 |-> 0
IsInv(a, x) == IF IsZero(ModN(a, P)) THEN IsZero(x) ELSE Lt(x, P) /\ MulMod(a, x, P) = One
\* Euler's criterion: 0, 1 or -1
Legendre(a) == LET t == ModExp(a, ShiftR(Sub(P, One), 1), P)
               IN IF IsZero(t) THEN 0 ELSE IF t = One THEN 1 ELSE 0 - 1
IsSquare(a) == Legendre(a) # (0 - 1)
IsSqrt(a, x) == Lt(x, P) /\ MulMod(x, x, P) = ModN(a, P)
\* order of the represented integers
CmpVal(a, b) == Cmp(a, b)
=============================================================================
