---------------------------- MODULE MC_Params381 -----------------------------
(* Parameter identities of BLS12-381, evaluated by TLC at full size (no states). *)
EXTENDS Fields381, TLC
q == QMod
r == RMod
\* Miller-Rabin style witness checks are out of scope; primality of q and r is an assumption.
ASSUME BitLen(q) = 381 /\ BitLen(r) = 255
ASSUME ModN(q, FromNat(4)) = FromNat(3)                       \* square roots by exponentiation
ASSUME ModN(q, FromNat(6)) = One                              \* sextic twist exists
\* r divides q^4 - q^2 + 1 (embedding degree 12) and not q^k - 1 for k in {1,2,3,4,6}
ASSUME LET q2 == MulMod(q, q, r)  q4 == MulMod(q2, q2, r) IN AddMod(SubMod(q4, q2, r), One, r) = Zero
ASSUME \A k \in {1, 2, 3, 4, 6} : ModExp(q, FromNat(k), r) # One
\* Fermat witnesses (necessary for primality)
ASSUME \A b \in {2, 3, 5, 7} : ModExp(FromNat(b), Sub(q, One), q) = One /\ ModExp(FromNat(b), Sub(r, One), r) = One
\* 2p < 2^bits: the precondition TLC found for dropping the final meta-carry (MC_WordArith)
ASSUME Lt(Add(q, q), Pow2(384)) /\ Lt(Add(r, r), Pow2(256))
\* lambda is a primitive cube root of unity mod r
ASSUME AddMod(AddMod(MulMod(Lambda, Lambda, r), Lambda, r), One, r) = Zero
ASSUME LambdaG1 = MulMod(Lambda, Lambda, r)
\* generators are on their curves: y^2 = x^3 + 4 over Fq
ASSUME MulMod(G1GenY, G1GenY, q) = AddMod(MulMod(MulMod(G1GenX, G1GenX, q), G1GenX, q), B1, q)
\* the Montgomery constants used by the library's fields
ASSUME Fq!Val(Fq!Mont(FromNat(12345))) = FromNat(12345) /\ Fr!Val(Fr!Mont(FromNat(12345))) = FromNat(12345)
\* 2-adicity of r - 1 is 32 (Tonelli-Shanks in Fr::square_root)
ASSUME ModN(Sub(r, One), Pow2(32)) = Zero /\ ModN(Sub(r, One), Pow2(33)) # Zero
\* cofactor of E(Fq): h1 * r = q + 1 - t with t = x + 1
ASSUME Mul(H1, r) = Add(Add(q, One), Sub(XAbs, One))
\* base-|x| decomposition (PowersOfX::decompose): for every 256-bit scalar y the top coefficient of y (or y - r when y >= r)
\* still fits the 64-bit register it is truncated into -- a numeric fact of these parameters (it fails on toy members of
\* the family), although it may exceed |x| for y >= 2r - ...; the wNAF buffers are sized for 64-bit coefficients
ASSUME LET x3 == Mul(Mul(XAbs, XAbs), XAbs) IN
         /\ Lt(Div(Sub(Sub(Pow2(256), One), r), x3), Pow2(64))
         /\ Lt(Div(Sub(r, One), x3), XAbs)
VARIABLE dummy
Init == dummy = 0
Next == UNCHANGED dummy
=============================================================================
