CONSTANTS Mode = "powx"
 Bits = 0
 Win = 2
 X = 13
 Variant = "shipped"
INIT Init
NEXT Next
INVARIANTS Correct TableInBounds BuffersInBounds
CHECK_DEADLOCK FALSE
