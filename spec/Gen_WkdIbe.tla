------------------------------ MODULE Gen_WkdIbe ------------------------------
(* Generator (G->I) of WKD-IBE histories.  Public parameters are built by the specification from
   fixed 255-bit discrete logarithms; every scalar the library will draw is chosen here and
   delivered as the byte stream its sampler consumes (four base-|x| digits).  FAMILY selects:
     "deleg" (C11)  key generation / qualification / non-delegable variants / resampling over every
                    permitted attribute list on l slots, followed by encryption to the accumulated
                    pattern and decryption with the key and with the master key;
     "neg"   (C12)  differing (key, ciphertext-list) pairs incl. v vs v+r, attempts to give a hidden
                    slot a value, single-component ciphertext perturbations;
     "sig"   (C13)  signatures over key patterns x extension lists x messages x perturbations;
     "adjust"(C14)  adjust_precomputed / adjust_nondelegable against recomputation, chains, and the
                    precomputed forms of encrypt / sign / verify.                               *)
EXTENDS Pairing, Json, IOUtils, TLC
W == INSTANCE WkdIbe WITH RM <- RMod
Tier == IF "TIER" \in DOMAIN IOEnv THEN IOEnv.TIER ELSE "quick"
Family == IF "FAMILY" \in DOMAIN IOEnv THEN IOEnv.FAMILY ELSE "deleg"
Seed == IF "SEED" \in DOMAIN IOEnv THEN atoi(IOEnv.SEED) ELSE 1
Shard == IF "SHARD" \in DOMAIN IOEnv THEN atoi(IOEnv.SHARD) ELSE 0
NShards == IF "NSHARDS" \in DOMAIN IOEnv THEN atoi(IOEnv.NSHARDS) ELSE 1
FqF == INSTANCE PrimeField WITH P <- QMod, NBytes <- 48
RndR(k) == ModN(ModExp(FromNat(5), FromNat(1000003 + 7919 * k), Q), RMod)     \* fixed 255-bit constants
L3 == 3

\* ---- parameters ---------------------------------------------------------------------------------------
Raw1(v) == Pad(FqF!Mont(v), 48)
Raw2(x) == <<Raw1(x[1]), Raw1(x[2])>>
Raw6(x) == <<Raw2(x[1]), Raw2(x[2]), Raw2(x[3])>>
Raw12(x) == <<Raw6(x[1]), Raw6(x[2])>>
J1(e) == LET P == E1!ScalarMul(e, G1Gen) IN IF P = <<>> THEN <<Raw1(Zero), Raw1(One), Raw1(Zero)>> ELSE <<Raw1(P[1]), Raw1(P[2]), Raw1(One)>>
J2(e) == LET P == E2!ScalarMul(e, G2Gen) IN IF P = <<>> THEN <<Raw2(F2!EZero), Raw2(F2!EOne), Raw2(F2!EZero)>> ELSE <<Raw2(P[1]), Raw2(P[2]), Raw2(F2!EOne)>>
Dl(l, sigs) == [gam |-> RndR(1), alp |-> RndR(2), del |-> RndR(3), eps |-> RndR(4), sig |-> IF sigs = 1 THEN RndR(5) ELSE Zero,
                eta |-> [i \in 1..l |-> RndR(10 + i)]]
ParamsRaw(l, sigs) == LET d == Dl(l, sigs) IN
  [g |-> J2(d.gam), g1 |-> J2(W!M(d.alp, d.gam)), g2 |-> J1(d.del), g3 |-> J1(d.eps), hsig |-> J1(d.sig),
   h |-> [i \in 1..l |-> J1(d.eta[i])], pairing |-> Raw12(F12Exp(GTGen, W!M(W!M(d.alp, d.gam), d.del)))]
DlOut(l, sigs) == LET d == Dl(l, sigs) IN
  [gam |-> Pad(d.gam, 32), alp |-> Pad(d.alp, 32), del |-> Pad(d.del, 32), eps |-> Pad(d.eps, 32), sig |-> Pad(d.sig, 32), eta |-> [i \in 1..l |-> Pad(d.eta[i], 32)]]
MskRaw(l, sigs) == LET d == Dl(l, sigs) IN J1(W!M(d.alp, d.del))
\* zero-arity definitions are evaluated once by TLC
PR0 == ParamsRaw(3, 0)
PR1 == ParamsRaw(3, 1)
MK0 == MskRaw(3, 0)
MK1 == MskRaw(3, 1)
DO0 == DlOut(3, 0)
DO1 == DlOut(3, 1)
History(l, sigs, steps, fam, tag) ==
  [op |-> "wk.history", l |-> l, sigs |-> sigs, params |-> IF sigs = 1 THEN PR1 ELSE PR0, msk |-> IF sigs = 1 THEN MK1 ELSE MK0, dl |-> IF sigs = 1 THEN DO1 ELSE DO0,
   steps |-> steps, fam |-> fam, tag |-> tag, src |-> "gen"]

\* ---- scalars and their sampler streams ----------------------------------------------------------------------
DigitsOf(y) == <<ModN(y, XAbs), ModN(Div(y, XAbs), XAbs), ModN(Div(y, Mul(XAbs, XAbs)), XAbs), Div(y, Mul(XAbs, Mul(XAbs, XAbs)))>>
ToSeq(f) == [i \in 1..Len(f) |-> f[i]]
Stream(t) == LET d == DigitsOf(t) IN ToSeq(Pad(d[1], 8)) \o ToSeq(Pad(d[2], 8)) \o ToSeq(Pad(d[3], 8)) \o ToSeq(Pad(d[4], 8))
Rand(k) == CASE k % 4 = 0 -> RndR(100 + k) [] k % 4 = 1 -> One [] k % 4 = 2 -> Sub(RMod, One) [] OTHER -> RndR(200 + k)

\* ---- attribute lists on l slots ----------------------------------------------------------------------------
\* a slot choice: "U" unlisted, "H" listed hidden (id 0), or a value
Vals == { FromNat(7), FromNat(5), Add(RMod, FromNat(7)), Sub(RMod, One), Sub(Pow2(256), One), Zero }
ValsQuick == { FromNat(7), Add(RMod, FromNat(7)), Sub(Pow2(256), One) }
SlotChoices(vs) == {<<"U">>, <<"H">>} \cup { <<"V", v>> : v \in vs }
RECURSIVE ListOf(_, _)
ListOf(ch, i) == IF i > Len(ch) THEN <<>>
                 ELSE IF ch[i][1] = "U" THEN ListOf(ch, i + 1)
                 ELSE IF ch[i][1] = "H" THEN <<[idx |-> i - 1, id |-> Pad(Zero, 32), omit |-> 1]>> \o ListOf(ch, i + 1)
                 ELSE IF ch[i][1] = "HV" THEN <<[idx |-> i - 1, id |-> Pad(ch[i][2], 32), omit |-> 1]>> \o ListOf(ch, i + 1)     \* flagged omit AND carrying a value
                 ELSE <<[idx |-> i - 1, id |-> Pad(ch[i][2], 32), omit |-> 0]>> \o ListOf(ch, i + 1)
AllLists(l, vs) == { ListOf(ch, 1) : ch \in [1..l -> SlotChoices(vs)] }
Spec(L) == [k \in 1..Len(L) |-> [idx |-> L[k].idx, id |-> Norm(L[k].id), omit |-> L[k].omit]]
\* the attribute list naming exactly the fixed slots of reference key K (what a matching ciphertext is encrypted to)
FixedList(K) == ListOf([i \in 1..Len(K.pat) |-> IF W!IsFixed(K.pat[i]) THEN <<"V", K.pat[i][2]>> ELSE <<"U">>], 1)

\* ---- steps -----------------------------------------------------------------------------------------------------
KeygenStep(L, flag, k)   == [a |-> "keygen", attrs |-> L, flag |-> flag, t |-> Pad(Rand(k), 32), stream |-> Stream(Rand(k))]
NdKeygenStep(L, flag)    == [a |-> "ndkeygen", attrs |-> L, flag |-> flag]
QualStep(key, L, flag, k) == [a |-> "qualify", key |-> key, attrs |-> L, flag |-> flag, t |-> Pad(Rand(k), 32), stream |-> Stream(Rand(k))]
NdQualStep(key, L, flag) == [a |-> "ndqualify", key |-> key, attrs |-> L, flag |-> flag]
PreStep(L)               == [a |-> "precompute", attrs |-> L]
ResampleStep(key, pre, further, k) == [a |-> "resample", key |-> key, pre |-> pre, further |-> further, t |-> Pad(Rand(k), 32), stream |-> Stream(Rand(k))]
Mu(k) == RndR(300 + k)
EncStep(L, k)            == [a |-> "encrypt", attrs |-> L, mu |-> Pad(Mu(k), 32), msg |-> Raw12(F12Exp(GTGen, Mu(k))), t |-> Pad(Rand(k + 1), 32), stream |-> Stream(Rand(k + 1))]
EncPreStep(pre, k)       == [a |-> "encryptpre", pre |-> pre, mu |-> Pad(Mu(k), 32), msg |-> Raw12(F12Exp(GTGen, Mu(k))), t |-> Pad(Rand(k + 1), 32), stream |-> Stream(Rand(k + 1))]
DecStep(ct, key)         == [a |-> "decrypt", ct |-> ct, key |-> key]
DecMasterStep(ct)        == [a |-> "decryptmaster", ct |-> ct]
SignStep(key, L, m, k)   == [a |-> "sign", key |-> key, attrs |-> L, msg |-> Pad(m, 32), t |-> Pad(Rand(k), 32), stream |-> Stream(Rand(k))]
SignPreStep(key, pre, L, m, k) == [a |-> "signpre", key |-> key, pre |-> pre, attrs |-> L, msg |-> Pad(m, 32), t |-> Pad(Rand(k), 32), stream |-> Stream(Rand(k))]
VerStep(L, sg, m)        == [a |-> "verify", attrs |-> L, sig |-> sg, msg |-> Pad(m, 32)]
VerPreStep(pre, sg, m)   == [a |-> "verifypre", pre |-> pre, sig |-> sg, msg |-> Pad(m, 32)]
PerturbStep(obj, f, by)  == [a |-> "perturb", obj |-> obj, field |-> f, by |-> by]
AdjPreStep(pre, from, to) == [a |-> "adjustpre", pre |-> pre, from |-> from, to |-> to]
AdjNdStep(key, parent, from, to) == [a |-> "adjustnd", key |-> key, parent |-> parent, from |-> from, to |-> to]

P3(sigs) == [l |-> L3, sigs |-> sigs = 1] @@ Dl(L3, sigs)
Pick(S) == { x \in S : TRUE }
\* deterministic thinning of a set of histories by the shard / seed
Hash(h) == (Len(ToString(h.tag)) * 31 + Len(h.steps) * 7)      \* cheap; real thinning is by position below
Thin(seqOfH, m) == SelectSeq([i \in 1..Len(seqOfH) |-> [h |-> seqOfH[i], i |-> i]], LAMBDA x : (x.i + Seed) % m = 0)

\* ---- family "deleg" (C11) ------------------------------------------------------------------------------------------
\* Histories are first enumerated as light descriptors <<sigs, op1, choices1, flag1, op2, choices2, flag2, op3, choices3>>;
\* only the descriptors kept by KEEP / SHARD are expanded into full histories (parameters, streams, messages).
Vals1 == IF Tier = "quick" THEN { FromNat(7), Sub(Pow2(256), One) } ELSE { FromNat(7), Add(RMod, FromNat(7)), Sub(Pow2(256), One) }
Ch1 == [1..L3 -> SlotChoices(Vals1)]
FixedVals(K) == { K.pat[i][2] : i \in { jj \in 1..L3 : W!IsFixed(K.pat[jj]) } }
Ch2(P, K) == { ch \in [1..L3 -> SlotChoices({ FromNat(9), Add(RMod, FromNat(9)), Add(Pow2(128), FromNat(7)) } \cup FixedVals(K))] : W!PermittedQual(P, K, Spec(ListOf(ch, 1))) }
Key1(P, op1, ch1, f1) == IF op1 = "keygen" THEN W!KeyGen(P, Spec(ListOf(ch1, 1)), f1, Rand(0)) ELSE W!NdKeyGen(P, Spec(ListOf(ch1, 1)), f1)
Key2(P, K1, op2, ch2, f2) == IF op2 = "qualify" THEN W!Qualify(P, K1, Spec(ListOf(ch2, 1)), f2, Rand(4)) ELSE W!NdQualify(P, K1, Spec(ListOf(ch2, 1)), f2)
NoCh == [i \in 1..L3 |-> <<"U">>]
DelegDescs ==
  UNION { UNION { UNION {
     LET P == P3(sg)  K1 == Key1(P, op1, ch1, f1) IN
       { <<sg, op1, ch1, f1, o2, NoCh, 0, "none", NoCh>> : o2 \in {"none", "resample0", "resample1"} }
       \cup { <<sg, op1, ch1, f1, op2, ch2, f2, "none", NoCh>> : op2 \in {"qualify", "ndqualify"}, ch2 \in Ch2(P, K1), f2 \in {0, 1} }
     : ch1 \in Ch1, f1 \in {0, 1} } : op1 \in {"keygen", "ndkeygen"} } : sg \in {0, 1} }
\* hidden slots whose (ignored) identity field is not zero: the flag alone decides, in key generation and in delegation
HvDescs ==
  LET v7 == FromNat(7)
      c1s == { <<<<"HV", FromNat(5)>>, <<"U">>, <<"V", v7>>>>, <<<<"V", v7>>, <<"HV", FromNat(3)>>, <<"U">>>>, <<<<"HV", Sub(Pow2(256), One)>>, <<"HV", FromNat(9)>>, <<"U">>>> }
  IN { <<1, op1, ch1, f1, "none", NoCh, 0, "none", NoCh>> : op1 \in {"keygen", "ndkeygen"}, ch1 \in c1s, f1 \in {0, 1} }
     \cup { <<1, "keygen", <<<<"V", v7>>, <<"U">>, <<"U">>>>, 0, op2, <<<<"V", v7>>, <<"HV", FromNat(9)>>, <<"U">>>>, f2, "none", NoCh>> : op2 \in {"qualify", "ndqualify"}, f2 \in {0, 1} }
\* three-step chains below a key with a hidden slot in the middle
ChainDescs ==
  LET P == P3(1)  c1 == <<<<"U">>, <<"H">>, <<"U">>>>  K1 == Key1(P, "keygen", c1, 0) IN
  UNION { LET K2 == Key2(P, K1, "qualify", ch2, 0) IN
          { <<1, "keygen", c1, 0, "qualify", ch2, 0, op3, ch3>> : op3 \in {"qualify", "ndqualify"}, ch3 \in Ch2(P, K2) } : ch2 \in Ch2(P, K1) }
Msg10 == Raw12(F12Exp(GTGen, Mu(10)))
EncStepC(L) == [a |-> "encrypt", attrs |-> L, mu |-> Pad(Mu(10), 32), msg |-> Msg10, t |-> Pad(Rand(11), 32), stream |-> Stream(Rand(11))]
ProbeTail(key, K) == << EncStepC(FixedList(K)), DecStep(key + 1, key), DecMasterStep(key + 1) >>
\* keys moved by adjust_nondelegable are keys like any other: slot list, elements, decryption (C14 owns the equality with re-derivation)
AdjustedKeyHistories ==
  LET P == P3(1)  v7 == FromNat(7)
      pls == { ListOf(<<<<"U">>, <<"U">>, <<"U">>>>, 1), ListOf(<<<<"U">>, <<"H">>, <<"U">>>>, 1) }
  IN UNION { LET Kp == W!NdKeyGen(P, Spec(pl), 0) IN
       { History(L3, 1, <<NdKeygenStep(pl, 0), NdQualStep(1, fr, 0), AdjNdStep(2, 1, fr, to)>> \o ProbeTail(3, W!NdQualify(P, Kp, Spec(to), 0)), "deleg", "adjusted")
         : fr \in { ListOf(ch, 1) : ch \in { c \in { <<<<"V", v7>>, <<"U">>, <<"U">>>>, <<<<"U">>, <<"U">>, <<"V", FromNat(9)>>>> } : W!PermittedQual(P, Kp, Spec(ListOf(c, 1))) } },
           to \in { ListOf(ch, 1) : ch \in { c \in { <<<<"U">>, <<"U">>, <<"V", FromNat(9)>>>>, <<<<"V", FromNat(3)>>, <<"U">>, <<"U">>>>, <<<<"U">>, <<"U">>, <<"U">>>> } : W!PermittedQual(P, Kp, Spec(ListOf(c, 1))) } } }
     : pl \in pls }
BuildDeleg(d) ==
  LET sg == d[1]  P == P3(sg)
      K1 == Key1(P, d[2], d[3], d[4])
      L1 == ListOf(d[3], 1)
      s1 == IF d[2] = "keygen" THEN KeygenStep(L1, d[4], 0) ELSE NdKeygenStep(L1, d[4])
  IN IF d[5] = "none" THEN History(L3, sg, <<s1>> \o ProbeTail(1, K1), "deleg", <<d[2], "none">>)
     ELSE IF d[5] \in {"resample0", "resample1"} THEN
          LET fu == IF d[5] = "resample1" THEN 1 ELSE 0 IN
          History(L3, sg, <<s1, PreStep(FixedList(K1)), ResampleStep(1, 2, fu, 8)>> \o ProbeTail(3, W!Resample(P, K1, Rand(8), fu)), "deleg", <<d[2], d[5]>>)
     ELSE LET K2 == Key2(P, K1, d[5], d[6], d[7])
              L2 == ListOf(d[6], 1)
              s2 == IF d[5] = "qualify" THEN QualStep(1, L2, d[7], 4) ELSE NdQualStep(1, L2, d[7])
          IN IF d[8] = "none" THEN History(L3, sg, <<s1, s2>> \o ProbeTail(2, K2), "deleg", <<d[2], d[5]>>)
             ELSE LET L3q == ListOf(d[9], 1)
                      K3 == IF d[8] = "qualify" THEN W!Qualify(P, K2, Spec(L3q), 0, Rand(5)) ELSE W!NdQualify(P, K2, Spec(L3q), 0)
                      s3 == IF d[8] = "qualify" THEN QualStep(2, L3q, 0, 5) ELSE NdQualStep(2, L3q, 0)
                  IN History(L3, sg, <<s1, s2, s3>> \o ProbeTail(3, K3), "deleg", <<"chain", d[8]>>)

EncPreStepN(pre) == [a |-> "encryptpre", pre |-> pre, mu |-> Pad(Mu(10), 32), msg |-> Raw12(F12Exp(GTGen, Mu(10))), t |-> Pad(Rand(11), 32), stream |-> Stream(Rand(11))]
\* ---- family "neg" (C12) -----------------------------------------------------------------------------------------------
NegCases(sigs) ==
  LET P == P3(sigs)
      v7 == FromNat(7)
      keyL == ListOf(<<<<"V", v7>>, <<"U">>, <<"H">>>>, 1)
      K == W!KeyGen(P, Spec(keyL), 0, Rand(0))
      cts == { ListOf(<<<<"V", v7>>, <<"U">>, <<"U">>>>, 1), ListOf(<<<<"V", Add(RMod, v7)>>, <<"U">>, <<"U">>>>, 1), ListOf(<<<<"V", FromNat(8)>>, <<"U">>, <<"U">>>>, 1), ListOf(<<<<"U">>, <<"U">>, <<"U">>>>, 1),
               ListOf(<<<<"V", v7>>, <<"V", FromNat(5)>>, <<"U">>>>, 1), ListOf(<<<<"V", v7>>, <<"U">>, <<"V", FromNat(5)>>>>, 1), ListOf(<<<<"V", v7>>, <<"V", Zero>>, <<"U">>>>, 1), ListOf(<<<<"V", v7>>, <<"V", RMod>>, <<"U">>>>, 1),
               ListOf(<<<<"V", Sub(Pow2(256), One)>>, <<"U">>, <<"U">>>>, 1) }
      fills == { ListOf(<<<<"V", v7>>, <<"U">>, <<"V", FromNat(5)>>>>, 1), ListOf(<<<<"V", v7>>, <<"V", FromNat(3)>>, <<"V", FromNat(5)>>>>, 1) }
      \* ciphertext lists whose entries carry the omitFromKeys flag together with a value: the flag concerns keys only, the slot is bound all the same
      E(i, v, o) == [idx |-> i, id |-> Pad(v, 32), omit |-> o]
      flagged == { <<E(0, v7, 1)>>, <<E(0, v7, 0), E(1, FromNat(5), 1)>>, <<E(0, v7, 1), E(2, FromNat(5), 1)>>, <<E(0, FromNat(8), 1)>>, <<E(0, v7, 0), E(1, Zero, 1)>> }
  IN { History(L3, sigs, <<KeygenStep(keyL, 0, 0), EncStepC(c), DecStep(2, 1), DecMasterStep(2)>>, "neg", "differ") : c \in cts }
     \cup { History(L3, sigs, <<KeygenStep(keyL, 0, 0), EncStepC(c), DecStep(2, 1), DecMasterStep(2), PreStep(c), EncPreStepN(4), DecStep(5, 1)>>, "neg", "flagged-list") : c \in flagged }
     \cup { History(L3, sigs, <<KeygenStep(keyL, 0, 0), EncStepC(ListOf(<<<<"V", v7>>, <<"U">>, <<"U">>>>, 1)), PerturbStep(2, f, by), DecStep(3, 1), DecMasterStep(3)>>, "neg", "perturb")
            : f \in {"a", "b", "c"}, by \in {1, 5} }
     \* attempts to give the hidden slot a value through the public API (outside the documented domain): only the consequence is checked
     \cup { History(L3, sigs, <<KeygenStep(keyL, 0, 0), IF nd = 1 THEN NdQualStep(1, fl, 0) ELSE QualStep(1, fl, 0, 4), EncStepC(fl), DecStep(3, 2)>>, "neg", "fill-hidden")
            : fl \in fills, nd \in {0, 1} }
     \* slots hidden by resampling without further delegation (with and without signature support: sigs is the family parameter)
     \cup { History(L3, sg, <<KeygenStep(ListOf(<<<<"V", v7>>, <<"U">>, <<"U">>>>, 1), 0, 0), PreStep(ListOf(<<<<"V", v7>>, <<"U">>, <<"U">>>>, 1)), ResampleStep(1, 2, 0, 8),
                               IF nd = 1 THEN NdQualStep(3, fl, 0) ELSE QualStep(3, fl, 0, 4), EncStepC(fl), DecStep(5, 4)>>, "neg", "fill-hidden-resample")
            : fl \in fills, nd \in {0, 1}, sg \in {0, 1} }
     \* the same with the slots hidden by omit-all-unless-present (the flag travels in the list structure, not in an entry)
     \cup { History(L3, sigs, <<KeygenStep(ListOf(<<<<"V", v7>>, <<"U">>, <<"U">>>>, 1), 1, 0), IF nd = 1 THEN NdQualStep(1, fl, 0) ELSE QualStep(1, fl, 0, 4), EncStepC(fl), DecStep(3, 2)>>, "neg", "fill-hidden-omitall")
            : fl \in fills \cup { ListOf(<<<<"V", v7>>, <<"V", FromNat(3)>>, <<"U">>>>, 1) }, nd \in {0, 1} }
     \cup { History(L3, sigs, <<NdKeygenStep(ListOf(<<<<"V", v7>>, <<"U">>, <<"U">>>>, 1), 1), NdQualStep(1, fl, 0), EncStepC(fl), DecStep(3, 2)>>, "neg", "fill-hidden-omitall-nd") : fl \in fills }
     \cup { History(L3, sigs, <<NdKeygenStep(ListOf(<<<<"U">>, <<"U">>, <<"H">>>>, 1), 0), NdQualStep(1, ListOf(<<<<"V", v7>>, <<"U">>, <<"U">>>>, 1), 0),
                                 AdjNdStep(2, 1, ListOf(<<<<"V", v7>>, <<"U">>, <<"U">>>>, 1), fl), EncStepC(fl), DecStep(4, 3)>>, "neg", "fill-hidden-adjust") : fl \in fills }

\* parameters wider than a machine word (l = 70): slot indices 63, 64, 67 next to a small one; hidden slots of a non-delegable key stay hidden
\* wherever they are, and a free slot stays usable (an index is an index: no width is special in the documented interface)
WideL == 70
PW(sigs) == [l |-> WideL, sigs |-> sigs = 1] @@ Dl(WideL, sigs)
WideCh(f) == [i \in 1..WideL |-> IF i \in DOMAIN f THEN f[i] ELSE <<"U">>]
WideList(f) == ListOf(WideCh(f), 1)
HistoryW(sigs, steps, fam, tag) ==
  [op |-> "wk.history", l |-> WideL, sigs |-> sigs, params |-> ParamsRaw(WideL, sigs), msk |-> MskRaw(WideL, sigs), dl |-> DlOut(WideL, sigs),
   steps |-> steps, fam |-> fam, tag |-> tag, src |-> "gen"]
WideCases(sigs) ==
  LET hid == WideList(6 :> <<"H">> @@ 64 :> <<"H">> @@ 65 :> <<"H">> @@ 68 :> <<"H">>)           \* slots 5, 63, 64, 67 hidden
      v5 == FromNat(5)
      fills == { WideList(k :> <<"V", v5>>) : k \in {6, 64, 65, 68} }                              \* attempts on a hidden slot
      free == { WideList(k :> <<"V", v5>>) : k \in {1, 63, 66, 70} }                               \* slots 0, 62, 65, 69 are free
  IN { HistoryW(sigs, <<NdKeygenStep(hid, 0), NdQualStep(1, fl, 0), EncStepC(fl), DecStep(3, 2)>>, "neg", "fill-hidden-wide") : fl \in fills }
     \cup { HistoryW(sigs, <<NdKeygenStep(hid, 0), NdQualStep(1, fl, 0), EncStepC(fl), DecStep(3, 2), DecMasterStep(3)>>, "neg", "fill-free-wide") : fl \in free }

\* ---- family "sig" (C13) -------------------------------------------------------------------------------------------------
Msgs == IF Tier = "quick" THEN { One, RMod, Sub(Pow2(256), One) } ELSE { Zero, One, Sub(RMod, One), RMod, Sub(Pow2(256), One), RndR(400) }
OtherMsg(m) == IF Lt(Add(m, One), Pow2(256)) THEN Add(m, One) ELSE Sub(m, One)
FlipTop(m) == IF Lt(m, Pow2(255)) THEN Add(m, Pow2(255)) ELSE Sub(m, Pow2(255))       \* differs from m modulo r (2^255 is not a multiple of r)
PlusR(m) == IF Lt(Add(m, RMod), Pow2(256)) THEN Add(m, RMod) ELSE Sub(m, RMod)       \* the same message modulo r: must verify
SigCases ==
  LET P == P3(1)
      v7 == FromNat(7)
      keyLs == { ListOf(<<<<"V", v7>>, <<"U">>, <<"U">>>>, 1), ListOf(<<<<"U">>, <<"U">>, <<"U">>>>, 1), ListOf(<<<<"V", v7>>, <<"U">>, <<"H">>>>, 1), ListOf(<<<<"H">>, <<"V", v7>>, <<"U">>>>, 1) }
      ext(K) == { L \in AllLists(L3, { FromNat(9) } \cup { K.pat[i][2] : i \in { j \in 1..L3 : W!IsFixed(K.pat[j]) } }) :
                  /\ \A i \in 0..(L3 - 1) : W!IsFixed(K.pat[i + 1]) => W!Listed(Spec(L), i) /\ Norm(W!AttrAt(Spec(L), i).id) = K.pat[i + 1][2]
                  /\ \A k \in 1..Len(L) : L[k].omit = 0 }       \* lists that set values only; may or may not touch hidden slots
  IN UNION { LET K == W!KeyGen(P, Spec(kl), 0, Rand(0)) IN
       UNION { { History(L3, 1, <<KeygenStep(kl, 0, 0), SignStep(1, L, m, 4), VerStep(L, 2, m), VerStep(L, 2, OtherMsg(m)),
                                  VerStep(ListOf(<<<<"V", FromNat(11)>>, <<"U">>, <<"U">>>>, 1), 2, m), PerturbStep(2, "a0", 1), VerStep(L, 6, m), PerturbStep(2, "a1", 1), VerStep(L, 8, m),
                                  PreStep(L), SignPreStep(1, 10, L, m, 5), VerPreStep(10, 11, m), VerStep(L, 11, m), VerPreStep(10, 2, m),
                                  VerStep(L, 2, FlipTop(m)), VerStep(L, 2, PlusR(m)), VerPreStep(10, 11, FlipTop(m))>>, "sig", "sign")
                 : m \in Msgs } : L \in ext(K) } : kl \in keyLs }
     \cup { History(L3, 1, <<KeygenStep(ListOf(<<<<"V", v7>>, <<"U">>, <<"U">>>>, 1), 0, 0), QualStep(1, ListOf(<<<<"V", v7>>, <<"V", FromNat(9)>>, <<"U">>>>, 1), 0, 4),
                              SignStep(2, ListOf(<<<<"V", v7>>, <<"V", FromNat(9)>>, <<"V", FromNat(5)>>>>, 1), One, 5), VerStep(ListOf(<<<<"V", v7>>, <<"V", FromNat(9)>>, <<"V", FromNat(5)>>>>, 1), 3, One),
                              VerStep(ListOf(<<<<"V", v7>>, <<"V", FromNat(9)>>, <<"U">>>>, 1), 3, One)>>, "sig", "after-qualify") }
     \* signing with a re-randomised key (with and without further delegation: every component, the signature element included, moves to the new randomness)
     \cup { History(L3, 1, <<KeygenStep(ListOf(<<<<"V", v7>>, <<"U">>, <<"U">>>>, 1), 0, 0), PreStep(ListOf(<<<<"V", v7>>, <<"U">>, <<"U">>>>, 1)), ResampleStep(1, 2, fu, 8),
                              SignStep(3, ListOf(<<<<"V", v7>>, <<"U">>, <<"U">>>>, 1), m, 4), VerStep(ListOf(<<<<"V", v7>>, <<"U">>, <<"U">>>>, 1), 4, m),
                              VerStep(ListOf(<<<<"V", v7>>, <<"U">>, <<"U">>>>, 1), 4, OtherMsg(m))>>, "sig", "after-resample") : fu \in {0, 1}, m \in { One, Zero, Add(RMod, FromNat(5)) } }
     \* signing with a key that was moved by adjust_nondelegable (its free-slot table was rewritten): for the adjusted list and for extensions of it
     \cup UNION { LET pl == ListOf(<<<<"U">>, <<"U">>, <<"U">>>>, 1) IN
                  { History(L3, 1, <<NdKeygenStep(pl, 0), NdQualStep(1, fr, 0), AdjNdStep(2, 1, fr, to), SignStep(3, to, One, 4), VerStep(to, 4, One),
                                         SignStep(3, ex, One, 5), VerStep(ex, 6, One), VerStep(to, 6, One)>>, "sig", "after-adjust")
                    : fr \in { ListOf(<<<<"V", v7>>, <<"U">>, <<"U">>>>, 1) },
                      to \in { ListOf(<<<<"U">>, <<"V", FromNat(9)>>, <<"U">>>>, 1), ListOf(<<<<"V", v7>>, <<"V", FromNat(9)>>, <<"U">>>>, 1) },
                      ex \in { ListOf(<<<<"V", FromNat(3)>>, <<"V", FromNat(9)>>, <<"V", FromNat(5)>>>>, 1), ListOf(<<<<"V", v7>>, <<"V", FromNat(9)>>, <<"V", FromNat(5)>>>>, 1) } } }
     \* lists whose entries carry the omitFromKeys flag: for signing and verification a list is (slot, identity) pairs, the flag concerns keys only.
     \* Signed under the flagged list: verifies under it and under the same list without the flag, not under the list without the entry
     \* (direct and precomputed forms); m >= r among the messages
     \cup UNION { LET EE(i, v, o) == [idx |-> i, id |-> Pad(v, 32), omit |-> o]
                      Lf == <<EE(0, v7, 0), EE(1, FromNat(9), 1)>>   Lp == <<EE(0, v7, 0), EE(1, FromNat(9), 0)>>   Ls == <<EE(0, v7, 0)>>
                      Lf2 == <<EE(0, v7, 1), EE(2, FromNat(5), 1)>>
                  IN { History(L3, 1, <<KeygenStep(ListOf(<<<<"V", v7>>, <<"U">>, <<"U">>>>, 1), 0, 0), SignStep(1, Lf, m, 4), VerStep(Lf, 2, m), VerStep(Lp, 2, m), VerStep(Ls, 2, m),
                                         PreStep(Lf), SignPreStep(1, 6, Lf, m, 5), VerPreStep(6, 7, m), VerStep(Lp, 7, m), VerPreStep(6, 2, m),
                                         SignStep(1, Lp, m, 6), VerStep(Lf, 11, m), VerStep(Lf2, 11, m), SignStep(1, Lf2, m, 7), VerStep(Lf2, 14, m)>>, "sig", "flagged-list") }
                : m \in { One, Add(RMod, FromNat(5)) } }

\* ---- family "adjust" (C14) -------------------------------------------------------------------------------------------------
AdjLists == AllLists(L3, IF Tier = "quick" THEN { FromNat(9), FromNat(3) } ELSE { FromNat(9), FromNat(3), Sub(Pow2(256), One), Zero, Add(RMod, FromNat(3)) })
EncPreStepC(pre) == [a |-> "encryptpre", pre |-> pre, mu |-> Pad(Mu(10), 32), msg |-> Msg10, t |-> Pad(Rand(11), 32), stream |-> Stream(Rand(11))]
\* identities with word-boundary structure (2^128 + 7: bits 64..127 zero, a bit above) among them: the adjustment multiplies by the
\* difference of identities, and a narrowing of that exponent is invisible for small values
AdjCh == [1..L3 -> SlotChoices(IF Tier = "quick" THEN { FromNat(9), FromNat(3), Add(Pow2(128), FromNat(7)) }
                               ELSE { FromNat(9), FromNat(3), Sub(Pow2(256), One), Zero, Add(RMod, FromNat(3)), Add(Pow2(128), FromNat(7)), Add(Pow2(192), FromNat(5)) })]
ParentChs == { <<<<"U">>, <<"U">>, <<"U">>>>, <<<<"V", FromNat(9)>>, <<"U">>, <<"U">>>>, <<<<"U">>, <<"H">>, <<"U">>>>, <<<<"H">>, <<"U">>, <<"V", FromNat(9)>>>> }
\* lists for the precomputed product may carry the omitFromKeys flag together with a value (the flag concerns keys only)
AdjChFlagged == [1..L3 -> {<<"U">>, <<"V", FromNat(9)>>, <<"HV", FromNat(3)>>, <<"HV", FromNat(9)>>}]
AdjustDescs ==
  { <<"pre", NoCh, fr, to>> : fr \in AdjCh, to \in AdjCh }
  \cup { <<"pre", NoCh, fr, to>> : fr \in AdjChFlagged, to \in AdjChFlagged }
  \cup UNION { LET P == P3(1)
                   Kp == W!NdKeyGen(P, Spec(ListOf(pc, 1)), 0)
                   ok == { ch \in [1..L3 -> SlotChoices({ FromNat(9), FromNat(3) } \cup FixedVals(Kp))] : W!PermittedQual(P, Kp, Spec(ListOf(ch, 1))) }
               IN { <<"nd", pc, fr, to>> : fr \in ok, to \in ok } : pc \in ParentChs }
BuildAdjust(d) ==
  LET P == P3(1)  fr == ListOf(d[3], 1)  to == ListOf(d[4], 1) IN
  IF d[1] = "pre" THEN History(L3, 1, <<PreStep(fr), AdjPreStep(1, fr, to), PreStep(to), EncPreStepC(2), EncStepC(to)>>, "adjust", "pre")
  ELSE LET pl == ListOf(d[2], 1)  Kp == W!NdKeyGen(P, Spec(pl), 0) IN
       History(L3, 1, <<NdKeygenStep(pl, 0), NdQualStep(1, fr, 0), AdjNdStep(2, 1, fr, to), NdQualStep(1, to, 0),
                        EncStepC(FixedList(W!NdQualify(P, Kp, Spec(to), 0))), DecStep(5, 3)>>, "adjust", "nd")
AdjustChains ==
  { History(L3, 1, <<PreStep(a), AdjPreStep(1, a, b), AdjPreStep(2, b, c), AdjPreStep(3, c, a)>>, "adjust", "pre-chain")
    : a \in { ListOf(<<<<"V", FromNat(9)>>, <<"U">>, <<"V", FromNat(3)>>>>, 1) },
      b \in { ListOf(<<<<"U">>, <<"V", FromNat(3)>>, <<"U">>>>, 1), ListOf(<<<<"V", FromNat(3)>>, <<"U">>, <<"V", FromNat(3)>>>>, 1) },
      c \in { <<>>, ListOf(<<<<"V", FromNat(9)>>, <<"V", FromNat(9)>>, <<"V", FromNat(9)>>>>, 1), ListOf(<<<<"V", Sub(Pow2(256), One)>>, <<"H">>, <<"V", Zero>>>>, 1) } }

\* signatures through an adjusted precomputation against the direct forms, messages below and above r: all five routes give one verdict
AdjustSig ==
  LET v7 == FromNat(7)
      L0 == ListOf(<<<<"V", v7>>, <<"U">>, <<"V", FromNat(3)>>>>, 1)
      L1 == ListOf(<<<<"V", v7>>, <<"V", FromNat(9)>>, <<"U">>>>, 1)
  IN { History(L3, 1, <<KeygenStep(ListOf(<<<<"V", v7>>, <<"U">>, <<"U">>>>, 1), 0, 0), PreStep(L0), AdjPreStep(2, L0, L1), SignPreStep(1, 3, L1, m, 5), VerPreStep(3, 4, m),
                         VerStep(L1, 4, m), SignStep(1, L1, m, 6), VerPreStep(3, 7, m), PreStep(L1), VerPreStep(9, 4, m), VerStep(L1, 7, m), VerPreStep(9, 7, OtherMsg(m))>>, "adjust", "sig-routes")
       : m \in { One, Add(RMod, FromNat(5)), Sub(Pow2(256), One) } }

\* ---- family "inplace" (C18, C interface of the scheme): the output key object is the input key object ------------------------
\* every history is emitted twice (inplace = 0 / 1) with the same pair id; the steps' meaning does not depend on the flag
InplacePairs ==
  LET P == P3(1)
      v7 == FromNat(7)
      kls == { ListOf(<<<<"U">>, <<"U">>, <<"U">>>>, 1), ListOf(<<<<"V", v7>>, <<"U">>, <<"U">>>>, 1), ListOf(<<<<"U">>, <<"H">>, <<"U">>>>, 1) }
      quals(K) == { ListOf(ch, 1) : ch \in { c \in [1..L3 -> SlotChoices({ FromNat(9) } \cup FixedVals(K))] : W!PermittedQual(P, K, Spec(ListOf(c, 1))) } }
      WithFlag(st, ip) == st @@ [inplace |-> ip]
  IN UNION { LET K1 == W!KeyGen(P, Spec(kl), 0, Rand(0))  N1 == W!NdKeyGen(P, Spec(kl), 0) IN
       UNION { { <<"wk:qualify", [ip \in {0, 1} |-> History(L3, 1, <<KeygenStep(kl, 0, 0), WithFlag(QualStep(1, q, f, 4), ip)>> \o ProbeTail(2, W!Qualify(P, K1, Spec(q), f, Rand(4))), "inplace", "qualify")]>>,
                 <<"wk:ndqualify", [ip \in {0, 1} |-> History(L3, 1, <<NdKeygenStep(kl, 0), WithFlag(NdQualStep(1, q, f), ip)>> \o ProbeTail(2, W!NdQualify(P, N1, Spec(q), f)), "inplace", "ndqualify")]>>,
                 <<"wk:adjustnd", [ip \in {0, 1} |-> History(L3, 1, <<NdKeygenStep(kl, 0), WithFlag(AdjNdStep(1, 1, FixedList(N1), q), ip), NdQualStep(1, q, 0),
                                                                         EncStepC(FixedList(W!NdQualify(P, N1, Spec(q), 0))), DecStep(4, 2)>>, "inplace", "adjustnd")]>> }
               : q \in quals(K1), f \in {0, 1} }
       \cup { <<"wk:resample", [ip \in {0, 1} |-> History(L3, 1, <<KeygenStep(kl, 0, 0), PreStep(FixedList(K1)), WithFlag(ResampleStep(1, 2, fu, 8), ip)>>
                                                                      \o ProbeTail(3, W!Resample(P, K1, Rand(8), fu)), "inplace", "resample")]>> : fu \in {0, 1} }
     : kl \in kls }
InplaceCases == LET ps == SetToSeq(InplacePairs) IN
  [k \in 1..(2 * Len(ps)) |-> LET pr == ps[(k + 1) \div 2]  ip == (k + 1) % 2 IN pr[2][ip] @@ [akey |-> pr[1], acode |-> 1, aid |-> (k + 1) \div 2, alias |-> ip]]

Keep == IF "KEEP" \in DOMAIN IOEnv THEN atoi(IOEnv.KEEP) ELSE 1        \* keep one history out of KEEP (rotated by SEED)
\* pseudo-random (not strided: a stride correlates with the enumeration order of the descriptor tuples and would systematically
\* drop whole classes, e.g. every history in which the two flags differ)
\* (indices above 200000 are folded first: TLC's integers are 32-bit, and the thorough tier enumerates more than 2^31 / 7919 descriptors)
Mix(i) == LET j == IF i > 200000 THEN (i % 200000) + 7 * (i \div 200000) ELSE i
          IN (((j * 7919 + (Seed % 4000) * 104729 + 12345) % 1000003) * 31 + j) % 1000003
Thinned(sq) == LET sel == SelectSeq([i \in 1..Len(sq) |-> i], LAMBDA i : Mix(i) % Keep = 0 /\ i % NShards = Shard) IN [k \in 1..Len(sel) |-> sq[sel[k]]]
Cases == CASE Family = "deleg" -> LET ds == Thinned(SetToSeq(DelegDescs) \o SetToSeq(ChainDescs)) \o (IF Shard = 0 THEN SetToSeq(HvDescs) ELSE <<>>) IN [k \in 1..Len(ds) |-> BuildDeleg(ds[k])] \o (IF Shard = 0 THEN SetToSeq(AdjustedKeyHistories) ELSE <<>>)
           [] Family = "neg" -> Thinned(SetToSeq(NegCases(1))) \o SetToSeq(WideCases(0))
           [] Family = "sig" -> Thinned(SetToSeq(SigCases))
           [] Family = "inplace" -> Thinned(InplaceCases)
           [] OTHER -> LET ds == Thinned(SetToSeq(AdjustDescs)) IN [k \in 1..Len(ds) |-> BuildAdjust(ds[k])] \o SetToSeq(AdjustChains) \o (IF Shard = 0 THEN SetToSeq(AdjustSig) ELSE <<>>)
ASSUME PrintT(<<"cases", Len(Cases)>>)
ASSUME ndJsonSerialize(IOEnv.OUT, Cases)
=============================================================================
