CONSTANTS P = 13
          B = 1
INIT Init
NEXT Next
INVARIANT AddOk
INVARIANT MixedOk
INVARIANT DoubleOk
INVARIANT EqualOk
INVARIANT ConvertOk
CHECK_DEADLOCK FALSE
