CONSTANTS P = 1021
 Bits = 11
 Mode = "inverse"
INIT Init
NEXT Next
INVARIANT AllGood
CHECK_DEADLOCK FALSE
