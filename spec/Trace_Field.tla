----------------------------- MODULE Trace_Field -----------------------------
(* Trace specification for the field layer (C02, C03): every recorded call of an Fq/Fr
   operation or of a raw multi-precision primitive must be explained by integer arithmetic
   modulo the prime (PrimeField) resp. by integer arithmetic modulo 2^384. *)
EXTENDS TraceBase, Fields381

VARIABLES l, st

PF(f)        == IF f = "fq" THEN QMod ELSE RMod
NB(f)        == IF f = "fq" THEN 48 ELSE 32
UsedBits(f)  == IF f = "fq" THEN 381 ELSE 255
V(f, raw)    == IF f = "fq" THEN Fq!Val(Norm(raw)) ELSE Fr!Val(Norm(raw))
Canon(f, raw) == Lt(Norm(raw), PF(f))
FAdd(f, a, b) == AddMod(a, b, PF(f))
FSub(f, a, b) == SubMod(a, b, PF(f))
FMul(f, a, b) == MulMod(a, b, PF(f))
Leg(f, a)    == IF f = "fq" THEN Fq!Legendre(a) ELSE Fr!Legendre(a)

W384 == Pow2(384)

FieldChecks(ev) ==
  LET f  == ev.f
      A  == IF Has(ev, "a") THEN V(f, ev.a) ELSE Zero
      B  == IF Has(ev, "b") THEN V(f, ev.b) ELSE Zero
      RR == IF Has(ev.out, "r") THEN V(f, ev.out.r) ELSE Zero
      rc == <<"canon", Canon(f, ev.out.r)>>
      o  == ev.op
  IN
  CASE o = "fp.set"  -> << rc, <<"value", RR = ModN(Norm(ev.n), PF(f))>> >>
    [] o = "fp.get"  -> << <<"pre.canon", Canon(f, ev.a)>>, <<"value", Norm(ev.out.n) = A>>, <<"width", Len(ev.out.n) = NB(f)>> >>
    [] o = "fp.add"  -> << rc, <<"value", RR = FAdd(f, A, B)>> >>
    [] o = "fp.sub"  -> << rc, <<"value", RR = FSub(f, A, B)>> >>
    [] o = "fp.mul"  -> << rc, <<"value", RR = FMul(f, A, IF ev.alias = 3 THEN A ELSE B)>> >>
    [] o = "fp.dbl"  -> << rc, <<"value", RR = FAdd(f, A, A)>> >>
    [] o = "fp.neg"  -> << rc, <<"value", RR = NegMod(A, PF(f))>> >>
    [] o = "fp.sqr"  -> << rc, <<"value", RR = FMul(f, A, A)>> >>
    [] o = "fp.inv"  -> << rc, <<"value", IF IsZero(A) THEN IsZero(RR) ELSE FMul(f, A, RR) = One>> >>
    [] o = "fp.inv_m" -> << rc, <<"value", IF IsZero(A) THEN IsZero(RR) ELSE FMul(f, A, RR) = One>> >>
    [] o = "fp.copy" -> << <<"value", Norm(ev.out.r) = Norm(ev.a)>> >>
    [] o = "fp.exp"  -> << rc, <<"value", RR = ModExp(A, Norm(ev.e), PF(f))>> >>
    [] o = "fp.legendre" -> << <<"value", ev.out.v = Leg(f, A)>> >>
    [] o = "fp.sqrt" -> << <<"pre.square", Leg(f, A) # (0 - 1)>>, rc, <<"value", FMul(f, RR, RR) = A>> >>
    [] o = "fp.eq"   -> << <<"value", ev.out.v = (IF A = B THEN 1 ELSE 0)>> >>
    [] o = "fp.is_zero" -> << <<"value", ev.out.v = (IF IsZero(A) THEN 1 ELSE 0)>> >>
    [] o = "fp.is_one"  -> << <<"value", ev.out.v = (IF A = One THEN 1 ELSE 0)>> >>
    \* the property asks for the order of the represented integers; the pinned library orders the
    \* Montgomery residues (known finding, keyed by this rule; see DESIGN.md section 7)
    [] o = "fp.cmp"  -> << <<"cmp.integer-order", ev.out.v = Cmp(A, B)>>, <<"cmp.either-rule", ev.out.v = Cmp(A, B) \/ ev.out.v = Cmp(Norm(ev.a), Norm(ev.b))>> >>
    [] o = "fp.readbe" -> << rc, <<"value", RR = ModN(ModPow2(FromBE(ev.bytes), UsedBits(f)), PF(f))>> >>
    [] o = "fp.writebe" -> << <<"value", ev.out.bytes = ToBE(A, NB(f))>> >>
    [] o = "fp.hashreduce" -> << <<"value", Norm(ev.out.r) = ModN(ModPow2(Norm(ev.n), UsedBits(f)), PF(f))>>,
                                 <<"topbit", ev.out.v = Bit(Norm(ev.n), 8 * NB(f) - 1)>> >>
    [] o = "fp.reduce" -> << <<"pre.range", Lt(Norm(ev.n), Add(PF(f), PF(f)))>>, <<"value", Norm(ev.out.r) = ModN(Norm(ev.n), PF(f))>> >>
    [] OTHER -> << <<"unknown-op", FALSE>> >>

\* FpBase::add / subtract as the portable code defines them on arbitrary 384-bit operands
GenAdd(a, b, p) == LET s == Add(a, b)  t == ModN(s, W384) IN IF ~Lt(s, W384) \/ ~Lt(t, p) THEN ModN(Sub(Add(t, W384), p), W384) ELSE t
GenSub(a, b, p) == LET t == ModN(Sub(Add(a, W384), b), W384) IN IF Lt(a, b) THEN ModN(Add(t, p), W384) ELSE t
RawChecks(ev) ==
  LET a == IF Has(ev, "a") THEN Norm(ev.a) ELSE Zero
      b == IF Has(ev, "b") THEN Norm(ev.b) ELSE Zero
      r == IF Has(ev.out, "r") THEN Norm(ev.out.r) ELSE Zero
      p == IF Has(ev, "p") THEN Norm(ev.p) ELSE One
      o == ev.op
  IN
  CASE o = "raw.add" -> << <<"value", r = ModN(Add(a, b), W384)>>, <<"carry", ev.out.c = (IF Lt(Add(a, b), W384) THEN 0 ELSE 1)>> >>
    [] o = "raw.sub" -> << <<"value", r = ModN(Sub(Add(a, W384), b), W384)>>, <<"borrow", ev.out.c = (IF Lt(a, b) THEN 1 ELSE 0)>> >>
    [] o = "raw.shl1" -> << <<"value", r = ModN(Add(a, a), W384)>>, <<"carry", ev.out.c = Bit(a, 383)>> >>
    \* C03 quantifies over ALL 384-bit operands: for unreduced operands the meaning is the generic word-serial algorithm's (WordArith: one
    \* conditional correction by p, decided by the carry / borrow and the comparison with p); for reduced operands that is a + b mod p etc.
    [] o = "raw.fpadd" -> << <<"value", r = GenAdd(a, b, p)>>, <<"reduced-case", ~(Lt(a, p) /\ Lt(b, p)) \/ r = AddMod(a, b, p)>> >>
    [] o = "raw.fpsub" -> << <<"value", r = GenSub(a, b, p)>>, <<"reduced-case", ~(Lt(a, p) /\ Lt(b, p)) \/ r = SubMod(a, b, p)>> >>
    [] o = "raw.fpdbl" -> << <<"value", r = GenAdd(a, a, p)>>, <<"reduced-case", ~Lt(a, p) \/ r = AddMod(a, a, p)>> >>
    [] o = "raw.mullo" -> << <<"value", Norm(ev.out.r) = ModPow2(Mul(a, b), 384)>>, <<"width", Len(ev.out.r) = 48>> >>
    [] o = "raw.mul" -> << <<"value", Norm(ev.out.w) = Mul(a, b)>>, <<"width", Len(ev.out.w) = 96>> >>
    [] o = "raw.sqr" -> << <<"value", Norm(ev.out.w) = Mul(a, a)>>, <<"width", Len(ev.out.w) = 96>> >>
    [] o = "raw.redc" -> << <<"pre.range", Lt(Norm(ev.w), Mul(p, W384))>>,
                            <<"pre.inv", ModN(Mul(p, Norm(ev.inv)), W384) = Sub(W384, One)>>,
                            <<"value", r = MulMod(Norm(ev.w), ModInv(ModN(W384, p), p), p)>> >>
    [] o = "raw.copy" -> << <<"value", r = a>> >>
    [] o = "raw.shr1" -> << <<"value", r = ShiftR(a, 1)>>, <<"carry", ev.out.c = Bit(a, 0)>> >>
    [] o = "raw.shr" -> << <<"pre.range", ev.amt < 384>>, <<"value", r = ShiftR(a, ev.amt)>> >>
    [] o = "raw.shl" -> << <<"pre.range", ev.amt < 384>>, <<"value", r = ModN(ShiftL(a, ev.amt), W384)>> >>
    [] o = "raw.divword" -> << <<"value", a = Add(Mul(r, FromNat(65537)), Norm(ev.out.rem))>>, <<"rem", Lt(Norm(ev.out.rem), FromNat(65537))>> >>
    [] o = "raw.divdword" -> << <<"value", a = Add(Mul(r, XAbs), Norm(ev.out.rem))>>, <<"rem", Lt(Norm(ev.out.rem), XAbs)>> >>
    [] o = "raw.fpneg" -> << <<"pre.range", Lt(a, p)>>, <<"value", r = NegMod(a, p)>> >>
    [] o = "raw.fpmul" -> << <<"pre.range", Lt(a, p) /\ Lt(b, p)>>,
                             <<"value", r = MulMod(MulMod(a, IF ev.alias = 3 THEN a ELSE b, p), ModInv(ModN(W384, p), p), p)>> >>
    [] o = "raw.fpsqr" -> << <<"pre.range", Lt(a, p)>>, <<"value", r = MulMod(MulMod(a, a, p), ModInv(ModN(W384, p), p), p)>> >>
    [] o = "raw.cmp" -> << <<"value", ev.out.v = Cmp(a, b)>> >>
    [] o = "raw.dispatch" -> << <<"value", ev.backend = "base" \/ ev.out.table = (IF ev.out.bmi2 = 1 THEN "bmi2" ELSE "base")>> >>
    [] OTHER -> << <<"unknown-op", FALSE>> >>

Fails(ev) == FailsOf(IF ev.op \in {"raw.add", "raw.sub", "raw.shl1", "raw.fpadd", "raw.fpsub", "raw.fpdbl", "raw.mul", "raw.mullo",
                                    "raw.sqr", "raw.redc", "raw.cmp", "raw.dispatch", "raw.copy", "raw.shr1", "raw.shr", "raw.shl",
                                    "raw.divdword", "raw.divword", "raw.fpneg", "raw.fpmul", "raw.fpsqr"}
                     THEN RawChecks(ev) ELSE FieldChecks(ev))

Init == l \in 1..NLines /\ st = "todo"
Next == /\ st = "todo"
        /\ LET f == Fails(Tr[l]) IN
             /\ st' = "done"
             /\ IF f = {} THEN TRUE ELSE PrintT(<<"FAIL", l, f>>)
        /\ UNCHANGED l
=============================================================================
