------------------------------- MODULE Pairing --------------------------------
(* Tier B: the BLS12-381 optimal-ate pairing as the library defines it: the Miller function
   f_{|x|,Q}(P) of the textbook double-and-add loop over the bits of |x| with chord/tangent lines
   through multiples of Q, inverted because x is negative, raised to (q^12-1)/r * 3 by plain
   exponentiation (the final exponent of the library is three times the reduced-pairing exponent).

   Lines.  Q = (x', y') lies on the twist E'(Fq2): y^2 = x^3 + 4(1+u) and is untwisted by
   psi(x', y') = (x'/w^2, y'/w^3) into E(Fq12).  Chord and tangent slopes of psi-images are the
   twist slopes divided by w (both formulas are homogeneous), so the line through psi(A), psi(B)
   with twist slope lam, evaluated at P = (xP, yP) in E(Fq), is
        yP - lam xP / w + (lam xA - yA) / w^3 .
   It is used multiplied by w^3 (an element whose order is prime to r, hence killed by the final
   exponent):   (lam xA - yA)  -  lam xP * w^2  +  yP * w^3 .
   Vertical lines lie in Fq6 and are omitted for the same reason (denominator elimination).
   RefPairingDirect (slopes computed in E(Fq12) itself, with inversions by Fermat) is the
   unoptimised definition; MC_Pairing checks both agree on the generators.                   *)
EXTENDS Curves381, FiniteSets

FinalExponent == Mul(Div(Sub(QPow(12), One), RMod), FromNat(3))

\* bits of |x| below the most significant one, most significant first
XBits == LET n == BitLen(XAbs) IN [i \in 1..(n - 1) |-> Bit(XAbs, n - 1 - i)]
NumCoeffs == (BitLen(XAbs) - 1) + Cardinality({ i \in 1..(BitLen(XAbs) - 1) : XBits[i] = 1 })

\* embedding of a + b w^2 + c w^3 (a, b in Fq2; c in Fq2) into the tower: w^2 = v, w^3 = v w
LineElem(a, b, c) == << <<a, b, F2!EZero>>, <<F2!EZero, c, F2!EZero>> >>
EmbFq(x) == <<x, Zero>>
\* line through twist points A, B (A = B: tangent) evaluated at P, scaled by w^3
LineAt(A, B, P) ==
  LET lam == IF A = B THEN F2Mul(F2Mul(<<FromNat(3), Zero>>, F2Mul(A[1], A[1])), F2Inv(F2Add(A[2], A[2])))
             ELSE F2Mul(F2Sub(B[2], A[2]), F2Inv(F2Sub(B[1], A[1])))
  IN LineElem(F2Sub(F2Mul(lam, A[1]), A[2]), F2Neg(F2Mul(lam, EmbFq(P[1]))), EmbFq(P[2]))

\* one loop iteration as a step on <<f, T>>
MillerStep(st, bit, P, Qt) ==
  LET f1 == F12Mul(F12Mul(st[1], st[1]), LineAt(st[2], st[2], P))
      T1 == E2!PDbl(st[2])
  IN IF bit = 1 THEN <<F12Mul(f1, LineAt(T1, Qt, P)), E2!PAdd(T1, Qt)>> ELSE <<f1, T1>>
MillerFn(P, Qt) == FoldLeft(LAMBDA st, bit : MillerStep(st, bit, P, Qt), <<F12!EOne, Qt>>, XBits)[1]

\* e(P, Q): identity arguments give the neutral element
RefPairing(P, Qt) ==
  IF P = <<>> \/ Qt = <<>> THEN F12!EOne
  ELSE F12Exp(F12Conj(MillerFn(P, Qt)), FinalExponent)          \* conj = inverse up to the final exponent (x < 0)

GTGen == RefPairing(G1Gen, G2Gen)
InGT(a) == F12Exp(a, RMod) = F12!EOne

\* ---- the unoptimised definition on E(Fq12) ------------------------------------------------------------
F12Inv(a) == F12Exp(a, Sub(QPow(12), Two))
F12Sub(a, b) == F12!ESub(a, b)
F12Add(a, b) == F12!EAdd(a, b)
E12 == INSTANCE Curve WITH FZero <- F12!EZero, FOne <- F12!EOne, FAdd <- F12Add, FSub <- F12Sub, FMul <- F12Mul,
                           FNeg <- F12!ENeg, FInv <- F12Inv, BCoef <- F12!EEmbed(F6!EEmbed(<<FromNat(4), Zero>>))
Emb2(a)  == F12!EEmbed(F6!EEmbed(a))                       \* Fq2 -> Fq12
W12      == <<F6!EZero, F6!EOne>>                          \* w
W2inv    == F12Inv(F12Mul(W12, W12))
W3inv    == F12Inv(F12Mul(W12, F12Mul(W12, W12)))
Untwist(Qt) == <<F12Mul(Emb2(Qt[1]), W2inv), F12Mul(Emb2(Qt[2]), W3inv)>>
LineDirect(A, B, P) ==
  LET lam == IF A = B THEN F12Mul(F12Mul(Emb2(<<FromNat(3), Zero>>), F12Mul(A[1], A[1])), F12Inv(F12Add(A[2], A[2])))
             ELSE F12Mul(F12Sub(B[2], A[2]), F12Inv(F12Sub(B[1], A[1])))
  IN F12Sub(F12Sub(P[2], A[2]), F12Mul(lam, F12Sub(P[1], A[1])))
DirectStep(st, bit, P, Qh) ==
  LET f1 == F12Mul(F12Mul(st[1], st[1]), LineDirect(st[2], st[2], P))
      T1 == E12!PDbl(st[2])
  IN IF bit = 1 THEN <<F12Mul(f1, LineDirect(T1, Qh, P)), E12!PAdd(T1, Qh)>> ELSE <<f1, T1>>
RefPairingDirect(P, Qt) ==
  LET Qh == Untwist(Qt)
      Ph == <<Emb2(EmbFq(P[1])), Emb2(EmbFq(P[2]))>>
      f  == FoldLeft(LAMBDA st, bit : DirectStep(st, bit, Ph, Qh), <<F12!EOne, Qh>>, XBits)[1]
  IN F12Exp(F12Inv(f), FinalExponent)
=============================================================================
