------------------------------ MODULE ExtField -------------------------------
(* Tier B: the quotient ring K[t]/(t^D - C) over a ring K given by its operations.  An element
   is the sequence <<a_0, ..., a_(D-1)>> of its coefficients.  Multiplication is the polynomial
   product followed by the reduction t^D = C; nothing here knows about Karatsuba or any other
   formula the implementation uses.                                                            *)
EXTENDS Naturals, Sequences
CONSTANTS D, C, KZero, KOne, KAdd(_, _), KSub(_, _), KMul(_, _), KNeg(_)

EZero == [i \in 1..D |-> KZero]
EOne  == [i \in 1..D |-> IF i = 1 THEN KOne ELSE KZero]
EAdd(a, b) == [i \in 1..D |-> KAdd(a[i], b[i])]
ESub(a, b) == [i \in 1..D |-> KSub(a[i], b[i])]
ENeg(a)    == [i \in 1..D |-> KNeg(a[i])]
EEmbed(k)  == [i \in 1..D |-> IF i = 1 THEN k ELSE KZero]       \* K -> K[t]/(..)
EScale(k, a) == [i \in 1..D |-> KMul(k, a[i])]

\* coefficient of t^k (k = 0..2D-2) in the polynomial product
RECURSIVE CoefSum(_, _, _, _)
CoefSum(a, b, k, i) ==
  IF i > D - 1 THEN KZero
  ELSE IF k - i >= 0 /\ k - i <= D - 1
       THEN KAdd(KMul(a[i + 1], b[k - i + 1]), CoefSum(a, b, k, i + 1))
       ELSE CoefSum(a, b, k, i + 1)
Coef(a, b, k) == CoefSum(a, b, k, 0)
EMul(a, b) == [k \in 1..D |-> IF k - 1 + D <= 2 * D - 2
                              THEN KAdd(Coef(a, b, k - 1), KMul(C, Coef(a, b, k - 1 + D)))
                              ELSE Coef(a, b, k - 1)]
ESqr(a) == EMul(a, a)
IsInv(a, x) == IF a = EZero THEN x = EZero ELSE EMul(a, x) = EOne
=============================================================================
