CONSTANTS P = 769
 Bits = 11
 Mode = "sqrt-ts"
INIT Init
NEXT Next
INVARIANT AllGood
CHECK_DEADLOCK FALSE
