----------------------------- MODULE MarshalLayout -----------------------------
(* Byte layouts, abstract values and length functions of the scheme objects (shared by the
   marshalling trace specification and its case generator).  Built on Encoding.tla. *)
EXTENDS Encoding
V1(x)  == FqM!Val(Norm(x))
V2(x)  == <<V1(x[1]), V1(x[2])>>
V6(x)  == <<V2(x[1]), V2(x[2]), V2(x[3])>>
V12(x) == <<V6(x[1]), V6(x[2])>>
Jac1(j) == E1!JacToAffine(V1(j[1]), V1(j[2]), V1(j[3]))
Jac2(j) == E2!JacToAffine(V2(j[1]), V2(j[2]), V2(j[3]))
Aff1(a) == IF a[3] # 0 THEN <<>> ELSE <<V1(a[1]), V1(a[2])>>
Aff2(a) == IF a[3] # 0 THEN <<>> ELSE <<V2(a[1]), V2(a[2])>>
BE12(x) == LET b1(v) == ToBE(v, 48)
               b2(v) == b1(v[2]) \o b1(v[1])
               b6(v) == b2(v[3]) \o b2(v[2]) \o b2(v[1])
           IN b6(x[2]) \o b6(x[1])
BE32(k) == <<k \div 16777216, (k \div 65536) % 256, (k \div 256) % 256, k % 256>>
S(f) == [i \in 1..Len(f) |-> f[i]]
E1b(P, c) == S(Encode(1, P, c))
E2b(P, c) == S(Encode(2, P, c))
RECURSIVE CatAll(_, _)
CatAll(ss, i) == IF i > Len(ss) THEN <<>> ELSE ss[i] \o CatAll(ss, i + 1)

G1L(c) == IF c THEN 48 ELSE 96
G2L(c) == IF c THEN 96 ELSE 192

\* ---- layouts (objects given with Jacobian / affine raw elements) ---------------------------------------------
Layout(kind, o, c) ==
  CASE kind = "wk.key" -> <<o.sigs>> \o E1b(Jac1(o.a0), c) \o E2b(Jac2(o.a1), c) \o (IF o.sigs = 1 THEN E1b(Jac1(o.bsig), c) ELSE <<>>)
                          \o CatAll([i \in 1..Len(o.idx) |-> E1b(Jac1(o.b[i]), c) \o BE32(o.idx[i])], 1)
    [] kind = "wk.params" -> <<o.sigs>> \o E2b(Jac2(o.g), c) \o E2b(Jac2(o.g1), c) \o E1b(Jac1(o.g2), c) \o E1b(Jac1(o.g3), c)
                          \o (IF c THEN <<>> ELSE BE12(V12(o.pairing))) \o (IF o.sigs = 1 THEN E1b(Jac1(o.hsig), c) ELSE <<>>)
                          \o CatAll([i \in 1..Len(o.h) |-> E1b(Jac1(o.h[i]), c)], 1)
    [] kind = "wk.ct" -> BE12(V12(o.a)) \o E2b(Jac2(o.b), c) \o E1b(Jac1(o.c), c)
    [] kind = "wk.sig" -> E1b(Jac1(o.a0), c) \o E2b(Jac2(o.a1), c)
    [] kind = "wk.msk" -> E1b(Jac1(o.g2alpha), c)
    [] kind = "lq.params" -> E2b(Jac2(o.p), c) \o E2b(Jac2(o.sp), c)
    [] kind \in {"lq.id", "lq.sk"} -> E1b(Aff1(o.q), c)
    [] kind = "lq.ct" -> E2b(Aff2(o.rp), c)
    [] kind = "lq.msk" -> S(o.s)                                         \* the scalar's 32 bytes in memory order
    [] OTHER -> <<>>
\* the same object as abstract values (points, not representatives)
Abs(kind, o) ==
  CASE kind = "wk.key" -> <<o.sigs, Jac1(o.a0), Jac2(o.a1), IF o.sigs = 1 THEN Jac1(o.bsig) ELSE <<>>, [i \in 1..Len(o.idx) |-> <<o.idx[i], Jac1(o.b[i])>>]>>
    [] kind = "wk.params" -> <<o.sigs, Jac2(o.g), Jac2(o.g1), Jac1(o.g2), Jac1(o.g3), V12(o.pairing), IF o.sigs = 1 THEN Jac1(o.hsig) ELSE <<>>, [i \in 1..Len(o.h) |-> Jac1(o.h[i])]>>
    [] kind = "wk.ct" -> <<V12(o.a), Jac2(o.b), Jac1(o.c)>>
    [] kind = "wk.sig" -> <<Jac1(o.a0), Jac2(o.a1)>>
    [] kind = "wk.msk" -> <<Jac1(o.g2alpha)>>
    [] kind = "lq.params" -> <<Jac2(o.p), Jac2(o.sp)>>
    [] kind = "lq.id" -> <<Aff1(o.q)>>
    [] kind = "lq.sk" -> <<Aff1(o.sq)>>
    [] kind = "lq.ct" -> <<Aff2(o.rp)>>
    [] kind = "lq.msk" -> <<Norm(o.s)>>
    [] OTHER -> <<>>
AbsIn(kind, o) == IF kind = "lq.sk" THEN <<Aff1(o.q)>> ELSE Abs(kind, o)      \* the generator names the lq.sk element "q"
SlotCount(kind, o) == IF kind = "wk.key" THEN Len(o.idx) ELSE IF kind = "wk.params" THEN Len(o.h) ELSE 0
LenOf(kind, o, c) ==
  CASE kind = "wk.key" -> 1 + G1L(c) + G2L(c) + SlotCount(kind, o) * (4 + G1L(c)) + o.sigs * G1L(c)
    [] kind = "wk.params" -> 1 + 2 * G1L(c) + 2 * G2L(c) + (IF c THEN 0 ELSE 576) + (o.sigs + SlotCount(kind, o)) * G1L(c)
    [] kind = "wk.ct" -> 576 + G1L(c) + G2L(c)
    [] kind = "wk.sig" -> G1L(c) + G2L(c)
    [] kind \in {"wk.msk", "lq.id", "lq.sk"} -> G1L(c)
    [] kind = "lq.params" -> 2 * G2L(c)
    [] kind = "lq.ct" -> G2L(c)
    [] OTHER -> 32

\* result of one protocol run on the marshalled form of a valid object
GoodRun(kind, o, c, bytes, r) ==
  /\ r.fault = 0 /\ r.ok = 1
  /\ (kind \in {"wk.key", "wk.params"} => r.rep = SlotCount(kind, o) /\ r.rep2 = r.rep)
  /\ Abs(kind, r.obj) = AbsIn(kind, o)
  /\ r.relen = Len(bytes) /\ r.again = bytes
  \* one object reused: other parameters first, then a rejected load of a damaged copy, then these bytes
  /\ ("route3" \in DOMAIN r => r.route3.fault = 0 /\ r.route3.ok = 1 /\ Abs(kind, r.route3.obj) = AbsIn(kind, o))
  \* the second documented route (static unmarshalled_length, count stored by hand, target object with a stale signature-support flag)
  /\ ("route2" \in DOMAIN r => /\ r.route2.fault = 0 /\ r.route2.ok = 1 /\ Abs(kind, r.route2.obj) = AbsIn(kind, o)
                               /\ r.route2.relen = Len(bytes) /\ r.route2.again = bytes)

\* ---- validating parse of an arbitrary buffer of a fixed layout (element list) --------------------------------------
\* every embedded group element must pass DecodeChecked; elems = sequence of <<group, offset(0-based)>>
ElemsOf(kind, c, sigs, cnt) ==
  LET a == G1L(c)  b == G2L(c) IN
  CASE kind = "wk.key" -> <<<<1, 1>>, <<2, 1 + a>>>> \o (IF sigs THEN <<<<1, 1 + a + b>>>> ELSE <<>>)
                          \o [i \in 1..cnt |-> <<1, 1 + a + b + (IF sigs THEN a ELSE 0) + (i - 1) * (4 + a)>>]
    [] kind = "wk.params" -> <<<<2, 1>>, <<2, 1 + b>>, <<1, 1 + 2 * b>>, <<1, 1 + 2 * b + a>>>>
                          \o (IF sigs THEN <<<<1, 1 + 2 * b + 2 * a + (IF c THEN 0 ELSE 576)>>>> ELSE <<>>)
                          \o [i \in 1..cnt |-> <<1, 1 + 2 * b + 2 * a + (IF c THEN 0 ELSE 576) + (IF sigs THEN a ELSE 0) + (i - 1) * a>>]
    [] kind = "wk.ct" -> <<<<2, 576>>, <<1, 576 + b>>>>
    [] kind = "wk.sig" -> <<<<1, 0>>, <<2, a>>>>
    [] kind \in {"wk.msk", "lq.id", "lq.sk"} -> <<<<1, 0>>>>
    [] kind = "lq.params" -> <<<<2, 0>>, <<2, b>>>>
    [] kind = "lq.ct" -> <<<<2, 0>>>>
    [] OTHER -> <<>>
AllElemsValid(kind, c, bytes, sigs, cnt) ==
  \A e \in { ElemsOf(kind, c, sigs, cnt)[i] : i \in 1..Len(ElemsOf(kind, c, sigs, cnt)) } :
     DecodeChecked(e[1], SubSeq(bytes, e[2] + 1, e[2] + (IF e[1] = 1 THEN G1L(c) ELSE G2L(c))), c).ok

ParamsUnm(nn, b, c) == LET without == 1 + 2 * G1L(c) + 2 * G2L(c) + (IF c THEN 0 ELSE 576) + (IF b = 0 THEN 0 ELSE G1L(c)) IN
  IF nn < without THEN 0 - 1 ELSE IF (nn - without) % G1L(c) = 0 THEN (nn - without) \div G1L(c) ELSE 0 - 1
KeyUnm(nn, b, c) == LET without == 1 + G1L(c) + G2L(c) + (IF b = 0 THEN 0 ELSE G1L(c)) IN
  IF nn < without THEN 0 - 1 ELSE IF (nn - without) % (4 + G1L(c)) = 0 THEN (nn - without) \div (4 + G1L(c)) ELSE 0 - 1
UnmLen(kind, nn, b, c) == IF kind = "wk.params" THEN ParamsUnm(nn, b, c) ELSE KeyUnm(nn, b, c)

=============================================================================
