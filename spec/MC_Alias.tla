------------------------------ MODULE MC_Alias ------------------------------
(* Evaluates Alias.tla on the catalogue extracted from the tree under test.
   PHASE = "plan":   writes the obligations (env OUT) for bin/check to schedule.
   PHASE = "judge":  reads the verdicts the family trace specifications gave to every aliased
                     event and to its alias-free twin (env VERDICTS: key, code, twin_ok, alias_ok, n)
                     and decides: a (key, code) whose twin is accepted and whose aliased run is
                     rejected is a violation; a required (key, code) never exercised is a hole. *)
EXTENDS Alias, SequencesExt
Phase == IOEnv.PHASE

PlanRows == SetToSeq({ [idx |-> i, file |-> Plan[i].file, line |-> Plan[i].line, struct |-> Plan[i].struct, name |-> Plan[i].name,
                        ovl |-> Plan[i].ovl, out |-> Plan[i].out, codes |-> SetToSeq(Plan[i].codes), keys |-> SetToSeq(Plan[i].keys)] : i \in Obliged })
OtherRows == SetToSeq({ [other |-> 1, file |-> Ops[i].file, name |-> Ops[i].name, struct |-> Ops[i].struct, codes |-> SetToSeq(Patterns(Ops[i]))] : i \in OtherLayers })
DeadRows == SetToSeq({ [dead |-> 1, struct |-> b[2], name |-> b[3], ovl |-> b[4]] : b \in DeadBindings })

Verdicts == IF Phase = "judge" THEN ndJsonDeserialize(IOEnv.VERDICTS) ELSE <<>>
Exercised == { <<Verdicts[j].key, Verdicts[j].code>> : j \in 1..Len(Verdicts) }
Holes == Required \ Exercised
Bad == { j \in 1..Len(Verdicts) : Verdicts[j].twin_ok > 0 /\ Verdicts[j].alias_bad > 0 }

ASSUME Phase = "plan" => /\ PrintT(<<"catalogue", Len(Ops), "obliged", Cardinality(Obliged), "required", Cardinality(Required),
                                     "uncovered", Cardinality(Uncovered), "other-layers", Cardinality(OtherLayers), "dead-bindings", Cardinality(DeadBindings)>>)
                         /\ ndJsonSerialize(IOEnv.OUT, PlanRows \o OtherRows \o DeadRows)
ASSUME Phase = "judge" => /\ PrintT(<<"required", Cardinality(Required), "exercised", Cardinality(Exercised \cap Required), "holes", Holes>>)
                          /\ \A j \in Bad : PrintT(<<"ALIAS-VIOLATION", Verdicts[j].key, Verdicts[j].code>>)
                          /\ PrintT(<<"judged", Len(Verdicts), "bad", Cardinality(Bad)>>)
VARIABLE x
Init == x = 0
Next == UNCHANGED x
=============================================================================
