------------------------------ MODULE Curves381 ------------------------------
(* E1: y^2 = x^3 + 4 over Fq and E2: y^2 = x^3 + 4(1+u) over Fq2 as instances of Curve. *)
EXTENDS Tower

QInv(a) == ModInv(a, Q)
E1 == INSTANCE Curve WITH FZero <- Zero, FOne <- One, FAdd <- QAdd, FSub <- QSub, FMul <- QMul, FNeg <- QNeg,
                          FInv <- QInv, BCoef <- B1
\* 1/(a + bu) = (a - bu)/(a^2 + b^2)
F2Inv(a) == LET n == QInv(F2Norm(a)) IN <<QMul(a[1], n), QNeg(QMul(a[2], n))>>
E2 == INSTANCE Curve WITH FZero <- F2!EZero, FOne <- F2!EOne, FAdd <- F2Add, FSub <- F2Sub, FMul <- F2Mul, FNeg <- F2Neg,
                          FInv <- F2Inv, BCoef <- B2
G1Gen == <<G1GenX, G1GenY>>
G2Gen == <<G2GenX, G2GenY>>

\* square roots (used only to construct witnesses; every use is checked by squaring)
QSqrt(a) == ModExp(a, ShiftR(Add(Q, One), 2), Q)                    \* q = 3 (mod 4)
QIsSquare(a) == IsZero(a) \/ ModExp(a, ShiftR(Sub(Q, One), 1), Q) = One
F2Sqrt(a) ==      \* complex method; returns a root when a is a square in Fq2
  IF a[2] = Zero THEN (IF QIsSquare(a[1]) THEN <<QSqrt(a[1]), Zero>> ELSE <<Zero, QSqrt(QNeg(a[1]))>>)
  ELSE LET s   == QSqrt(F2Norm(a))
           h   == QInv(Two)
           t1  == QMul(QAdd(a[1], s), h)
           t   == IF QIsSquare(t1) THEN t1 ELSE QMul(QSub(a[1], s), h)
           x0  == QSqrt(t)
       IN <<x0, QMul(a[2], QInv(QAdd(x0, x0)))>>
=============================================================================
