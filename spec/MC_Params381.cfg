INIT Init
NEXT Next
