CONSTANTS P = 43
 Bits = 7
 Mode = "sqrt-fq2"
INIT Init
NEXT Next
INVARIANT AllGood
CHECK_DEADLOCK FALSE
