CONSTANTS P = 97
 Bits = 8
 Mode = "sqrt-ts"
INIT Init
NEXT Next
INVARIANT TsTerminatesOnNonSquares
CHECK_DEADLOCK FALSE
