// TLC module override for BigNat.tla (accelerator only; BigNat.tla holds the definitions).
// Compiled by bin/setup:  javac -cp tla2tools.jar -d spec spec/BigNat.java
import java.math.BigInteger;
import tlc2.value.impl.IntValue;
import tlc2.value.impl.TupleValue;
import tlc2.value.impl.Value;

public class BigNat {
    static BigInteger big(Value v) {
        TupleValue t = (TupleValue) v.toTuple();
        if (t == null) throw new RuntimeException("BigNat: not a sequence: " + v);
        Value[] e = t.elems;
        int n = e.length;
        byte[] be = new byte[n + 1];
        for (int i = 0; i < n; i++) {
            int d = ((IntValue) e[i]).val;
            if (d < 0 || d > 255) throw new RuntimeException("BigNat: digit out of range: " + d);
            be[n - i] = (byte) d;
        }
        return new BigInteger(be);
    }
    static Value val(BigInteger b) {
        if (b.signum() < 0) throw new RuntimeException("BigNat: negative result");
        if (b.signum() == 0) return new TupleValue(new Value[0]);
        byte[] be = b.toByteArray();
        int start = (be[0] == 0) ? 1 : 0;
        int n = be.length - start;
        Value[] e = new Value[n];
        for (int i = 0; i < n; i++) e[i] = IntValue.gen(be[be.length - 1 - i] & 0xff);
        return new TupleValue(e);
    }
    static int small(Value v) { return ((IntValue) v).val; }

    public static Value Norm(Value s) { return val(big(s)); }
    public static Value FromNat(Value n) { return val(BigInteger.valueOf(small(n))); }
    public static Value ToNat(Value s) { return IntValue.gen(big(s).intValueExact()); }
    public static Value Add(Value a, Value b) { return val(big(a).add(big(b))); }
    public static Value Sub(Value a, Value b) { return val(big(a).subtract(big(b))); }
    public static Value Cmp(Value a, Value b) { return IntValue.gen(big(a).compareTo(big(b))); }
    public static Value Mul(Value a, Value b) { return val(big(a).multiply(big(b))); }
    public static Value Div(Value a, Value m) { return val(big(a).divide(big(m))); }
    public static Value ModN(Value a, Value m) { return val(big(a).mod(big(m))); }
    public static Value ModExp(Value b, Value e, Value m) { return val(big(b).modPow(big(e), big(m))); }
    public static Value Bit(Value a, Value i) { return IntValue.gen(big(a).testBit(small(i)) ? 1 : 0); }
    public static Value BitLen(Value a) { return IntValue.gen(big(a).bitLength()); }
    public static Value ModInv(Value a, Value m) {
        BigInteger M = big(m), A = big(a).mod(M);
        if (A.signum() == 0) return val(BigInteger.ZERO);
        return val(A.modInverse(M));
    }
    public static Value Pow2(Value k) { return val(BigInteger.ONE.shiftLeft(small(k))); }
    public static Value ShiftR(Value a, Value k) { return val(big(a).shiftRight(small(k))); }
    public static Value ShiftL(Value a, Value k) { return val(big(a).shiftLeft(small(k))); }
    public static Value ModPow2(Value a, Value k) {
        return val(big(a).mod(BigInteger.ONE.shiftLeft(small(k))));
    }
    public static Value AddMod(Value a, Value b, Value m) { return val(big(a).add(big(b)).mod(big(m))); }
    public static Value SubMod(Value a, Value b, Value m) { return val(big(a).subtract(big(b)).mod(big(m))); }
    public static Value MulMod(Value a, Value b, Value m) { return val(big(a).multiply(big(b)).mod(big(m))); }
    public static Value NegMod(Value a, Value m) { return val(big(a).negate().mod(big(m))); }
    public static Value Pad(Value a, Value n) {
        TupleValue t = (TupleValue) a.toTuple();
        int k = small(n);
        Value[] e = new Value[k];
        for (int i = 0; i < k; i++) e[i] = i < t.elems.length ? t.elems[i] : IntValue.gen(0);
        for (int i = k; i < t.elems.length; i++)
            if (((IntValue) t.elems[i]).val != 0) throw new RuntimeException("BigNat.Pad: value does not fit in " + k + " bytes");
        return new TupleValue(e);
    }
    public static Value Rev(Value s) {
        TupleValue t = (TupleValue) s.toTuple();
        int n = t.elems.length;
        Value[] e = new Value[n];
        for (int i = 0; i < n; i++) e[i] = t.elems[n - 1 - i];
        return new TupleValue(e);
    }
}
