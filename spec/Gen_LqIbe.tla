------------------------------ MODULE Gen_LqIbe ------------------------------
(* Generator for LQ-IBE runs: identity hashes (around the modulus, with flag bits, requiring increments),
   master scalars {1, r-1, r, r+1, 2^256-1, pseudo-random}, key lengths {0, 1, 32, 1000}, scripted rho. *)
EXTENDS LqIbe, Json, IOUtils, TLC
Tier == IF "TIER" \in DOMAIN IOEnv THEN IOEnv.TIER ELSE "quick"
Seed == IF "SEED" \in DOMAIN IOEnv THEN atoi(IOEnv.SEED) ELSE 1
Rnd(k) == ModExp(FromNat(5), FromNat(1000003 * Seed + 7919 * k), Q)
RndR(k) == ModN(Rnd(k), RMod)
Raw1(v) == Pad(FqM!Mont(v), 48)
Raw2(x) == <<Raw1(x[1]), Raw1(x[2])>>
J2(P) == LET z == <<Rnd(7), Rnd(8)>>  z2 == F2Mul(z, z) IN <<Raw2(F2Mul(P[1], z2)), Raw2(F2Mul(P[2], F2Mul(z2, z))), Raw2(z)>>
Pi == RndR(1)
Pp == E2!ScalarMul(Pi, G2Gen)
DigitsOf(y) == <<ModN(y, XAbs), ModN(Div(y, XAbs), XAbs), ModN(Div(y, Mul(XAbs, XAbs)), XAbs), Div(y, Mul(XAbs, Mul(XAbs, XAbs)))>>
ToSeq(f) == [i \in 1..Len(f) |-> f[i]]
Stream(t) == LET d == DigitsOf(t) IN ToSeq(Pad(d[1], 8)) \o ToSeq(Pad(d[2], 8)) \o ToSeq(Pad(d[3], 8)) \o ToSeq(Pad(d[4], 8))
\* incl. master scalars whose top words are zero (a set bit just above a word boundary: 2^130 + 7 lies in [2^128, 2^192))
Masters == IF Tier = "quick" THEN { One, Sub(Pow2(256), One), RndR(2), Add(Pow2(130), FromNat(7)) }
           ELSE { One, Sub(RMod, One), RMod, Add(RMod, One), Sub(Pow2(256), One), RndR(2), Add(Pow2(64), FromNat(5)), Add(Pow2(130), FromNat(7)), Add(Pow2(192), FromNat(5)), Sub(Pow2(192), One) }
Hashes == IF Tier = "quick" THEN { Zero, Sub(Pow2(384), One), Rnd(3) } ELSE { Zero, One, Sub(QMod, One), QMod, Sub(Pow2(384), One), Pow2(381), Rnd(3), Rnd(4), FromNat(5) }
Lens == IF Tier = "quick" THEN {0, 32} ELSE {0, 1, 32, 1000}
Rhos == IF Tier = "quick" THEN { RndR(5) } ELSE { One, Sub(RMod, One), RndR(5) }
Cases == SetToSeq({ [op |-> "lq.run", p |-> J2(Pp), sp |-> J2(E2!ScalarMul(ModN(s, RMod), Pp)), s |-> Pad(s, 32), idhash |-> ToBE(h, 48), len |-> n,
                     t |-> Pad(rho, 32), stream |-> Stream(rho), src |-> "gen"] : s \in { x \in Masters : ~IsZero(ModN(x, RMod)) }, h \in Hashes, n \in Lens, rho \in Rhos })
ASSUME PrintT(<<"cases", Len(Cases)>>)
ASSUME ndJsonSerialize(IOEnv.OUT, Cases)
=============================================================================
