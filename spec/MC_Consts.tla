------------------------------ MODULE MC_Consts ------------------------------
(* Constants audit.  Every numeric constant the tree under test initialises with `.std_words = {...}`
   (extracted from the SOURCE TEXT by tools/extract_consts.py: moduli and Montgomery constants, the
   Frobenius coefficient tables of Fq2 / Fq6 / Fq12, the endomorphism and scalar-decomposition
   constants, the reciprocal used for the division-free rounding, the square-root exponents, the
   cofactors, the generators, e(G1, G2)) is checked by TLC, at full size, against the identity that
   DEFINES it in the specification (Params381 / Tower / Pairing) -- not against a copy of its digits.

   A value-level vector can only reveal a wrong table entry if it happens to index that entry; this
   audit reads every entry.  One line is printed per constant:
        <<"CONST-OK", name>>   <<"CONST-BAD", name, file>>   <<"CONST-DIAG", name, file>>   <<"CONST-UNAUDITED", name, file>>
   An identity is stated at the strength the property needs (see the GLV group): where any value of a
   constant leaves the results right (the rounding reciprocal) a failed identity is CONST-DIAG, a note.
   CONST-UNAUDITED (a constant the table below has no identity for) is reported by the check as a
   coverage note, never as a violation.  The rows come from the file named by the environment
   variable CONSTS. *)
EXTENDS Pairing, Json, IOUtils, TLC

Rows == ndJsonDeserialize(IOEnv.CONSTS)
V(r, i)  == FromLE(r.vals[i])
N1(r)    == r.n = 1
MontQ(v) == MulMod(v, FqR, QMod)
MontR(v) == MulMod(v, FrR, RMod)
ValQ(v)  == MulMod(v, ModInv(FqR, QMod), QMod)
ValR(v)  == MulMod(v, ModInv(FrR, RMod), RMod)
CanonQ(r) == \A i \in 1..r.n : Lt(V(r, i), QMod)
\* Fq2 entry k (0-based) of a table stored as consecutive (c0, c1) Montgomery pairs
F2At(r, k) == <<ValQ(V(r, 2 * k + 1)), ValQ(V(r, 2 * k + 2))>>
X2 == Mul(XAbs, XAbs)
X3 == Mul(X2, XAbs)
\* Theorem 4.2 of Granlund-Montgomery "Division by invariant integers using multiplication":
\* floor(n / d) = floor(m n / 2^(N+l)) for all 0 <= n < 2^N  provided  2^(N+l) <= m d <= 2^(N+l) + 2^l
Recip(m, d, N, l) == Le(Pow2(N + l), Mul(m, d)) /\ Le(Mul(m, d), Add(Pow2(N + l), Pow2(l)))
TwoAdicT == ShiftR(Sub(RMod, One), 32)               \* r - 1 = 2^32 t, t odd (MC_Params381)

RowOf(n) == Rows[CHOOSE i \in 1..Len(Rows) : Rows[i].name = n /\ \A j \in 1..(i - 1) : Rows[j].name # n]
LamC == Sub(RMod, V(RowOf("g1_v2_1"), 1))            \* the eigenvalue the decomposition code works with

Ident(r) ==
  LET nm == r.name IN
  CASE nm = "fq_modulus" -> N1(r) /\ V(r, 1) = QMod
    [] nm = "fq_R"    -> N1(r) /\ V(r, 1) = ModN(Pow2(384), QMod)
    [] nm = "fq_R2"   -> N1(r) /\ V(r, 1) = ModN(Pow2(768), QMod)
    [] nm = "fq_inv"  -> N1(r) /\ Lt(V(r, 1), Pow2(384)) /\ ModPow2(Add(Mul(V(r, 1), QMod), One), 384) = Zero
    [] nm = "fr_modulus" -> N1(r) /\ V(r, 1) = RMod
    [] nm = "fr_R"    -> N1(r) /\ V(r, 1) = ModN(Pow2(256), RMod)
    [] nm = "fr_R2"   -> N1(r) /\ V(r, 1) = ModN(Pow2(512), RMod)
    [] nm = "fr_inv"  -> N1(r) /\ Lt(V(r, 1), Pow2(256)) /\ ModPow2(Add(Mul(V(r, 1), RMod), One), 256) = Zero
    [] nm = "negative_one" -> N1(r) /\ V(r, 1) = MontQ(Sub(QMod, One))
    [] nm = "bls_x" -> N1(r) /\ V(r, 1) = XAbs
    [] nm = "bls_x_squared" -> N1(r) /\ V(r, 1) = X2
    [] nm = "bls_x_cubed" -> N1(r) /\ V(r, 1) = X3
    [] nm = "fq_qminusthreeoverfourplusone" -> N1(r) /\ V(r, 1) = Add(Div(Sub(QMod, FromNat(3)), FromNat(4)), One)
    [] nm = "fq2_qminusthreeoverfour" -> N1(r) /\ V(r, 1) = Div(Sub(QMod, FromNat(3)), FromNat(4))
    [] nm = "fq2_qminusoneovertwo" -> N1(r) /\ V(r, 1) = Div(Sub(QMod, One), Two)
    \* u^(q^k) = (-1)^((q^k - 1)/2) u
    [] nm = "fq2_frobenius_coeff" -> r.n = 2 /\ V(r, 1) = MontQ(One) /\ V(r, 2) = MontQ(Sub(QMod, One))
    \* v^(q^k) = xi^((q^k-1)/3) v,   (v^2)^(q^k) = xi^(2(q^k-1)/3) v^2,   w^(q^k) = xi^((q^k-1)/6) w
    [] nm = "fq6_frobenius_coeff_c1" -> r.n = 12 /\ CanonQ(r) /\ \A k \in 0..5 : F2At(r, k) = Gamma3(k)
    [] nm = "fq6_frobenius_coeff_c2" -> r.n = 12 /\ CanonQ(r) /\ \A k \in 0..5 : F2At(r, k) = F2Mul(Gamma3(k), Gamma3(k))
    [] nm = "fq12_frobenius_coeff_c1" -> r.n = 24 /\ CanonQ(r) /\ \A k \in 0..11 : F2At(r, k) = Gamma6(k)
    [] nm = "uplusonetotheqminusoneoversix" -> r.n = 2 /\ CanonQ(r) /\ F2At(r, 0) = Gamma6(1)
    \* GLV on G1.  decompose_lambda writes k = c0 + c1 L with c0 = k - b1 - b2 v2_1 and c1 = b1 v1_2 - b2 for its rounded b1, b2;
    \* that is a decomposition for EVERY b1, b2 exactly when  v1_2 L = 1  and  v2_1 + L = 0  (mod r), and [k]P = [c0]P + [c1]phi(P)
    \* exactly when phi = (x, y) |-> (beta x, y) acts on G1 as [L].  So the code's eigenvalue is L = r - v2_1; the three constants
    \* are judged jointly against it (not against one choice of digits: the other cube root with its own basis would also pass).
    \* g1_endomorphism_lambda itself is read by no code; it is audited, and reported only as a note (tools/extract_consts.py: uses).
    [] nm = "g1_endomorphism_lambda" -> N1(r) /\ V(r, 1) = LamC
    [] nm = "g1_v2_1" -> N1(r) /\ LET lam == Sub(RMod, V(r, 1)) IN Lt(V(r, 1), RMod) /\ AddMod(AddMod(MulMod(lam, lam, RMod), lam, RMod), One, RMod) = Zero
    [] nm = "g1_v1_2" -> N1(r) /\ MulMod(V(r, 1), LamC, RMod) = One
    [] nm = "g1_endomorphism_beta" -> N1(r) /\ CanonQ(r)
                                         /\ LET b == ValQ(V(r, 1)) IN
                                              /\ b # One /\ MulMod(MulMod(b, b, QMod), b, QMod) = One
                                              /\ E1!ScalarMul(LamC, G1Gen) = <<MulMod(b, G1GenX, QMod), G1GenY>>
    \* the reciprocal only steers the ROUNDING of b2; by the remark above any b2 below 2^128 yields a correct decomposition
    \* (c0, c1 are 256 bits wide), so a reciprocal off its identity costs speed, not correctness: NonGating below
    [] nm = "fr_p_value_reciprocal" -> N1(r) /\ Recip(V(r, 1), RMod, 384, 254)
    \* Tonelli-Shanks in Fr: r - 1 = 2^32 t; the root of unity generates the 2-Sylow subgroup
    [] nm = "fr_t_constant" -> N1(r) /\ V(r, 1) = TwoAdicT /\ Bit(TwoAdicT, 0) = 1
    [] nm = "fr_tplusoneovertwo" -> N1(r) /\ V(r, 1) = Div(Add(TwoAdicT, One), Two)
    [] nm = "fr_root_of_unity" -> N1(r) /\ Lt(V(r, 1), RMod)
                                     /\ ModExp(ValR(V(r, 1)), Pow2(31), RMod) = Sub(RMod, One)
    [] nm = "g1_b_coeff" -> N1(r) /\ V(r, 1) = MontQ(B1)
    [] nm = "cofactor" -> N1(r) /\ V(r, 1) = (IF r.type = "BigInt<128>" THEN H1 ELSE H2)
    [] nm = "generator" -> IF r.n = 2 THEN <<ValQ(V(r, 1)), ValQ(V(r, 2))>> = G1Gen /\ CanonQ(r)
                           ELSE r.n = 4 /\ CanonQ(r) /\ <<F2At(r, 0), F2At(r, 1)>> = G2Gen
    [] nm = "generator_pairing" -> r.n = 12 /\ CanonQ(r)
                                      /\ << <<F2At(r, 0), F2At(r, 1), F2At(r, 2)>>, <<F2At(r, 3), F2At(r, 4), F2At(r, 5)>> >> = GTGen
    [] nm = "zero" -> N1(r) /\ V(r, 1) = Zero
    [] nm = "one" -> N1(r) /\ V(r, 1) = One
    [] OTHER -> TRUE
Audited == {"fq_modulus", "fq_R", "fq_R2", "fq_inv", "fr_modulus", "fr_R", "fr_R2", "fr_inv", "negative_one", "bls_x", "bls_x_squared",
            "bls_x_cubed", "fq_qminusthreeoverfourplusone", "fq2_qminusthreeoverfour", "fq2_qminusoneovertwo", "fq2_frobenius_coeff",
            "fq6_frobenius_coeff_c1", "fq6_frobenius_coeff_c2", "fq12_frobenius_coeff_c1", "uplusonetotheqminusoneoversix",
            "g1_endomorphism_lambda", "g1_endomorphism_beta", "g1_v1_2", "g1_v2_1", "fr_p_value_reciprocal", "fr_t_constant",
            "fr_tplusoneovertwo", "fr_root_of_unity", "g1_b_coeff", "cofactor", "generator", "generator_pairing", "zero", "one"}
NonGating == {"fr_p_value_reciprocal"}
\* constants the code cannot work without: their absence from the extraction is a fault of the audit, reported
Expected == Audited

VARIABLES l, st
Init == l \in 1..Len(Rows) /\ st = "todo"
Next == /\ st = "todo"
        /\ LET r == Rows[l] IN
             IF r.name \notin Audited THEN PrintT(<<"CONST-UNAUDITED", r.name, r.file>>)
             ELSE IF Ident(r) THEN PrintT(<<"CONST-OK", r.name>>)
             ELSE IF r.name \in NonGating THEN PrintT(<<"CONST-DIAG", r.name, r.file>>) ELSE PrintT(<<"CONST-BAD", r.name, r.file>>)
        /\ st' = "done" /\ UNCHANGED l
ASSUME PrintT(<<"CONST-MISSING", Expected \ { Rows[i].name : i \in 1..Len(Rows) }>>)
=============================================================================
