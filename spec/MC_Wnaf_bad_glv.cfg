CONSTANTS Mode = "glv"
 Bits = 0
 Win = 4
 X = 4
 Variant = "glv-min-size"
INIT Init
NEXT Next
INVARIANTS Correct TableInBounds BuffersInBounds
CHECK_DEADLOCK FALSE
