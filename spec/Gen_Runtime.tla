----------------------------- MODULE Gen_Runtime -----------------------------
(* Behaviours of Runtime.tla as schedules for the implementation (G->I): the battery (which thread
   makes which calls, and how many segments each call has - measured on the sequential run) comes
   from env RTCFG; a history variable records the order in which threads ran their segments and
   every complete behaviour is printed.  Breadth-first TLC enumerates every interleaving (each
   history is a distinct state); with -simulate it samples them. *)
EXTENDS Naturals, Sequences, FiniteSets, TLC, Json, IOUtils
Cfg == ndJsonDeserialize(IOEnv.RTCFG)[1]
GThreads == 1..Len(Cfg.calls)
GCalls == [t \in GThreads |-> Cfg.calls[t]]
GSegs == [t \in GThreads |-> Cfg.segs[t]]
VARIABLES loaded, dispatch, lib, pc, acc, result, sched
R == INSTANCE Runtime WITH Threads <- GThreads, Calls <- GCalls, Segs <- GSegs, Variant <- "faithful", Cpu <- "bmi2"
GInit == R!Init /\ sched = <<>>
GNext == \/ (R!Load /\ UNCHANGED sched)
         \/ \E t \in GThreads : R!Segment(t) /\ sched' = Append(sched, t)
GSpec == GInit /\ [][GNext]_<<loaded, dispatch, lib, pc, acc, result, sched>>
\* printed once per complete behaviour
Emit == R!AllDone => PrintT(<<"SCHED", sched>>)
\* the faithful library satisfies the properties on every behaviour generated
Ok == R!DispatchConsistent /\ R!LibStateConstant /\ R!ResultIsFunctionOfArgs
=============================================================================
