------------------------------ MODULE Trace_A64 ------------------------------
(* C03, AArch64 configuration: every line is one C03 vector (the raw-primitive cases of Gen_Field);
   TLC executes the assembled AArch64 routine of the tree under test (IsaA64 over the listing in env
   A64LIST) on it and compares the final memory and return register with integer arithmetic - the
   same definitions Trace_Field applies to the x86-64 and portable back ends.  Also checked: the
   routine returns, touches memory only inside its operands and its own stack frame, restores the
   callee-saved registers x19..x28 and the stack pointer (AAPCS64). *)
EXTENDS TraceBase, IsaA64
VARIABLES l, st
Listing == ndJsonDeserialize(IOEnv.A64LIST)
InsIdx(unit) == { i \in 1..Len(Listing) : "mn" \in DOMAIN Listing[i] /\ Listing[i].file = unit }
Prog(unit) == [a \in { Listing[i].addr : i \in InsIdx(unit) } |-> Listing[CHOOSE i \in InsIdx(unit) : Listing[i].addr = a]]
ProgBig == Prog("bigint")
ProgMul == Prog("multiply")
Entry(name) == LET S == { i \in 1..Len(Listing) : "sym" \in DOMAIN Listing[i] /\ Listing[i].sym = name } IN Listing[CHOOSE i \in S : TRUE].addr
HasSym(name) == \E i \in 1..Len(Listing) : "sym" \in DOMAIN Listing[i] /\ Listing[i].sym = name

RES == 4096   AOP == 8192   BOP == 12288   POP == 16384   STKLO == 28672   STKHI == 32768
W384 == Pow2(384)
Pre == "embedded_pairing_core_arch_aarch64_"
\* (routine, unit, words of each region: res, a, b, p)
Routine(op) == CASE op = "raw.add" -> <<Pre \o "bigint_384_add", "bigint">> [] op = "raw.sub" -> <<Pre \o "bigint_384_subtract", "bigint">>
                 [] op = "raw.shl1" -> <<Pre \o "bigint_384_multiply2", "bigint">> [] op = "raw.mul" -> <<Pre \o "bigint_768_multiply", "multiply">>
                 [] op = "raw.sqr" -> <<Pre \o "bigint_768_square", "multiply">> [] op = "raw.redc" -> <<Pre \o "fpbase_384_montgomery_reduce", "multiply">>
                 [] op = "raw.fpmul" -> <<Pre \o "fpbase_384_multiply", "multiply">> [] op = "raw.fpsqr" -> <<Pre \o "fpbase_384_square", "multiply">>
                 [] OTHER -> <<"", "">>
Callee == 19..28
Junk(r) == FromNat(1000003 * r + 17)          \* recognisable initial register contents

Machine(ev) ==
  LET o == ev.op
      al == IF Has(ev, "alias") THEN ev.alias ELSE 0
      a == IF Has(ev, "a") THEN Norm(ev.a) ELSE Zero
      b == IF Has(ev, "b") THEN Norm(ev.b) ELSE Zero
      p == IF Has(ev, "p") THEN Norm(ev.p) ELSE Zero
      wide == IF Has(ev, "w") THEN Norm(ev.w) ELSE Zero
      inv0 == IF Has(ev, "inv") THEN ModPow2(Norm(ev.inv), 64) ELSE Zero
      \* the 768-bit input of the reduction lives in the A region (12 words); everything else is 6 words
      aw == IF o = "raw.redc" THEN 12 ELSE 6
      aval == IF o = "raw.redc" THEN wide ELSE a
      resw == IF o \in {"raw.mul", "raw.sqr"} THEN 12 ELSE 6
      resBase == IF al = 1 /\ o \notin {"raw.mul", "raw.sqr", "raw.redc"} THEN AOP ELSE IF al = 2 THEN BOP ELSE RES
      bval == IF al = 3 THEN a ELSE b
      mem0 == [ad \in Region(RES, 12) \cup Region(AOP, 12) \cup Region(BOP, 6) \cup Region(POP, 6) \cup Region(STKLO, 512) |->
                 IF ad \in Region(AOP, aw) THEN Words(aval, aw)[(ad - AOP) \div 8]
                 ELSE IF ad \in Region(BOP, 6) THEN Words(bval, 6)[(ad - BOP) \div 8]
                 ELSE IF ad \in Region(POP, 6) THEN Words(p, 6)[(ad - POP) \div 8]
                 ELSE FromNat(165)]
      bptr == IF al = 3 THEN AOP ELSE BOP
      \* argument registers per routine signature
      x0 == [r \in (0..30) \cup {SP} |-> IF r = SP THEN FromNat(STKHI) ELSE Junk(r)]
      args == CASE o \in {"raw.add", "raw.sub", "raw.mul"} -> <<resBase, AOP, bptr>>
                [] o \in {"raw.shl1", "raw.sqr"} -> <<resBase, AOP>>
                [] o = "raw.redc" -> <<resBase, AOP, POP>>
                [] o = "raw.fpmul" -> <<resBase, AOP, bptr, POP>>
                [] OTHER -> <<resBase, AOP, POP>>           \* raw.fpsqr
      x1 == [r \in DOMAIN x0 |-> IF r < Len(args) THEN FromNat(args[r + 1])
                                ELSE IF (o = "raw.redc" /\ r = 3) \/ (o = "raw.fpmul" /\ r = 4) \/ (o = "raw.fpsqr" /\ r = 3) THEN inv0 ELSE x0[r]]
      rt == Routine(o)
  IN [init |-> [x |-> x1, c |-> 0, z |-> 0, mem |-> mem0, pc |-> Entry(rt[1]), halted |-> FALSE, fault |-> "", written |-> {}, steps |-> 0],
      prog |-> IF rt[2] = "bigint" THEN ProgBig ELSE ProgMul, res |-> resBase, resw |-> resw, a |-> a, b |-> bval, p |-> p, wide |-> wide, x1 |-> x1, aw |-> aw]

Checks(ev) ==
  LET o == ev.op IN
  IF Routine(o)[1] = "" THEN << <<"unknown-op", FALSE>> >>
  ELSE IF ~HasSym(Routine(o)[1]) THEN << <<"routine-present", FALSE>> >>
  ELSE
  LET m == Machine(ev)
      fin == Run(m.init, m.prog, 6000)
      r == IF fin.fault = "" THEN ReadValue(fin.mem, m.res, m.resw) ELSE Zero
      ret == fin.x[0]
      a == m.a  b == m.b  p == m.p
      pinv == IF o \in {"raw.redc", "raw.fpmul", "raw.fpsqr"} THEN ModInv(ModN(W384, p), p) ELSE Zero
      value ==
        CASE o = "raw.add" -> r = ModN(Add(a, b), W384) /\ ret = (IF Lt(Add(a, b), W384) THEN Zero ELSE One)
          [] o = "raw.sub" -> r = ModN(Sub(Add(a, W384), b), W384) /\ ret = (IF Lt(a, b) THEN One ELSE Zero)
          [] o = "raw.shl1" -> r = ModN(Add(a, a), W384) /\ ~IsZero(ret) = (Bit(a, 383) = 1)
          [] o = "raw.mul" -> r = Mul(a, b)
          [] o = "raw.sqr" -> r = Mul(a, a)
          [] o = "raw.redc" -> r = MulMod(m.wide, pinv, p)
          [] o = "raw.fpmul" -> r = MulMod(MulMod(a, b, p), pinv, p)
          [] OTHER -> r = MulMod(MulMod(a, a, p), pinv, p)
      pre == CASE o = "raw.redc" -> Lt(m.wide, Mul(p, W384)) /\ ModN(Mul(p, Norm(ev.inv)), W384) = Sub(W384, One)
               [] o \in {"raw.fpmul", "raw.fpsqr"} -> Lt(a, p) /\ Lt(b, p) /\ ModN(Mul(p, Norm(ev.inv)), W384) = Sub(W384, One)
               [] OTHER -> TRUE
      \* the routine may write its result, (for the reduction) its clobbered wide input, and its stack frame
      allowed == Region(m.res, m.resw) \cup Region(STKLO, 512) \cup (IF o = "raw.redc" THEN Region(AOP, 12) ELSE {})
  IN << <<"pre.domain", pre>>,
        <<"terminates-without-fault", fin.fault = "">>,
        <<"value", fin.fault # "" \/ value>>,
        <<"writes-inside-result-and-frame", fin.written \subseteq allowed>>,
        <<"callee-saved-restored", \A k \in Callee : fin.x[k] = m.x1[k]>>,
        <<"stack-pointer-restored", fin.x[SP] = FromNat(STKHI)>> >>

Fails(ev) == FailsOf(Checks(ev))
Init == l \in 1..NLines /\ st = "todo"
Next == /\ st = "todo"
        /\ LET f == Fails(Tr[l]) IN
             /\ st' = "done"
             /\ IF f = {} THEN TRUE ELSE PrintT(<<"FAIL", l, f>>)
        /\ UNCHANGED l
=============================================================================
