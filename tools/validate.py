#!/usr/bin/env python3
"""developer aid: validate MANIFEST.json and every evidence file against the schemas (run with python3-vt)"""
import json, glob, sys, jsonschema
ok = True
jsonschema.validate(json.load(open('/verif/MANIFEST.json')), json.load(open('/root/.vp/MANIFEST.schema.json')))
es = json.load(open('/root/.vp/EVIDENCE.schema.json'))
for f in sorted(glob.glob('/verif/evidence/*.json')):
    try: jsonschema.validate(json.load(open(f)), es)
    except Exception as e: ok = False; print("INVALID", f, str(e)[:300])
print("ok" if ok else "FAILED"); sys.exit(0 if ok else 1)
