#!/usr/bin/env python3
"""Collects the seeded changes produced by the independent sub-agents (scratch worktrees /tmp/seed-<prop>/_seed/<id>/)
into /verif/seeded/<id>/: patch.diff, the demonstration, the agent's notes, and meta.json (property, what the change
needs in order to manifest, what was run to confirm it, which registered checks report it)."""
import os, re, json, glob, shutil, subprocess

V = "/verif"
NEEDS = {}
def first_para(notes, header_words):
    for line in notes.splitlines():
        l = line.strip()
        if any(w in l.lower() for w in header_words) and len(l) > 40: return re.sub(r"^[#*\- ]+", "", l)[:600]
    return ""

def main():
    out = os.path.join(V, "seeded"); os.makedirs(out, exist_ok=True)
    head = subprocess.check_output(["git", "-C", "/repo", "rev-parse", "--short", "HEAD"]).decode().strip()
    index = []
    for d in sorted(glob.glob("/tmp/seed-C*/_seed/C*-*")):
        sid = os.path.basename(d); prop = sid.split("-")[0]
        dst = os.path.join(out, sid)
        if not os.path.exists(os.path.join(d, "confirm.txt")) and os.path.exists(os.path.join(dst, "meta.json")):
            m = json.load(open(os.path.join(dst, "meta.json")))      # collected earlier; the scratch records were removed since
            index.append((sid, prop, m["confirmed_in_scratch_worktree"]["result"], m["detected_by"], m["files_touched"])); continue
        os.makedirs(dst, exist_ok=True)
        for f in os.listdir(d):
            if f.endswith((".diff", ".cpp", ".c", ".md")): shutil.copy(os.path.join(d, f), os.path.join(dst, f))
        notes = open(os.path.join(d, "notes.md")).read() if os.path.exists(os.path.join(d, "notes.md")) else ""
        conf = open(os.path.join(d, "confirm.txt")).read() if os.path.exists(os.path.join(d, "confirm.txt")) else ""
        ev = open(os.path.join(d, "eval.txt")).read() if os.path.exists(os.path.join(d, "eval.txt")) else ""
        applies = subprocess.run(["git", "-C", "/repo", "apply", "--check", os.path.join(dst, "patch.diff")]).returncode == 0
        files = re.findall(r"^diff --git a/(\S+)", open(os.path.join(dst, "patch.diff")).read(), flags=re.M)
        det = []
        for line in ev.splitlines():
            m = re.match(r"(C\d+) (quick|thorough) rc=(\d+) (\d+)s (\d*) ?violation line\(s\):\s*(.*)", line)
            if m: det.append({"check": m.group(1), "tier": m.group(2), "exit": int(m.group(3)), "seconds": int(m.group(4)),
                              "violation_lines": int(m.group(5) or 0), "first_keys": m.group(6).strip()[:400]})
        meta = {"id": sid, "breaks_property": prop, "files_touched": files,
                "needs_to_manifest": first_para(notes, ("trigger", "needs", "manifest", "only when", "shows")),
                "author": "independent sub-agent given only the property text and a scratch worktree",
                "confirmed_in_scratch_worktree": {
                    "patch_applies_to_repo_head": applies, "repo_head": head,
                    "suite_with_patch": (re.search(r"suite with patch: (.*)", conf) or [None, ""])[1],
                    "demo_with_patch": (re.search(r"demo with patch: (rc=\d+)", conf) or [None, ""])[1],
                    "demo_without_patch": (re.search(r"demo without patch: (rc=\d+)", conf) or [None, ""])[1],
                    "demo_library_flags": (re.search(r"demo library flags: (.*)", conf) or [None, "default"])[1],
                    "result": (re.search(r"RESULT (\S+)", conf) or [None, "?"])[1],
                    "how": "tools/seed_confirm.sh <worktree> <seed dir>: git apply; make; make -C tests; ./tests/test; build and run the demo; git checkout; rebuild; run the demo"},
                "checks_run_against_it": det,
                "how_checks_were_run": "tools/seed_eval.sh: patch applied in the scratch worktree, `VERIF_REPO=<worktree> bin/check <id> quick` with private build/evidence directories (equivalent to git -C /repo apply; bin/check; git -C /repo checkout -- .)",
                "detected_by": sorted(set(x["check"] for x in det if x["exit"] == 1))}
        json.dump(meta, open(os.path.join(dst, "meta.json"), "w"), indent=1)
        index.append((sid, prop, meta["confirmed_in_scratch_worktree"]["result"], meta["detected_by"], files))
    with open(os.path.join(out, "INDEX.md"), "w") as f:
        f.write("| seed | property | confirmed | detected by (quick tier) | files |\n|---|---|---|---|---|\n")
        for sid, prop, res, det, files in index:
            f.write("| %s | %s | %s | %s | %s |\n" % (sid, prop, res, ", ".join(det) or "**none**", ", ".join(files)))
    print(len(index), "seeds collected;", sum(1 for x in index if not x[3]), "undetected")

if __name__ == "__main__":
    main()
