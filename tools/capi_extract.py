#!/usr/bin/env python3
"""C19 tooling.  From the tree under test (VERIF_REPO):
  * parses the C headers: every typedef'd struct with its members (types, array lengths, nested
    anonymous structs), every `extern const` object, every function declaration;
  * parses the wrapper translation units: which C++ type each C struct pointer is reinterpret_cast
    to (per parameter) and which C++ object each exported constant points to;
  * writes  decls.ndjson   (input of spec/CApi.tla: struct declarations, cast pairs, constants, functions)
            layout_c.c     (C11 program printing sizeof/_Alignof/offsetof of every declared struct/member)
            layout_cpp_<unit>.cpp (C++ programs printing the same for the C++ type each struct is cast to,
                                   member by member by NAME; a member the C++ type lacks prints "missing")
usage: capi_extract.py <outdir>"""
import re, os, sys, json, glob

REPO = os.environ.get("VERIF_REPO", "/repo")
HEADERS = ["core/core.h", "bls12_381/bls12_381.h", "wkdibe/wkdibe.h", "lqibe/lqibe.h"]
UNITS = {"bls12_381": "src/bls12_381/bls12_381.cpp", "wkdibe": "src/wkdibe/wkdibe.cpp", "lqibe": "src/lqibe/lqibe.cpp"}

def strip_comments(s):
    s = re.sub(r"/\*.*?\*/", " ", s, flags=re.S)
    return re.sub(r"//[^\n]*", " ", s)

def parse_members(body):
    """members of a struct body (nested anonymous struct arrays supported one level deep)"""
    mem = []
    i = 0
    body = body.strip()
    while body:
        m = re.match(r"\s*struct\s*\{(.*?)\}\s*(\w+)\s*(?:\[\s*(\w+)\s*\])?\s*;", body, flags=re.S)
        if m:
            mem.append({"name": m.group(2), "type": "<anon>", "ptr": 0, "count": m.group(3) or "", "sub": parse_members(m.group(1))})
            body = body[m.end():]; continue
        m = re.match(r"\s*([^;{}]+?)\s*;", body, flags=re.S)
        if not m: break
        decl = m.group(1); body = body[m.end():]
        mm = re.match(r"^(?P<type>.*?)(?P<ptr>\*?)\s*(?P<name>\w+)\s*(?:\[(?P<cnt>[^\]]+)\])?$", decl.strip(), flags=re.S)
        if not mm: mem.append({"name": "?", "type": decl.strip(), "ptr": 0, "count": "", "sub": []}); continue
        ty = re.sub(r"\s+", " ", mm.group("type")).strip()
        ptr = 1 if (mm.group("ptr") or ty.endswith("*")) else 0
        ty = ty.rstrip("*").strip()
        mem.append({"name": mm.group("name"), "type": ty, "ptr": ptr, "count": (mm.group("cnt") or "").strip(), "sub": []})
    return mem

def parse_header(path):
    src = strip_comments(open(path, errors="replace").read())
    structs, aliases, consts, funcs = [], [], [], []
    for m in re.finditer(r"typedef\s+struct\s*\{(.*?)\}\s*(\w+)\s*;", src, flags=re.S):
        # innermost-first regex can mis-nest: re-balance braces manually
        pass
    # brace-balanced scan for `typedef struct { ... } name;`
    for m in re.finditer(r"typedef\s+struct\s*\{", src):
        depth, j = 1, m.end()
        while depth and j < len(src):
            if src[j] == "{": depth += 1
            elif src[j] == "}": depth -= 1
            j += 1
        body = src[m.end():j - 1]
        mn = re.match(r"\s*(\w+)\s*;", src[j:])
        if mn: structs.append({"name": mn.group(1), "members": parse_members(body)})
    for m in re.finditer(r"typedef\s+(?!struct)([\w ]+?)\s+(\w+)\s*;", src):
        aliases.append({"name": m.group(2), "target": re.sub(r"\s+", " ", m.group(1)).strip()})
    for m in re.finditer(r"extern\s+const\s+([\w ]+?)\s*(\*?)\s*(\w+)\s*;", src):
        consts.append({"name": m.group(3), "type": m.group(1).strip(), "ptr": 1 if m.group(2) else 0})
    for m in re.finditer(r"^\s*([\w ]+?[\w\*])\s+(embedded_pairing_\w+)\s*\(([^;{]*)\)\s*;", src, flags=re.M):
        funcs.append({"name": m.group(2), "ret": m.group(1).strip(), "params": re.sub(r"\s+", " ", m.group(3)).strip()})
    return structs, aliases, consts, funcs

def parse_unit(path):
    """(C type -> set of C++ types it is cast to), (constant -> C++ expression), using-directives, includes"""
    raw = open(path, errors="replace").read()
    src = strip_comments(raw)
    casts, consts = {}, {}
    # function definitions: header up to '{', then the balanced body
    for m in re.finditer(r"(embedded_pairing_\w+)\s*\(([^)]*)\)\s*\{", src):
        params = {}
        for p in m.group(2).split(","):
            pm = re.match(r"\s*(?:const\s+)?([\w ]+?)\s*\*\s*(\w+)\s*$", p.strip())
            if pm: params[pm.group(2)] = pm.group(1).replace("const ", "").strip()
        depth, j = 1, m.end()
        while depth and j < len(src):
            if src[j] == "{": depth += 1
            elif src[j] == "}": depth -= 1
            j += 1
        body = src[m.end():j]
        for c in re.finditer(r"reinterpret_cast<\s*(?:const\s+)?([^*>]+(?:<[^>]*>)?)\s*\*\s*>\s*\(\s*(\w+)\s*\)", body):
            cpp, var = c.group(1).strip(), c.group(2)
            if var in params and params[var].startswith("embedded_pairing_"):
                casts.setdefault(params[var], set()).add(cpp)
    for m in re.finditer(r"const\s+(embedded_pairing_\w+)\s*\*\s*(embedded_pairing_\w+)\s*=\s*\(\s*const\s+\w+\s*\*\s*\)\s*&\s*([\w:<>, ]+?)\s*;", src):
        consts[m.group(2)] = {"ctype": m.group(1), "cpp": m.group(3).strip(), "ptr": 1}
        casts.setdefault(m.group(1), set()).add("decltype(%s)" % m.group(3).strip())
    for m in re.finditer(r"const\s+size_t\s+(embedded_pairing_\w+)\s*=\s*([^;]+);", src):
        consts[m.group(1)] = {"ctype": "size_t", "cpp": m.group(2).strip(), "ptr": 0}
    includes = re.findall(r'^\s*#include\s+"([^"]+)"', raw, flags=re.M)
    usings = re.findall(r"^\s*using\s+namespace\s+([\w:]+)\s*;", raw, flags=re.M)
    return casts, consts, includes, usings

def paths_of(members, prefix=""):
    """probe paths: (path expression, is_array, has_sub)"""
    out = []
    for m in members:
        p = prefix + m["name"]
        out.append((p, bool(m["count"])))
        if m["count"]:
            out.append((p + "[1]", False))      # element stride
        if m["sub"]:
            out += paths_of(m["sub"], p + "[0]." if m["count"] else p + ".")
    return out

def cpp_name(path):
    """C members that mirror private C++ members carry a leading underscore"""
    return re.sub(r"(^|\.)_(\w)", r"\1\2", path)

def main():
    outdir = sys.argv[1]
    os.makedirs(outdir, exist_ok=True)
    rows = []
    all_structs, all_aliases = [], []
    for h in HEADERS:
        st, al, co, fu = parse_header(os.path.join(REPO, "include", h))
        for s in st: rows.append({"kind": "struct", "header": h, "name": s["name"], "members": s["members"]}); all_structs.append(s)
        for a in al: rows.append({"kind": "alias", "header": h, "name": a["name"], "target": a["target"]}); all_aliases.append(a)
        for c in co: rows.append({"kind": "const", "header": h, "name": c["name"], "type": c["type"], "ptr": c["ptr"]})
        for f in fu: rows.append({"kind": "func", "header": h, "name": f["name"], "ret": f["ret"], "params": f["params"]})
    alias = {a["name"]: a["target"] for a in all_aliases}
    def resolve(t):
        seen = 0
        while t in alias and seen < 10: t = alias[t]; seen += 1
        return t
    struct_by_name = {s["name"]: s for s in all_structs}
    units = {}
    for u, path in UNITS.items():
        casts, consts, includes, usings = parse_unit(os.path.join(REPO, path))
        units[u] = (casts, consts, includes, usings)
        for ct, cpps in sorted(casts.items()):
            rows.append({"kind": "cast", "unit": u, "ctype": ct, "cstruct": resolve(ct), "cpp": sorted(cpps)})
        for n, c in sorted(consts.items()):
            rows.append({"kind": "constdef", "unit": u, "name": n, "ctype": c["ctype"], "cpp": c["cpp"], "ptr": c["ptr"]})
    with open(os.path.join(outdir, "decls.ndjson"), "w") as f:
        for r in rows: f.write(json.dumps(r, separators=(",", ":")) + "\n")
    # ---- C program -------------------------------------------------------------------------------------------
    c = ['#include <stdio.h>', '#include <stddef.h>'] + ['#include "%s"' % h for h in HEADERS] + ['int main(void) {']
    for s in all_structs:
        n = s["name"]
        c.append('  printf("{\\"side\\":\\"c\\",\\"type\\":\\"%s\\",\\"size\\":%%zu,\\"align\\":%%zu,\\"members\\":[", sizeof(%s), _Alignof(%s));' % (n, n, n))
        first = True
        for p, arr in paths_of(s["members"]):
            c.append('  printf("%s{\\"path\\":\\"%s\\",\\"off\\":%%zu,\\"size\\":%%zu}", offsetof(%s, %s), sizeof(((%s*)0)->%s));' % ("" if first else ",", p, n, p, n, p))
            first = False
        c.append('  printf("]}\\n");')
    c += ['  printf("{\\"side\\":\\"c\\",\\"type\\":\\"<prim>\\",\\"ptr\\":%zu,\\"size_t\\":%zu,\\"int\\":%zu,\\"bool\\":%zu,\\"dword\\":%zu,\\"dword_align\\":%zu,\\"word\\":%zu}\\n", sizeof(void*), sizeof(size_t), sizeof(int), sizeof(bool), sizeof(embedded_pairing_core_bigint_dword_t), _Alignof(embedded_pairing_core_bigint_dword_t), sizeof(embedded_pairing_core_bigint_word_t));',
          '  return 0; }']
    open(os.path.join(outdir, "layout_c.c"), "w").write("\n".join(c) + "\n")
    # ---- C++ programs, one per wrapper unit (same includes and using-directives as the wrapper) ---------------
    # pairs: the cast pairs found in the wrappers, closed under members: a struct-typed member (or the element type
    # of a pointer member) of a paired C struct is paired with the type of the same-named C++ member.
    for u, (casts, consts, includes, usings) in units.items():
        cc = ['#include <stdio.h>', '#include <stddef.h>', '#include <type_traits>'] + ['#include "%s"' % i for i in includes]
        cc += ['using namespace %s;' % x for x in usings]
        cc += ['template <typename T> using rm = std::remove_cv_t<std::remove_pointer_t<std::remove_all_extents_t<std::remove_cv_t<std::remove_reference_t<T>>>>>;']
        fns, calls = [], []
        done = set()
        def emit(ct, cppexpr, origin):
            st = struct_by_name.get(resolve(ct))
            key = (resolve(ct), cppexpr)
            if key in done: return
            done.add(key)
            k = len(fns) + 1
            body = ['template <typename T> static void p%d() {' % k]
            body.append('  printf("{\\"side\\":\\"cpp\\",\\"unit\\":\\"%s\\",\\"ctype\\":\\"%s\\",\\"type\\":\\"%s\\",\\"cpp\\":\\"%s\\",\\"origin\\":\\"%s\\",\\"size\\":%%zu,\\"align\\":%%zu,\\"members\\":[", sizeof(T), alignof(T));'
                        % (u, ct, resolve(ct), cppexpr.replace('"', '').replace('\\', ''), origin))
            first = True
            sub = []
            if st:
                for pth, arr in paths_of(st["members"]):
                    q = cpp_name(pth)
                    sep = "" if first else ","
                    first = False
                    body.append('  if constexpr (requires(T* o) { o->%s; }) printf("%s{\\"path\\":\\"%s\\",\\"off\\":%%zu,\\"size\\":%%zu}", (size_t) __builtin_offsetof(T, %s), sizeof(((T*)0)->%s));' % (q, sep, pth, q, q))
                    body.append('  else printf("%s{\\"path\\":\\"%s\\",\\"missing\\":1}");' % (sep, pth))
                for m in st["members"]:
                    mt = resolve(m["type"])
                    if mt in struct_by_name:
                        sub.append((m["type"], cpp_name(m["name"])))
            body.append('  printf("]}\\n");')
            for (mct, mname) in sub:
                # recurse through the C++ member's own type (only if the member exists)
                body.append('  if constexpr (requires(T* o) { o->%s; }) q_%s_%s<T>();' % (mname, re.sub(r"\W", "_", resolve(mct)), mname))
            body.append('}')
            fns.append((k, body, sub, ct))
            return k
        # first pass to create functions for direct pairs; member recursion handled by helper templates generated below
        helper_decl, helper_def = [], []
        pending = []
        for ct, cpps in sorted(casts.items()):
            for cpp in sorted(cpps):
                k = emit(ct, cpp, "cast")
                if k: calls.append('  p%d<rm<%s>>();' % (k, cpp))
        # helper templates q_<ctype>_<member><Parent>() : pair the member's C type with decltype(Parent::member)
        made = set()
        i = 0
        while i < len(fns):
            k, body, sub, ct = fns[i]; i += 1
            for (mct, mname) in sub:
                hn = 'q_%s_%s' % (re.sub(r"\W", "_", resolve(mct)), mname)
                if hn in made: continue
                made.add(hn)
                kk = emit(mct, "member " + mname, "member")
                if kk is None:
                    # already emitted for another expression: find it
                    kk = [f[0] for f in fns if resolve(f[3]) == resolve(mct)][0]
                helper_decl.append('template <typename P> static void %s();' % hn)
                helper_def.append('template <typename P> static void %s() { p%d<rm<decltype(((P*)0)->%s)>>(); }' % (hn, kk, mname))
        cc += helper_decl
        for k, body, sub, ct in fns: cc += body
        cc += helper_def
        cc += ['int main() {'] + calls + ['  return 0; }']
        open(os.path.join(outdir, "layout_cpp_%s.cpp" % u), "w").write("\n".join(cc) + "\n")
    # ---- constants: read through the C declarations (C11) and through the C++ objects they mirror ------------------
    cconsts = [r for r in rows if r["kind"] == "const"]
    c = ['#include <stdio.h>', '#include <stddef.h>'] + ['#include "%s"' % h for h in HEADERS]
    c += ['static void dump(const char* name, const void* p, size_t n) { const unsigned char* b = (const unsigned char*) p; printf("{\\"side\\":\\"c\\",\\"name\\":\\"%s\\",\\"bytes\\":[", name); for (size_t i = 0; i < n; i++) printf("%s%u", i ? "," : "", b[i]); printf("]}\\n"); }',
          'int main(void) {']
    for k in cconsts:
        if k["ptr"]: c.append('  dump("%s", %s, sizeof(*%s));' % (k["name"], k["name"], k["name"]))
        else: c.append('  printf("{\\"side\\":\\"c\\",\\"name\\":\\"%s\\",\\"bytes\\":[%%zu]}\\n", (size_t) %s);' % (k["name"], k["name"]))
    c += ['  return 0; }']
    open(os.path.join(outdir, "consts_c.c"), "w").write("\n".join(c) + "\n")
    for u, (casts, consts, includes, usings) in units.items():
        if not consts: continue
        cc = ['#include <stdio.h>', '#include <stddef.h>'] + ['#include "%s"' % i for i in includes] + ['using namespace %s;' % x for x in usings]
        cc += ['static void dump(const char* name, const void* p, size_t n) { const unsigned char* b = (const unsigned char*) p; printf("{\\"side\\":\\"cpp\\",\\"name\\":\\"%s\\",\\"bytes\\":[", name); for (size_t i = 0; i < n; i++) printf("%s%u", i ? "," : "", b[i]); printf("]}\\n"); }',
               'int main() {']
        for n, k in sorted(consts.items()):
            if k["ptr"]: cc.append('  dump("%s", &(%s), sizeof(%s));' % (n, k["cpp"], k["cpp"]))
            else: cc.append('  printf("{\\"side\\":\\"cpp\\",\\"name\\":\\"%s\\",\\"bytes\\":[%%zu]}\\n", (size_t) (%s));' % (n, k["cpp"]))
        cc += ['  return 0; }']
        open(os.path.join(outdir, "consts_cpp_%s.cpp" % u), "w").write("\n".join(cc) + "\n")
    return 0

if __name__ == "__main__":
    sys.exit(main())
