#!/bin/bash
# confirm both seeds of a property's worktree sequentially
for id in "$@"; do
  for k in 1 2; do
    sd=/tmp/seed-$id/_seed/$id-$k
    [ -d "$sd" ] && /verif/tools/seed_confirm.sh /tmp/seed-$id $sd
  done
done
