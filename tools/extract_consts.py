#!/usr/bin/env python3
"""Extracts every numeric constant the library's sources initialise with `.std_words = {...}` (moduli, Montgomery
constants, Frobenius coefficient tables, endomorphism / decomposition constants, generators, cofactors, ...) from
the SOURCE TEXT of the tree under test: {"file", "name", "type", "groups": [[32-bit words, little-endian], ...]}.
spec/MC_Consts.tla checks each against its defining identity.  usage: extract_consts.py <out.ndjson>"""
import os, re, sys, json, glob
REPO = os.environ.get("VERIF_REPO", "/repo")
def strip_comments(s):
    s = re.sub(r"/\*.*?\*/", " ", s, flags=re.S)
    return re.sub(r"//[^\n]*", " ", s)
DECL = re.compile(r"(?:static\s+|extern\s+)?(?:constexpr|const)\s+([\w<>:, ]+?)\s+([\w:<>]+)\s*(\[[^\]]*\])?\s*=\s*\{")
# namespace-scope objects that are not declared const (g1_endomorphism_lambda)
DECL2 = re.compile(r"(?<=[;{}\n])\s*((?:BigInt<\w+>|Fq(?:2|6|12)?|Fr))\s+(\w+)\s*(\[[^\]]*\])?\s*=\s*\{")
def main():
    out = sys.argv[1]
    rows = []; texts = {}
    files = sorted(glob.glob(os.path.join(REPO, "src", "**", "*.cpp"), recursive=True)) + sorted(glob.glob(os.path.join(REPO, "include", "**", "*.hpp"), recursive=True))
    for f in files:
        if "/arch/" in f: continue
        src = strip_comments(open(f, errors="replace").read()); texts[f] = src
        seen = set()
        for m in list(DECL.finditer(src)) + list(DECL2.finditer(src)):
            if m.end() in seen: continue
            seen.add(m.end())
            depth, j = 1, m.end()
            while depth and j < len(src):
                if src[j] == "{": depth += 1
                elif src[j] == "}": depth -= 1
                j += 1
            body = src[m.end() - 1:j]
            groups = []
            for g in re.finditer(r"\.std_words\s*=\s*\{([^}]*)\}", body):
                ws = [int(x, 0) for x in re.findall(r"0x[0-9a-fA-F]+|\b\d+\b", g.group(1))]
                groups.append(ws)
            if not groups: continue
            # values as little-endian byte arrays (what BigNat uses)
            vals = [[(w >> (8 * k)) & 255 for w in ws for k in range(4)] for ws in groups]
            rows.append({"file": os.path.relpath(f, REPO), "name": m.group(2).split("::")[-1], "qual": m.group(2), "type": re.sub(r"\s+", " ", m.group(1)).strip(),
                         "array": 1 if m.group(3) else 0, "n": len(groups), "vals": vals, "_span": (f, m.start(), j)})
    # how often anything outside the constant's own initialiser names it (0: dead data, nothing can depend on it)
    for r in rows:
        f0, a, b = r.pop("_span"); pat = re.compile(r"\b%s\b" % re.escape(r["name"]))
        r["uses"] = sum(len(pat.findall(t if f != f0 else t[:a] + t[b:])) for f, t in texts.items())
    with open(out, "w") as fo:
        for r in rows: fo.write(json.dumps(r, separators=(",", ":")) + "\n")
    print("constants", len(rows), "word groups", sum(r["n"] for r in rows))
if __name__ == "__main__":
    sys.exit(main())
