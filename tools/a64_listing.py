#!/usr/bin/env python3
"""C03 / AArch64: assembles the AArch64 sources of the tree under test with clang's integrated
assembler (--target=aarch64-linux-gnu), disassembles the objects with llvm-objdump and writes the
instruction stream as ndjson records for spec/IsaA64.tla:
   {"file": unit, "addr": n, "mn": mnemonic, "r": [register numbers], "imm": k, "mode": "", "cond": "", "target": n}
   registers: x0..x30 -> 0..30, xzr -> 31, sp -> 32
and the symbol table {"sym": name, "file": unit, "addr": n}.
usage: a64_listing.py <outdir>    (writes a64.ndjson; exit 3 if the toolchain cannot assemble)"""
import os, re, sys, json, glob, subprocess, shutil

REPO = os.environ.get("VERIF_REPO", "/repo")

def tool(*names):
    for n in names:
        p = shutil.which(n)
        if p: return p
    return None

def reg(tok):
    tok = tok.strip()
    if tok == "xzr": return 31
    if tok == "sp": return 32
    m = re.match(r"^x(\d+)$", tok)
    if m: return int(m.group(1))
    raise ValueError("register " + tok)

def parse_ins(mn, ops):
    rec = {"mn": mn, "r": [], "imm": 0, "mode": "", "cond": "", "target": 0}
    ops = ops.strip()
    if mn in ("ret",): return rec
    if mn.startswith("b."):
        rec["mn"] = "bcond"; rec["cond"] = mn[2:]
        rec["target"] = int(ops.split()[0], 16)
        return rec
    if mn in ("ldp", "stp"):
        m = re.match(r"^(\w+),\s*(\w+),\s*\[(\w+)(?:,\s*#(-?\d+))?\](!)?(?:,\s*#(-?\d+))?$", ops)
        if not m: raise ValueError("memory operand: " + ops)
        rec["r"] = [reg(m.group(1)), reg(m.group(2)), reg(m.group(3))]
        if m.group(6) is not None: rec["mode"], rec["imm"] = "post", int(m.group(6))
        elif m.group(5): rec["mode"], rec["imm"] = "pre", int(m.group(4) or 0)
        else: rec["mode"], rec["imm"] = "off", int(m.group(4) or 0)
        return rec
    if mn == "cset":
        a, c = [x.strip() for x in ops.split(",")]
        rec["r"] = [reg(a)]; rec["cond"] = c
        return rec
    parts = [x.strip() for x in ops.split(",")]
    if mn in ("cmp", "cmn"):
        rec["r"] = [reg(parts[0])]
        if parts[1].startswith("#"): rec["mode"], rec["imm"] = "imm", int(parts[1][1:], 0)
        else: rec["r"].append(reg(parts[1]))
        return rec
    if mn in ("adds", "adcs", "subs", "sbcs", "mul", "umulh", "add", "adc", "sub", "sbc"):
        rec["r"] = [reg(parts[0]), reg(parts[1])]
        if parts[2].startswith("#"): rec["mode"], rec["imm"] = "imm", int(parts[2][1:], 0)
        else: rec["r"].append(reg(parts[2]))
        return rec
    raise ValueError("unmodelled mnemonic: %s %s" % (mn, ops))

def main():
    out = sys.argv[1]
    os.makedirs(out, exist_ok=True)
    clang = tool("clang", "clang-14"); objdump = tool("llvm-objdump", "llvm-objdump-14")
    if not clang or not objdump: print("no clang / llvm-objdump"); return 3
    rows, unmodelled = [], []
    for src in sorted(glob.glob(os.path.join(REPO, "src", "core", "arch", "aarch64", "*.s"))):
        unit = os.path.splitext(os.path.basename(src))[0]
        obj = os.path.join(out, unit + ".o")
        p = subprocess.run([clang, "--target=aarch64-linux-gnu", "-c", src, "-o", obj], stdout=subprocess.PIPE, stderr=subprocess.STDOUT, text=True)
        if p.returncode != 0: print(p.stdout[-2000:]); return 3
        lst = subprocess.run([objdump, "-d", "--no-show-raw-insn", obj], stdout=subprocess.PIPE, stderr=subprocess.STDOUT, text=True).stdout
        for line in lst.splitlines():
            m = re.match(r"^([0-9a-f]+) <([^>]+)>:$", line.strip())
            if m: rows.append({"sym": m.group(2), "file": unit, "addr": int(m.group(1), 16)}); continue
            m = re.match(r"^\s*([0-9a-f]+):\s+(\S+)\s*(.*)$", line)
            if not m: continue
            addr, mn, ops = int(m.group(1), 16), m.group(2), m.group(3).strip()
            try:
                rec = parse_ins(mn, ops)
            except ValueError as e:
                unmodelled.append("%s+%x: %s %s (%s)" % (unit, addr, mn, ops, e)); rec = {"mn": "unmodelled", "r": [], "imm": 0, "mode": "", "cond": "", "target": 0}
            rec.update({"file": unit, "addr": addr, "text": (mn + " " + ops).strip()})
            rows.append(rec)
    with open(os.path.join(out, "a64.ndjson"), "w") as f:
        for r in rows: f.write(json.dumps(r, separators=(",", ":")) + "\n")
    if unmodelled:
        print("UNMODELLED", json.dumps(unmodelled[:20]))
    print("instructions", len([r for r in rows if "mn" in r]), "symbols", len([r for r in rows if "sym" in r]))
    return 0

if __name__ == "__main__":
    sys.exit(main())
