#!/bin/bash
# usage: seed_eval_queue.sh <queue file> <tier> [parallelism]; queue lines: <prop> <k> <check ids...>; seeds of one property share a worktree, so
# lines of the same property run sequentially (grouped), different properties in parallel.
q="$1"; tier="$2"; par="${3:-3}"
cut -d' ' -f1 "$q" | sort -u | xargs -P "$par" -I{} bash -c '
  grep "^{} " "'"$q"'" | while read id k checks; do
    /verif/tools/seed_eval.sh /tmp/seed-$id /tmp/seed-$id/_seed/$id-$k '"$tier"' $checks
  done'
