#!/bin/bash
# usage: seed_confirm.sh <scratch worktree> <seed dir inside it (with patch.diff, demo.*)>  -> writes <seed dir>/confirm.txt
# Confirms, in the scratch worktree: patch applies to clean HEAD, library+tests build, the suite passes with the
# patch, the demo fails with the patch and passes without it.
wt="$1"; sd="$2"; out="$sd/confirm.txt"
# optional: DEMO_FLAGS (extra flags for the demo), DEMO_LIBFLAGS (extra CXXFLAGS for the library build used by the DEMO only;
# the suite is always built and run in the default configuration)
DF="$DEMO_FLAGS"; LF="$DEMO_LIBFLAGS"
cd "$wt" || exit 2
git checkout -q -- . ; make clean >/dev/null 2>&1; make -C tests clean >/dev/null 2>&1
{
echo "seed: $sd"; echo "head: $(git rev-parse --short HEAD)"
demo=$(ls "$sd"/demo.cpp "$sd"/demo.c 2>/dev/null | head -1)
cmd=$(grep -m1 -E "clang(\+\+)? " "$demo" | sed -e 's/^[ \t/*#]*//')
echo "demo compile line (from header): $cmd"
if ! git apply --check "$sd/patch.diff"; then echo "RESULT patch-does-not-apply"; exit 0; fi
git apply "$sd/patch.diff"; make -C tests clean >/dev/null 2>&1
make -j8 >/dev/null 2>&1 && make -C tests -j8 >/dev/null 2>&1 || { echo "RESULT build-failed-with-patch"; git checkout -q -- .; exit 0; }
./tests/test > /tmp/$$.t 2>&1; trc=$?
echo "suite with patch: rc=$trc PASS=$(grep -c PASS /tmp/$$.t) FAIL=$(grep -ci fail /tmp/$$.t)"
if [ -n "$LF" ]; then make clean >/dev/null 2>&1; make -j8 CXXFLAGS="-std=c++17 -I./include -Ofast -fno-vectorize $LF" >/dev/null 2>&1; echo "demo library flags: $LF"; fi
cp "$demo" . ; b=$(basename "$demo")
if [[ "$b" == *.c ]]; then clang -std=c11 -I./include -O2 "$b" pairing.a -lstdc++ -lm -o demo_bin 2>/tmp/$$.c || clang++ -std=c++17 -I./include -O2 "$b" pairing.a -o demo_bin 2>>/tmp/$$.c; else clang++ -std=c++17 -I./include -O2 $DF "$b" pairing.a -lpthread -o demo_bin 2>/tmp/$$.c; fi
timeout 600 ./demo_bin > /tmp/$$.d 2>&1; d1=$?
echo "demo with patch: rc=$d1 :: $(tail -3 /tmp/$$.d | tr '\n' '|' | cut -c1-300)"
git checkout -q -- . ; make clean >/dev/null 2>&1; if [ -n "$LF" ]; then make -j8 CXXFLAGS="-std=c++17 -I./include -Ofast -fno-vectorize $LF" >/dev/null 2>&1; else make -j8 >/dev/null 2>&1; fi
if [[ "$b" == *.c ]]; then clang -std=c11 -I./include -O2 "$b" pairing.a -lstdc++ -lm -o demo_bin 2>/tmp/$$.c || clang++ -std=c++17 -I./include -O2 "$b" pairing.a -o demo_bin 2>>/tmp/$$.c; else clang++ -std=c++17 -I./include -O2 $DF "$b" pairing.a -lpthread -o demo_bin 2>/tmp/$$.c; fi
timeout 600 ./demo_bin > /tmp/$$.d 2>&1; d0=$?
echo "demo without patch: rc=$d0 :: $(tail -2 /tmp/$$.d | tr '\n' '|' | cut -c1-200)"
rm -f demo_bin "$b" /tmp/$$.*
if [[ $trc == 0 && $d1 != 0 && $d0 == 0 ]]; then echo "RESULT confirmed"; else echo "RESULT not-confirmed"; fi
} > "$out" 2>&1
make clean >/dev/null 2>&1
