#!/bin/bash
# usage: seed_eval.sh <worktree> <seed dir> <tier> <check ids...>   -> appends to <seed dir>/eval.txt
# Runs the named checks against the scratch worktree with the seeded patch applied (VERIF_REPO), with private build/evidence dirs.
wt="$1"; sd="$2"; tier="$3"; shift 3
cd "$wt" || exit 2
git checkout -q -- . ; git apply "$sd/patch.diff" || { echo "patch does not apply" >> "$sd/eval.txt"; exit 0; }
export VERIF_REPO="$wt" VERIF_BUILD="$wt/_vb" VERIF_OUT="$wt/_vo"
for id in "$@"; do
  s=$(date +%s)
  (cd /verif && timeout 3600 bin/check $id $tier) > "$sd/eval.$id.$tier.log" 2>&1; rc=$?
  e=$(date +%s)
  echo "$id $tier rc=$rc $((e-s))s $(grep -c '^VIOLATION' "$sd/eval.$id.$tier.log") violation line(s): $(grep -m2 'key=' "$sd/eval.$id.$tier.log" | tr '\n' ' ' | cut -c1-300)" >> "$sd/eval.txt"
done
git checkout -q -- .
