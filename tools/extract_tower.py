#!/usr/bin/env python3
"""Extracts the straight-line functions of the extension-field tower and of the pairing from the SOURCE TEXT of
the tree under test (src/bls12_381/fq2.cpp, fq6.cpp, fq12.cpp, fq12_cyclotomic.cpp, pairing.cpp) as step lists
for spec/TowerMachine.tla (toy field) and spec/ExpMachine.tla (exponent arithmetic at full size):

  {"cls": "Fq6", "name": "multiply", "params": [{"type": "Fq6", "name": "a", "restrict": 0}, ...],
   "locals": [{"type": "Fq2", "name": "a_a"}, ...],
   "steps": [{"dst": ["a_a"], "op": "multiply", "args": [["a","c0"], ["b","c0"]]}, ...]}

Free functions of pairing.cpp get cls = "pairing".  A statement must be one of
   T name;                                   local object (T in Fq, Fq2, Fq6, Fq12)
   T& name = <object>;                       reference: the name is replaced by the object's access path
   unsigned int n = p < K ? p : p % M;       table index derived from an integer parameter   ($idx step)
   <object>.<method>(<args>);                method call on this / a parameter / a local / one of their members
   fp_inverse(<object>, <object>);
   f<k, b>(<object>, <object>...);           call of a function template (kept as one step with its template arguments)
with arguments that are objects, integer parameters / literals, or entries  table[<int>]  /  table[p & 0x1]  of a
constant table.  A function containing anything else (control flow, loops, pointer arithmetic, ...) is emitted as
{"cls", "name", "unsupported": reason} so that the catalogue never silently shrinks.
An argument is a path ["a", "c0"], ["$tbl", table, "var"|"and1"|"lit", name-or-number] or ["$int", "var"|"lit", name-or-number].
usage: extract_tower.py <out.ndjson>"""
import os, re, sys, json

REPO = os.environ.get("VERIF_REPO", "/repo")
FILES = ["src/bls12_381/fq2.cpp", "src/bls12_381/fq6.cpp", "src/bls12_381/fq12.cpp", "src/bls12_381/fq12_cyclotomic.cpp", "src/bls12_381/pairing.cpp"]
OBJ_TYPES = ("Fq", "Fq2", "Fq6", "Fq12", "MillerTriple", "G2", "G2Affine", "G1Affine")
LOCAL_TYPES = ("Fq", "Fq2", "Fq6", "Fq12")
INT_TYPES = ("unsigned int", "int", "unsigned", "size_t")

def strip_comments(s):
    s = re.sub(r"/\*.*?\*/", " ", s, flags=re.S)
    return re.sub(r"//[^\n]*", " ", s)

def body_at(src, j):
    depth = 1
    while depth and j < len(src):
        if src[j] == "{": depth += 1
        elif src[j] == "}": depth -= 1
        j += 1
    return j

def functions(src, free):
    for m in re.finditer(r"\b(?:void|bool|int)\s+(Fq(?:2|6|12)?)::(\w+)\s*\(([^)]*)\)\s*(?:const\s*)?\{", src):
        j = body_at(src, m.end())
        yield m.group(1), m.group(2), m.group(3), src[m.end():j - 1]
    if free:
        for m in re.finditer(r"(?<![\w:])(?:static\s+)?(?:inline\s+)?void\s+(\w+)\s*\(([^)]*)\)\s*\{", src):
            j = body_at(src, m.end())
            yield "pairing", m.group(1), m.group(2), src[m.end():j - 1]

def parse_params(ps):
    out = []
    for p in [x.strip() for x in ps.split(",") if x.strip() and x.strip() != "void"]:
        q = re.sub(r"\s+", " ", p.replace("&", " ").replace("*", " * ")).strip()
        m = re.match(r"^(?:const )?(unsigned int|[\w:<>]+) ?(__restrict)? ?(\w+)$", q)
        if not m or "*" in q: out.append({"type": "?", "name": p, "restrict": 0}); continue
        t = "uint" if m.group(1) in INT_TYPES else m.group(1)
        out.append({"type": t, "name": m.group(3), "restrict": 1 if "__restrict" in p else 0})
    return out

class Unsupported(Exception): pass

def parse_body(cls, name, params, body):
    locals_, steps, alias = [], [], {}
    objs = {"this"} | {p["name"] for p in params if p["type"] != "uint"}
    ints = {p["name"] for p in params if p["type"] == "uint"}

    def path(tok):
        tok = tok.strip().replace("this->", "this.")
        if tok == "*this": return ["this"]
        if not re.match(r"^[A-Za-z_]\w*(\.\w+)*$", tok): return None
        parts = tok.split(".")
        if parts[0] in alias: parts = alias[parts[0]] + parts[1:]
        return parts if parts[0] in objs else None

    def arg(tok):
        tok = tok.strip()
        p = path(tok)
        if p: return p
        if re.match(r"^\d+$", tok): return ["$int", "lit", int(tok)]
        if tok in ints: return ["$int", "var", tok]
        m = re.match(r"^(\w+)\s*\[\s*(.+?)\s*\]$", tok)
        if m:
            ix = m.group(2)
            if re.match(r"^\d+$", ix): return ["$tbl", m.group(1), "lit", int(ix)]
            if ix in ints: return ["$tbl", m.group(1), "var", ix]
            m2 = re.match(r"^(\w+)\s*&\s*(?:0x)?1$", ix)
            if m2 and m2.group(1) in ints: return ["$tbl", m.group(1), "and1", m2.group(1)]
        return None

    for st in [s.strip().replace("this->", "this.") for s in body.split(";")]:
        if not st: continue
        short = re.sub(r"\s+", " ", st)[:70]
        m = re.match(r"^(Fq(?:2|6|12)?)\s+(\w+)$", st)
        if m:
            locals_.append({"type": m.group(1), "name": m.group(2)}); objs.add(m.group(2)); continue
        m = re.match(r"^(Fq(?:2|6|12)?)\s*&\s*(\w+)\s*=\s*(.+)$", st)
        if m:
            p = path(m.group(3))
            if not p: raise Unsupported("statement: " + short)
            alias[m.group(2)] = p; continue
        m = re.match(r"^unsigned int\s+(\w+)\s*=\s*(\w+)\s*<\s*(\d+)\s*\?\s*(\w+)\s*:\s*(\w+)\s*%\s*(\d+)$", st)
        if m and m.group(2) == m.group(4) == m.group(5) and m.group(2) in ints:
            ints.add(m.group(1))
            steps.append({"dst": [m.group(1)], "op": "$idx", "args": [["$int", "var", m.group(2)], ["$int", "lit", int(m.group(3))], ["$int", "lit", int(m.group(6))]]}); continue
        m = re.match(r"^fp_inverse\s*\(\s*([^,]+),\s*([^)]+)\)$", st)
        if m:
            d, a = path(m.group(1)), path(m.group(2))
            if d and a: steps.append({"dst": d, "op": "inverse", "args": [a]}); continue
            raise Unsupported("statement: " + short)
        m = re.match(r"^(\w+)\s*<\s*([^>]*)>\s*\((.*)\)$", st, flags=re.S)
        if m:
            targs = []
            for t in [x.strip() for x in m.group(2).split(",")]:
                if re.match(r"^\d+$", t): targs.append(int(t))
                elif t in ("true", "false"): targs.append(1 if t == "true" else 0)
                else: raise Unsupported("statement: " + short)
            args = [path(a) for a in m.group(3).split(",")]
            if len(args) < 1 or any(a is None for a in args): raise Unsupported("statement: " + short)
            steps.append({"dst": args[0], "op": m.group(1), "args": args[1:], "targs": targs}); continue
        m = re.match(r"^([\w>\-\.\*]+?)\.(\w+)\s*\((.*)\)$", st, flags=re.S)
        if m:
            d = path(m.group(1))
            args = [arg(a) for a in m.group(3).split(",")] if m.group(3).strip() else []
            if d is None or any(a is None for a in args): raise Unsupported("statement: " + short)
            steps.append({"dst": d, "op": m.group(2), "args": args}); continue
        raise Unsupported("statement: " + short)
    return locals_, steps

def main():
    out = sys.argv[1]
    rows = []
    for f in FILES:
        path = os.path.join(REPO, f)
        if not os.path.exists(path): continue
        src = strip_comments(open(path, errors="replace").read())
        for cls, name, ps, body in functions(src, f.endswith("pairing.cpp")):
            params = parse_params(ps)
            row = {"cls": cls, "name": name, "file": f, "params": params}
            if any(p["type"] not in OBJ_TYPES + ("uint",) for p in params):
                row["unsupported"] = "parameter types " + ",".join(p["type"] for p in params)
            else:
                try:
                    row["locals"], row["steps"] = parse_body(cls, name, params, body)
                except Unsupported as e:
                    row["unsupported"] = str(e)
            rows.append(row)
    # overloads: number by order
    seen = {}
    for r in rows:
        k = (r["cls"], r["name"]); seen[k] = seen.get(k, 0) + 1; r["ovl"] = seen[k]
    with open(out, "w") as fo:
        for r in rows: fo.write(json.dumps(r, separators=(",", ":")) + "\n")
    print("functions", len(rows), "straight-line", len([r for r in rows if "steps" in r]))
    return 0

if __name__ == "__main__":
    sys.exit(main())
