#!/usr/bin/env python3
"""Extracts the straight-line member functions of the extension-field tower from the SOURCE TEXT of the
tree under test (src/bls12_381/fq2.cpp, fq6.cpp, fq12.cpp, fq12_cyclotomic.cpp) as step lists for
spec/TowerMachine.tla:

  {"cls": "Fq6", "name": "multiply", "params": [{"type": "Fq6", "name": "a", "restrict": 0}, ...],
   "locals": [{"type": "Fq2", "name": "a_a"}, ...],
   "steps": [{"dst": ["a_a"], "op": "multiply", "args": [["a","c0"], ["b","c0"]]}, ...]}

Every statement must be a local declaration or a method call  <object>.<method>(<objects>)  on `this`, a
parameter, a local or one of their members; a function containing anything else (control flow, table
look-ups, loops, free functions other than fp_inverse) is emitted as {"cls", "name", "unsupported": reason}
so that the catalogue never silently shrinks.
usage: extract_tower.py <out.ndjson>"""
import os, re, sys, json

REPO = os.environ.get("VERIF_REPO", "/repo")
FILES = ["src/bls12_381/fq2.cpp", "src/bls12_381/fq6.cpp", "src/bls12_381/fq12.cpp", "src/bls12_381/fq12_cyclotomic.cpp"]
TYPES = ("Fq", "Fq2", "Fq6", "Fq12")

def strip_comments(s):
    s = re.sub(r"/\*.*?\*/", " ", s, flags=re.S)
    return re.sub(r"//[^\n]*", " ", s)

def parse_path(tok):
    tok = tok.strip()
    tok = tok.replace("this->", "this.")
    if tok == "*this": return ["this"]
    if not re.match(r"^[A-Za-z_]\w*(\.\w+)*$", tok): return None
    return tok.split(".")

def functions(src):
    for m in re.finditer(r"\b(?:void|bool|int)\s+(Fq(?:2|6|12)?)::(\w+)\s*\(([^)]*)\)\s*(?:const\s*)?\{", src):
        depth, j = 1, m.end()
        while depth and j < len(src):
            if src[j] == "{": depth += 1
            elif src[j] == "}": depth -= 1
            j += 1
        yield m.group(1), m.group(2), m.group(3), src[m.end():j - 1]

def parse_params(ps):
    out = []
    for p in [x.strip() for x in ps.split(",") if x.strip() and x.strip() != "void"]:
        m = re.match(r"^(?:const\s+)?([\w:<>]+)\s*(?:&|\*)?\s*(__restrict)?\s*(\w+)$", p.replace("& __restrict", "& __restrict ").replace("&", " & ").replace("  ", " ").replace(" & ", "& "))
        m = re.match(r"^(?:const\s+)?([\w:<>]+)\s*&?\s*(__restrict)?\s*(\w+)$", re.sub(r"\s+", " ", p.replace("&", " ")))
        if not m: out.append({"type": "?", "name": p, "restrict": 0}); continue
        out.append({"type": m.group(1), "name": m.group(3), "restrict": 1 if "__restrict" in p else 0})
    return out

def parse_body(cls, name, params, body):
    locals_, steps = [], []
    known = {"this"} | {p["name"] for p in params}
    for st in [s.strip() for s in body.split(";")]:
        if not st: continue
        m = re.match(r"^(Fq(?:2|6|12)?)\s+(\w+)$", st)
        if m:
            locals_.append({"type": m.group(1), "name": m.group(2)}); known.add(m.group(2)); continue
        m = re.match(r"^fp_inverse\s*\(\s*([^,]+),\s*([^)]+)\)$", st)
        if m:
            d, a = parse_path(m.group(1)), parse_path(m.group(2))
            if d and a and d[0] in known and a[0] in known: steps.append({"dst": d, "op": "inverse", "args": [a]}); continue
            return None, None, "statement: " + st[:60]
        m = re.match(r"^([\w>\-\.\*]+?)\.(\w+)\s*\((.*)\)$", st, flags=re.S)
        if m:
            d = parse_path(m.group(1))
            args = [parse_path(a) for a in m.group(3).split(",")] if m.group(3).strip() else []
            if d is None or d[0] not in known or any(a is None or a[0] not in known for a in args):
                return None, None, "statement: " + re.sub(r"\s+", " ", st)[:70]
            steps.append({"dst": d, "op": m.group(2), "args": args}); continue
        return None, None, "statement: " + re.sub(r"\s+", " ", st)[:70]
    return locals_, steps, None

def main():
    out = sys.argv[1]
    rows = []
    for f in FILES:
        path = os.path.join(REPO, f)
        if not os.path.exists(path): continue
        src = strip_comments(open(path, errors="replace").read())
        for cls, name, ps, body in functions(src):
            params = parse_params(ps)
            row = {"cls": cls, "name": name, "file": f, "params": params}
            if any(p["type"] not in TYPES for p in params):
                row["unsupported"] = "parameter types " + ",".join(p["type"] for p in params)
            else:
                loc, steps, why = parse_body(cls, name, params, body)
                if why: row["unsupported"] = why
                else: row["locals"] = loc; row["steps"] = steps
            rows.append(row)
    # overloads: number by order
    seen = {}
    for r in rows:
        k = (r["cls"], r["name"]); seen[k] = seen.get(k, 0) + 1; r["ovl"] = seen[k]
    with open(out, "w") as fo:
        for r in rows: fo.write(json.dumps(r, separators=(",", ":")) + "\n")
    print("functions", len(rows), "straight-line", len([r for r in rows if "steps" in r]))
    return 0

if __name__ == "__main__":
    sys.exit(main())
