#!/usr/bin/env python3
"""Extracts the operation catalogue used by spec/Alias.tla (C18) and spec/CApi.tla (C19) from the
headers of /repo's working tree: every C++ member / free function and every C function that has
at least one reference or pointer operand, with, per operand, its (normalised) type, whether it is
const, and whether it carries __restrict.  Output: ndjson, one operation per line.

The parser is deliberately shallow (the headers are uniformly formatted: declarations on one
line).  A declaration it cannot parse is emitted as {"unparsed": ...} so that the catalogue never
silently shrinks."""
import re, os, sys, json, glob

REPO = os.environ.get("VERIF_REPO", "/repo")

DECL = re.compile(r"""^(?P<indent>\s*)
    (?:template\s*<[^>]*>\s*)?
    (?P<quals>(?:(?:static|inline|friend|constexpr|extern)\s+)*)
    (?P<ret>unsigned\s+int|typename\s+[\w:<>]+|[\w:]+)\s+
    (?:__attribute__\(\(\w+\)\)\s+)?
    (?P<name>\w+)\s*\((?P<params>[^;{]*)\)\s*(?P<const>const)?\s*(?P<end>[;{])""", re.X)
STRUCT = re.compile(r"^(?P<indent>\s*)(?:template\s*<[^>]*>\s*)?(?:struct|class|union)\s+(?P<name>\w+)\b[^;]*\{?\s*$")

def norm_type(t, struct):
    t = re.sub(r"\b(const|typename|struct|__restrict|__restrict__|restrict)\b", " ", t)
    t = t.replace("&", " ").replace("*", " ")
    t = re.sub(r"\s+", " ", t).strip()
    base = re.sub(r"<.*$", "", t).strip()
    base = base.split("::")[-1]
    # self-referential template spellings
    if struct and base == struct: return struct
    return base or t

def split_params(s):
    out, depth, cur = [], 0, ""
    for ch in s:
        if ch in "<(": depth += 1
        if ch in ">)": depth -= 1
        if ch == "," and depth == 0:
            out.append(cur); cur = ""
        else:
            cur += ch
    if cur.strip(): out.append(cur)
    return [p.strip() for p in out]

def parse_param(p, struct):
    if p in ("void", ""): return None
    if "(*" in p:   # callback
        m = re.search(r"\(\*\s*(\w+)\)", p)
        return {"name": m.group(1) if m else "cb", "type": "callback", "const": 0, "ind": 0, "restrict": 0}
    p = re.sub(r"=\s*[^,]+$", "", p).strip()        # default value
    m = re.match(r"^(?P<type>.*?)(?P<name>\w+)$", p)
    if not m: return {"name": "?", "type": p, "const": 0, "ind": 0, "restrict": 0}
    ty, name = m.group("type"), m.group("name")
    return {"name": name, "type": norm_type(ty, struct), "const": 1 if re.search(r"\bconst\b", ty) else 0,
            "ind": 1 if ("&" in ty or "*" in ty) else 0, "restrict": 1 if "__restrict" in ty or re.search(r"\brestrict\b", ty) else 0}

def scan(path, lang):
    ops = []
    stack = []      # (indent, struct name)
    rel = os.path.relpath(path, REPO)
    lines = open(path, errors="replace").read().split("\n")
    in_comment = False
    for ln, line in enumerate(lines, 1):
        s = line
        if in_comment:
            if "*/" in s: in_comment = False
            continue
        if s.strip().startswith("/*"):
            if "*/" not in s: in_comment = True
            continue
        if s.strip().startswith("//") or s.strip().startswith("*"): continue
        m = STRUCT.match(s)
        if m and "(" not in s:
            ind = len(m.group("indent"))
            while stack and stack[-1][0] >= ind: stack.pop()
            if s.rstrip().endswith("{"): stack.append((ind, m.group("name")))
            continue
        m = DECL.match(s)
        if not m: continue
        ind = len(m.group("indent"))
        while stack and stack[-1][0] >= ind: stack.pop()
        struct = stack[-1][1] if stack else ""
        quals = m.group("quals") or ""
        if "friend" in quals: continue
        name = m.group("name")
        if name in ("if", "while", "for", "switch", "return", "sizeof", "constexpr", "alignas"): continue
        if m.group("ret") in ("return", "else", "new", "delete", "typedef", "using", "case", "goto", "struct", "union", "class", "template", "operator"): continue
        params = [parse_param(p, struct) for p in split_params(m.group("params"))]
        params = [p for p in params if p]
        if not any(p["ind"] for p in params): continue
        static = 1 if ("static" in quals or not struct) else 0
        ops.append({"lang": lang, "file": rel, "line": ln, "struct": struct, "name": name, "static": static,
                    "constfn": 1 if m.group("const") else 0, "ret": re.sub(r"\s+", " ", m.group("ret")), "params": params})
    return ops

def main():
    out = sys.argv[1] if len(sys.argv) > 1 else "/dev/stdout"
    ops = []
    for f in sorted(glob.glob(os.path.join(REPO, "include", "**", "*.hpp"), recursive=True)):
        if "/arch/" in f: continue      # architecture specialisations repeat the generic declarations
        ops += scan(f, "cpp")
    for f in sorted(glob.glob(os.path.join(REPO, "include", "**", "*.h"), recursive=True)):
        ops += scan(f, "c")
    # several overloads share (struct, name): number them in file order so that keys are unique
    seen = {}
    for o in ops:
        k = (o["lang"], o["struct"], o["name"])
        seen[k] = seen.get(k, 0) + 1
        o["ovl"] = seen[k]
    with open(out, "w") as f:
        for o in ops: f.write(json.dumps(o, separators=(",", ":")) + "\n")
    return 0

if __name__ == "__main__":
    sys.exit(main())
