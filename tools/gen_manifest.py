#!/usr/bin/env python3
"""Regenerates /verif/MANIFEST.json from the table below (one entry per claimed property)."""
import json, os
V = os.path.dirname(os.path.dirname(os.path.abspath(__file__)))
props = [json.loads(l) for l in open(os.path.join(V, "properties.jsonl"))]
MC = "model_checking"
T = "explicit TLA+ specification; TLC bounded model checking of the code-shaped algorithm; TLC-generated cases replayed into the implementation and recorded traces validated by TLC against the specification"
CLAIMS = {
 "C02": dict(level=MC, design="5-C02",
   text="TLC checks the word-serial algorithms (WordArith.tla, the code's shape) against integer arithmetic exhaustively for small word sizes and every admissible modulus; at the real 381/255-bit parameters TLC enumerates the boundary/sum-targeted/exponent/byte case families, the cases are replayed on the library rebuilt from /repo (assembly and portable builds) and every recorded call, plus seeded random calls, is validated by TLC against PrimeField.tla (integers mod p, canonical representative).",
   note="Trusted: TLC, the BigNat Java accelerator (checked against its TLA+ definitions by MC_BigNat), primality of q and r. Exhaustive only at toy word sizes; at full size coverage is by constructed witnesses per case class plus random events. Fq::compare follows the Montgomery-residue order (known finding, rule-keyed)."),
 "C03": dict(level=MC, design="5-C03",
   text="MC_WordArith proves the generic, early-decision (x86-64 assembly) and Montgomery shapes equal for all operands at small (W,N); the raw 384/768-bit primitives are then driven directly through the C++ members and the x86-64 baseline and BMI2/ADX entry points, on asm, asm-with-baseline-dispatch, portable 64-bit and portable 32-bit builds, aliased or not, on TLC-generated boundary families; TLC validates every result and flag against integer arithmetic and the outputs are compared bit for bit across back ends.",
   note="AArch64 and ARMv6-M assembly are not executed (no assembler/emulator for ARMv6-M pre-UAL syntax, no AArch64 execution here): covered at the algorithm-shape level only and listed as configs_uncovered in the evidence."),
 "C04": dict(level=MC, design="5-C04",
   text="The tower is specified as three instances of a generic quotient ring K[t]/(t^D - C) (ExtField.tla: polynomial product + reduction, no Karatsuba), Frobenius as x^(q^k) via generator images (checked against plain exponentiation by TLC), cyclotomic membership and the easy-part map as relations. TLC enumerates component-shape families x operations x alias patterns x all Frobenius powers 0..13 x sparse shapes; the cases are replayed on the rebuilt library (asm, portable 64/32) and TLC validates every recorded call, plus random calls, against the definitions.",
   note="Trusted: TLC, BigNat/Tower Java accelerators (each checked against its TLA+ definition by MC_BigNat/MC_Tower). No exhaustive toy-field instance of the coded formulas yet; coverage at 381 bits is by shape classes and random events."),
 "C05": dict(level=MC, design="5-C05",
   text="Curve.tla states the affine chord-and-tangent group law on y^2=x^3+b over an abstract field, instantiated for E(Fq) and E'(Fq2). TLC enumerates scenario tuples (relation class x Jacobian representative of each operand x API x alias) with witnesses built by that law, including identity operands in arbitrary (x,y,0) form, equal and opposite operands, different representatives of the same point and points outside the subgroup; the cases are replayed through the C++ and C APIs on asm and portable builds and TLC accepts each recorded output in any representative iff it denotes the group-law result.",
   note="Trusted: TLC, accelerators checked by MC_BigNat/MC_Tower, generator coordinates ASSUME-checked (on curve, order r). Exhaustive model checking of the coded Jacobian formulas on toy curves is not built yet; coverage is by relation/representation classes and random sums."),
 "C06": dict(level=MC, design="5-C06",
   text="The signed-digit recoding is specified as a TLA+ state machine with a fixed-width accumulator (ScalarRecode.tla) and model-checked for all scalars of widths up to 10 bits (recombination, digit bounds, buffer length; the as-shipped variant without carry is rejected by the same invariants). At full size TLC enumerates boundary scalar families x routine x width x base, the cases are replayed through every scalar-multiplication routine (C++ and C API) and TLC validates each result against double-and-add on the affine law, and each digit string / base-|x| decomposition against exact recombination.",
   note="Trusted as for C05. GLV and base-|x| decompositions are validated through results and recombination at full size; toy-parameter exhaustive instances (GlvMC/PowXMC) are not built yet."),
 "C09": dict(level=MC, design="5-C09",
   text="Encoding.tla defines Encode and, independently, validating Decode as a decision procedure with named reject points; TLC checks on every generated or recorded byte string that the procedure accepts exactly canonical encodings of subgroup points. TLC enumerates round trips and the mutation classes of valid encodings (flag flips, malformed identity, stray bits in each later coordinate field, coordinate+q, off-curve, x without y, outside the subgroup); the cases plus bit-flipped and random strings are decoded through the C API on asm and portable builds, and TLC compares verdict and point.",
   note="The sign-flag convention is the library's own order (Montgomery residues), modelled as is. Byte strings are not enumerated exhaustively at 48/96/192 bytes; no toy-curve exhaustive instance yet."),
 "C10": dict(level=MC, design="5-C10",
   text="The rejection samplers are TLA+ state machines over the caller-supplied byte stream (Sampling.tla), model-checked over every short stream for range, no over-read, totality and uniformity (bijection). The implementation is bound through its random-source callback: TLC-generated scripted streams force 0..k rejections in every sampler (candidate = modulus, above it, unused top bits set, digit tuples >= r) and TLC validates outputs (below modulus, digits consistent, non-identity subgroup points); hash-to-scalar is checked as (input with top bit cleared) mod r, hash-to-curve as the first x >= x0 with x^3+b a square on every back end, identity derivation as the cofactor multiple in G1.",
   note="Uniformity is shown on the specification only. The sampler's byte-consumption protocol is compared as a non-gating diagnostic so that a different but correct protocol does not alarm."),
 "C01": dict(level=MC, design="5-C01",
   text="Pairing.tla defines the pairing from first principles (textbook Miller function over the bits of |x| with chord/tangent lines through multiples of the untwisted Q, inversion for negative x, plain exponentiation by 3(q^12-1)/r) and TLC evaluates it at the real parameters; the twist-slope form is checked by TLC against the unoptimised definition on E(Fq12). TLC-generated cases (generator pair = exported GT generator, scalar-boundary multiples, all identity combinations, non-normalised Jacobian inputs) are replayed through the affine, prepared and C-API entry points on asm/portable builds and every output must equal the specification's value; random tuples additionally check e(aP,bQ)=e(P,Q)^(ab), e^r=1 and e=1 iff an argument is the identity with the specification's Fq12 arithmetic.",
   note="Not exhaustive over the ~2^510 input pairs: constructed witnesses per case class plus random tuples; no toy-BLS12 instance of the coded loop yet. Trusted: TLC and the Java accelerators (checked against their TLA+ definitions)."),
 "C07": dict(level=MC, design="5-C07",
   text="TLC enumerates GT bases x an exponent family (0, 1, around r, 2r, 2^256-1, powers of |x| and word boundaries) x routine (division-based, division-free, decomposed, C API) x alias; every recorded result must equal a^k computed by square-and-multiply in the specification's Fq12, fast squaring a^2, inversion a^-1; the random-exponentiation routine is fed scripted streams that force inner and outer rejections and must return y < r and exactly a^y. The sampler is model-checked as a state machine (Sampling.tla: range, totality, uniformity as a bijection).",
   note="Uniformity is established on the specification, not measured on the implementation."),
 "C08": dict(level=MC, design="5-C08",
   text="MillerProduct.tla models the shared-accumulator loop with per-record loop state (running point / coefficient cursor) as a state machine; TLC explores all lists of up to 3 records (affine or prepared, skipped or not, stale cursors) and two consecutive products, checking cursor bounds and result = product of single loops. The implementation is bound by replaying TLC-enumerated list shapes x identity masks through the C API (two products over the same record arrays): TLC checks the result against the product of the specification's pairings, prepared = plain, identity pairs contribute 1, empty product = 1, and the recorded cursors (read through the C mirror struct) equal NumCoeffs = 68 or 0 when skipped.",
   note="List lengths up to 3+3 in the thorough tier, 2+2 in quick; values at the real parameters."),
}
checks = []
for p in props:
    c = CLAIMS.get(p["id"])
    if not c: continue
    checks.append({"property_id": p["id"], "quick_cmd": "bin/check %s quick" % p["id"], "thorough_cmd": "bin/check %s thorough" % p["id"],
                   "evidence_file": "evidence/%s.json" % p["id"], "replay_cmd_template": "bin/check %s --replay {path}" % p["id"],
                   "engine": "tlc-conformance",
                   "level_claimed": {"category": c["level"], "text": c["text"], "design_ref": "DESIGN.md section " + c["design"]},
                   "level_note": c["note"], "technique": c.get("technique", T)})
hooks_commits = [l.strip() for l in open(os.path.join(V, "hooks_commits.txt"))] if os.path.exists(os.path.join(V, "hooks_commits.txt")) else []
m = {"version": 1, "setup_cmd": "bin/setup",
     "hooks": {"guard": "JEDI_PAIRING_VERIF", "enable": "bin/check builds /repo out of tree (build/lib/<cfg>) with -DJEDI_PAIRING_VERIF added to the Makefile's CXXFLAGS",
               "baseline_off_cmd": "make -C /repo && make -C /repo/tests && /repo/tests/test", "source_commits": hooks_commits, "add_only": True},
     "engines": [{"name": "tlc-conformance", "path": "bin/check", "serves_properties": [c["property_id"] for c in checks],
                  "kind_free_text": "TLA+ specifications under spec/ checked with TLC (bounded exhaustive instances MC_*, case generators Gen_*, trace specifications Trace_*), C++/C drivers under harness/ rebuilt against /repo's working tree in several configurations"}],
     "checks": checks,
     "notes": "See DESIGN.md. Known findings: known_findings.json.",
     "not_applicable": [{"property_id": p["id"], "reason": "check under construction (DESIGN.md section 9); not yet claimed"} for p in props if p["id"] not in CLAIMS]}
json.dump(m, open(os.path.join(V, "MANIFEST.json"), "w"), indent=1)
print("claimed:", [c["property_id"] for c in checks])
