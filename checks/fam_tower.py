"""extension-field family: drv_tower + Trace_Tower (C04, C18)"""
import json
import vlib
from engine import Family, rerun
TOWER = Family("drv_tower", ["drv_tower.cpp"], "Trace_Tower")

def key_of(ev, labels):
    if ev.get("op", "").startswith("tm."):
        return "tm:%s::%s:alias%s:%s%s" % (ev.get("cls"), ev.get("name"), ev.get("alias"), ("pow%s:" % (ev["power"] % 12)) if "power" in ev else "", "+".join(labels))
    if ev.get("op") == "ext.cmp" and labels == ["cmp.integer-order"]:
        return "ext.cmp:montgomery-residue-order"
    return "%s:lvl%s:%s:alias%s:%s%s" % (ev.get("op"), ev.get("lvl"), ev.get("cfg"), ev.get("alias", 0),
                                        ("pow%s:" % ev["power"]) if ev.get("op") == "ext.frob" else "", "+".join(labels))

def shape(v):
    """component shape of a nested element: per Fq component z(ero) / o(ne in Montgomery form or other) ..."""
    if isinstance(v, list) and v and isinstance(v[0], int):
        n = vlib.from_le(v)
        return "z" if n == 0 else "x"
    if isinstance(v, list):
        return "".join(shape(x) for x in v)
    return "-"

def class_of(ev):
    return (ev.get("op"), ev.get("lvl"), ev.get("alias", 0), ev.get("cfg"), ev.get("power"), ev.get("src"), shape(ev.get("a")), shape(ev.get("b")),
            shape(ev.get("c0")), shape(ev.get("c1")), shape(ev.get("c4")))

def confirm_factory(run):
    def confirm(ev, labels):
        if ev.get("op", "").startswith("tm."): return True      # TLC's execution of the extracted steps is deterministic
        try:
            return bool(rerun(run, TOWER, ev))
        except vlib.Infra:
            return True
    return confirm


# ---- the tower's straight-line functions, extracted from the source text and executed by TowerMachine.tla on a toy field ----
def tower_machine_cases(tier, with_alias, part="tower"):
    """returns (program file, cases, unsupported function names).  part = "tower": the Fq2/Fq6/Fq12 member functions (C04, C18);
    part = "pairing": the Miller-loop step functions of pairing.cpp on a toy twist (C01)"""
    import os, subprocess
    sc = vlib.scratch()
    prog = os.path.join(sc, "tower_prog.ndjson")
    p = subprocess.run(["python3", os.path.join(vlib.VERIF, "tools", "extract_tower.py"), prog], stdout=subprocess.PIPE, stderr=subprocess.STDOUT, text=True,
                       env=dict(os.environ, VERIF_REPO=vlib.REPO))
    if p.returncode != 0: raise vlib.Infra("extract_tower failed: " + p.stdout[-500:])
    rows = vlib.read_ndjson(prog)
    cases, unsupported = [], []
    nseed = 3 if tier == "quick" else 12
    base = 100 * (vlib.seed() % 50)
    common = {"src": "source-extracted", "cfg": "source"}
    for r in rows:
        if (r["cls"] == "pairing") != (part == "pairing"): continue
        if "steps" not in r:
            unsupported.append("%s::%s (%s)" % (r["cls"], r["name"], r.get("unsupported", "")[:50])); continue
        if r["name"] == "norm" or r.get("ovl", 1) != 1: continue
        if r["cls"] == "pairing":
            if r["name"] == "miller_doubling_step":
                # every point of the toy twist in the thorough tier (indices are taken modulo the number of points)
                for i in (range(0, 400) if tier == "thorough" else [(7 * k + vlib.seed()) % 400 for k in range(60)]):
                    for sd in range(1, 3 if tier == "thorough" else 2):
                        cases.append(dict(common, op="tm.dbl", cls="pairing", name=r["name"], alias=0, pt=i, seed=base + sd + i))
            elif r["name"] == "miller_addition_step":
                n = 4000 if tier == "thorough" else 90
                for k in range(n):
                    cases.append(dict(common, op="tm.addstep", cls="pairing", name=r["name"], alias=0, pt=(13 * k + vlib.seed()) % 400, pt2=(29 * k + 7 * (k // 400) + 3) % 400, seed=base + k))
            elif r["name"] == "ell":
                for k in range(40 if tier == "thorough" else 6):
                    cases.append(dict(common, op="tm.ell", cls="pairing", name=r["name"], alias=0, seed=base + k + 1))
            else:
                unsupported.append("%s::%s (straight-line, checked in the exponent machine only)" % (r["cls"], r["name"]))
            continue
        if r["name"] == "frobenius_map":
            powers = [0, 1, 2, 3, 5, 6, 7, 11, 12, 13, 2147483647] if tier == "quick" else list(range(0, 26)) + [2147483647, 2147483646]
            for k in powers:
                for al in ([0, 1] if with_alias else [0]):
                    for sd in range(1, 2 if tier == "quick" else 4):
                        cases.append(dict(common, op="tm.frob", cls=r["cls"], name=r["name"], alias=al, power=k, seed=base + sd + 37 * (k % 100)))
            continue
        has_b = any(q["name"] == "b" and q["type"] == r["cls"] for q in r["params"])
        b_restrict = any(q["name"] == "b" and q["restrict"] for q in r["params"])
        a_ok = r["params"] and r["params"][0]["type"] == r["cls"] and not r["params"][0]["restrict"]
        aliases = [0]
        if with_alias:
            if a_ok: aliases.append(1)
            if has_b and not b_restrict: aliases += [2, 3]
        for al in aliases:
            for seed in range(1, nseed + 1):
                cases.append(dict(common, op="tm.case", cls=r["cls"], name=r["name"], alias=al, seed=seed + base))
        if tier == "thorough" and r["cls"] == "Fq2" and not with_alias and r["name"] in ("multiply", "add", "subtract"):
            for x in range(0, 361):
                cases.append(dict(common, op="tm.all2", cls="Fq2", name=r["name"], alias=0, x=x))
    return prog, cases, unsupported

def tower_machine(run, tier, with_alias, part="tower"):
    """runs the cases through Trace_TowerMachine; returns (cases, fails, unsupported)"""
    import os
    prog, cases, unsupported = tower_machine_cases(tier, with_alias, part)
    tf = os.path.join(vlib.scratch(), "tm.%s.%s.trace.ndjson" % (part, "alias" if with_alias else "value"))
    vlib.write_ndjson(tf, cases)
    fails = run.validate("Trace_TowerMachine", [tf], env={"TOWERPROG": prog}, timeout=3000)
    # a case the machine could not execute (a callee that is no longer straight-line, a function template) is not judged: reported, not a finding
    skipped = sorted(set("%s::%s" % (e.get("cls"), e.get("name")) for e, l in fails if "diag.not-executable" in l))
    if skipped: run.extra["source_cases_not_executable_%s" % part] = skipped
    fails = [(e, [x for x in l if not x.startswith("diag.")]) for e, l in fails]
    fails = [(e, l) for e, l in fails if l]
    run.configs.add("source (TowerMachine, toy field F_19)")
    return cases, fails, unsupported

# ---- the final exponentiation executed in the exponent, at full size (ExpMachine.tla) --------------------------------------
EXP_LINE = None
def exp_machine(run):
    """returns {(function, alias): (verdict, detail)} for final_exponentiation and map_to_cyclotomic, alias 0 (distinct output) and 1 (output = input)"""
    import os, re, subprocess
    prog = os.path.join(vlib.scratch(), "exp_prog.ndjson")
    p = subprocess.run(["python3", os.path.join(vlib.VERIF, "tools", "extract_tower.py"), prog], stdout=subprocess.PIPE, stderr=subprocess.STDOUT, text=True,
                       env=dict(os.environ, VERIF_REPO=vlib.REPO))
    if p.returncode != 0: raise vlib.Infra("extract_tower failed: " + p.stdout[-500:])
    r = vlib.tlc("ExpMachine", None, env={"TOWERPROG": prog}, timeout=900)
    flat = r.out.replace("\n", " ")
    got = re.findall(r'<<\s*"(EXP-OK|EXP-BAD|EXP-FAULT|EXP-SKIP)",\s*"(\w+)",\s*(\d),\s*"([^"]*)"\s*>>', flat)
    if not r.ok or len(got) != 4: raise vlib.Infra("ExpMachine: %d verdicts\n%s" % (len(got), r.out[-3000:]))
    if run is not None:
        run.mc_runs.append({"module": "ExpMachine", "role": "final exponentiation / cyclotomic map from the source text, executed on exponents modulo q^12 - 1",
                            "verdicts": ["%s %s alias%s" % (v, n, a) for v, n, a, d in got], "wall_s": round(r.wall, 1)})
        run.states += r.distinct; run.transitions += r.generated
    return {(n, int(a)): (v, d) for v, n, a, d in got}

def exp_events(verdicts, want):
    """want: list of (function, alias); returns rejected events [(event, labels)] and the list of skipped (not expressible) functions"""
    fails, skipped = [], []
    for k in want:
        v, d = verdicts[k]
        if v == "EXP-SKIP": skipped.append("%s alias%d" % k)
        elif v != "EXP-OK": fails.append(({"op": "exp.machine", "name": k[0], "alias": k[1], "verdict": v, "detail": d, "cfg": "source"}, [v.lower()]))
    return fails, skipped

def exp_key(ev, labels):
    return "exp:%s:alias%s:%s" % (ev.get("name"), ev.get("alias"), "+".join(labels))

def replay_special(prop, path, ev):
    """--replay for events judged from the source text (no driver involved)"""
    if ev.get("op") == "exp.machine":
        v, d = exp_machine(None)[(ev["name"], ev["alias"])]
        if v not in ("EXP-OK", "EXP-SKIP"):
            print("VIOLATION property=%s replay=%s" % (prop, path)); print("  %s alias%s: %s (%s)" % (ev["name"], ev["alias"], v, d)); return 1
        print("replay: event accepted"); return 0
    # tm.*: run the one case through Trace_TowerMachine against the step lists of the current tree
    import os, subprocess
    prog = os.path.join(vlib.scratch(), "tower_prog.replay.ndjson")
    p = subprocess.run(["python3", os.path.join(vlib.VERIF, "tools", "extract_tower.py"), prog], stdout=subprocess.PIPE, stderr=subprocess.STDOUT, text=True,
                       env=dict(os.environ, VERIF_REPO=vlib.REPO))
    if p.returncode != 0: raise vlib.Infra("extract_tower failed: " + p.stdout[-500:])
    tf = os.path.join(vlib.scratch(), "tm.replay.ndjson")
    vlib.write_ndjson(tf, [{k: v for k, v in ev.items() if k not in ("akey", "acode")}])
    from engine import Run
    run = Run(prop, "quick")
    fails = run.validate("Trace_TowerMachine", [tf], env={"TOWERPROG": prog}, timeout=900)
    labels = [x for e, l in fails for x in l if not x.startswith("diag.")]
    if labels:
        print("VIOLATION property=%s replay=%s" % (prop, path)); print("  labels=%s" % labels); return 1
    print("replay: event accepted"); return 0
