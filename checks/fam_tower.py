"""extension-field family: drv_tower + Trace_Tower (C04, C18)"""
import json
import vlib
from engine import Family, rerun
TOWER = Family("drv_tower", ["drv_tower.cpp"], "Trace_Tower")

def key_of(ev, labels):
    if ev.get("op") == "ext.cmp" and labels == ["cmp.integer-order"]:
        return "ext.cmp:montgomery-residue-order"
    return "%s:lvl%s:%s:alias%s:%s%s" % (ev.get("op"), ev.get("lvl"), ev.get("cfg"), ev.get("alias", 0),
                                        ("pow%s:" % ev["power"]) if ev.get("op") == "ext.frob" else "", "+".join(labels))

def shape(v):
    """component shape of a nested element: per Fq component z(ero) / o(ne in Montgomery form or other) ..."""
    if isinstance(v, list) and v and isinstance(v[0], int):
        n = vlib.from_le(v)
        return "z" if n == 0 else "x"
    if isinstance(v, list):
        return "".join(shape(x) for x in v)
    return "-"

def class_of(ev):
    return (ev.get("op"), ev.get("lvl"), ev.get("alias", 0), ev.get("cfg"), ev.get("power"), ev.get("src"), shape(ev.get("a")), shape(ev.get("b")),
            shape(ev.get("c0")), shape(ev.get("c1")), shape(ev.get("c4")))

def confirm_factory(run):
    def confirm(ev, labels):
        try:
            return bool(rerun(run, TOWER, ev))
        except vlib.Infra:
            return True
    return confirm
