"""extension-field family: drv_tower + Trace_Tower (C04, C18)"""
import json
import vlib
from engine import Family, rerun
TOWER = Family("drv_tower", ["drv_tower.cpp"], "Trace_Tower")

def key_of(ev, labels):
    if ev.get("op", "").startswith("tm."):
        return "tm:%s::%s:alias%s:%s" % (ev.get("cls"), ev.get("name"), ev.get("alias"), "+".join(labels))
    if ev.get("op") == "ext.cmp" and labels == ["cmp.integer-order"]:
        return "ext.cmp:montgomery-residue-order"
    return "%s:lvl%s:%s:alias%s:%s%s" % (ev.get("op"), ev.get("lvl"), ev.get("cfg"), ev.get("alias", 0),
                                        ("pow%s:" % ev["power"]) if ev.get("op") == "ext.frob" else "", "+".join(labels))

def shape(v):
    """component shape of a nested element: per Fq component z(ero) / o(ne in Montgomery form or other) ..."""
    if isinstance(v, list) and v and isinstance(v[0], int):
        n = vlib.from_le(v)
        return "z" if n == 0 else "x"
    if isinstance(v, list):
        return "".join(shape(x) for x in v)
    return "-"

def class_of(ev):
    return (ev.get("op"), ev.get("lvl"), ev.get("alias", 0), ev.get("cfg"), ev.get("power"), ev.get("src"), shape(ev.get("a")), shape(ev.get("b")),
            shape(ev.get("c0")), shape(ev.get("c1")), shape(ev.get("c4")))

def confirm_factory(run):
    def confirm(ev, labels):
        if ev.get("op", "").startswith("tm."): return True      # TLC's execution of the extracted steps is deterministic
        try:
            return bool(rerun(run, TOWER, ev))
        except vlib.Infra:
            return True
    return confirm


# ---- the tower's straight-line functions, extracted from the source text and executed by TowerMachine.tla on a toy field ----
def tower_machine_cases(tier, with_alias):
    """returns (program file, cases, unsupported function names)"""
    import os, subprocess
    sc = vlib.scratch()
    prog = os.path.join(sc, "tower_prog.ndjson")
    p = subprocess.run(["python3", os.path.join(vlib.VERIF, "tools", "extract_tower.py"), prog], stdout=subprocess.PIPE, stderr=subprocess.STDOUT, text=True,
                       env=dict(os.environ, VERIF_REPO=vlib.REPO))
    if p.returncode != 0: raise vlib.Infra("extract_tower failed: " + p.stdout[-500:])
    rows = vlib.read_ndjson(prog)
    cases, unsupported = [], []
    nseed = 3 if tier == "quick" else 12
    for r in rows:
        if "steps" not in r:
            unsupported.append("%s::%s (%s)" % (r["cls"], r["name"], r.get("unsupported", "")[:50])); continue
        if r["name"] == "norm" or r.get("ovl", 1) != 1: continue
        has_b = any(q["name"] == "b" and q["type"] == r["cls"] for q in r["params"])
        b_restrict = any(q["name"] == "b" and q["restrict"] for q in r["params"])
        a_ok = r["params"] and r["params"][0]["type"] == r["cls"] and not r["params"][0]["restrict"]
        aliases = [0]
        if with_alias:
            if a_ok: aliases.append(1)
            if has_b and not b_restrict: aliases += [2, 3]
        for al in aliases:
            for seed in range(1, nseed + 1):
                cases.append({"op": "tm.case", "cls": r["cls"], "name": r["name"], "alias": al, "seed": seed + 100 * (vlib.seed() % 50), "src": "source-extracted", "cfg": "source"})
        if tier == "thorough" and r["cls"] == "Fq2" and not with_alias and r["name"] in ("multiply", "add", "subtract"):
            for x in range(0, 361):
                cases.append({"op": "tm.all2", "cls": "Fq2", "name": r["name"], "alias": 0, "x": x, "src": "source-extracted", "cfg": "source"})
    return prog, cases, unsupported

def tower_machine(run, tier, with_alias):
    """runs the cases through Trace_TowerMachine; returns (cases, fails, unsupported)"""
    import os
    prog, cases, unsupported = tower_machine_cases(tier, with_alias)
    tf = os.path.join(vlib.scratch(), "tm.%s.trace.ndjson" % ("alias" if with_alias else "value"))
    vlib.write_ndjson(tf, cases)
    fails = run.validate("Trace_TowerMachine", [tf], env={"TOWERPROG": prog}, timeout=3000)
    run.configs.add("source (TowerMachine, toy field F_19)")
    return cases, fails, unsupported
