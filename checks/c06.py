"""C06 - scalar multiplication returns [k]P for every scalar and every algorithm."""
import os
import vlib, fam_consts
from engine import Run, replay_event
from fam_curve import CURVE, key_of, class_of, confirm_factory

RULE = ("cases = TLC-enumerated scalar families (small values, 2^k +- j for every boundary k below the width and j <= 17, 2^bits - j, "
        "multiples of r and neighbours, powers of |x| and neighbours, both cofactors, pseudo-random) x routine (accelerated G1/G2 entry "
        "points through C++ and C API, wNAF, table, double-and-add, statically dispatched multiply) x width 64/128/256/512 x base "
        "(generator, non-normalised multiple, affine, curve point outside the subgroup where the routine does not use the eigenvalue), "
        "plus digit strings of the recoding and the base-|x| decomposition; validated by TLC against double-and-add on the affine law "
        "and exact recombination. distinct = (op, group, routine, width, window, API, affine, configuration, scalar class)")

def run(tier):
    run = Run("C06", tier)
    fam_consts.audit(run, tier)          # the numeric constants this property rests on, from the source text (MC_Consts)
    sc = vlib.scratch()
    # the recoding as a state machine with a fixed-width accumulator: all scalars of small widths
    for cfg in (["MC_Recode_b6w2TRUE", "MC_Recode_b8w4TRUE"] if tier == "quick" else ["MC_Recode_b6w2TRUE", "MC_Recode_b8w4TRUE", "MC_Recode_b10w3TRUE", "MC_Recode_b10w4TRUE"]):
        run.mc("ScalarRecode", cfg + ".cfg", timeout=600)
    # the as-shipped recoding (carry dropped) must be *rejected* by the model: shows the invariants are not vacuous
    r = run.mc("ScalarRecode", "MC_Recode_b8w4FALSE.cfg", timeout=600, expect_ok=False)
    if not r.violation:
        raise vlib.Infra("the recoding model without carry propagation was not rejected: invariants vacuous?")
    # the G1 decomposition (caller, rounding by the reciprocal, truncations, signs) with its register widths on toy BLS12 members:
    # every scalar of the accepted width, including those >= r that the caller passes on unreduced; broken variants must be rejected
    for cfg in (["x3shippedFALSE", "x4shippedTRUE"] if tier == "quick" else ["x3shippedFALSE", "x4shippedTRUE", "x7shippedTRUE", "x4reduced-callerTRUE"]):
        run.mc("GlvDecompose", "MC_Glv_%s.cfg" % cfg[:-5 if cfg.endswith("FALSE") else -4], timeout=600)
    for bad in ("x4drop-b1", "x4c1-sign", "x4basis-off"):
        r = run.mc("GlvDecompose", "MC_Glv_%s.cfg" % bad, timeout=600, expect_ok=False)
        if "Invariant Recombines is violated" not in r.out:
            raise vlib.Infra("GlvDecompose variant %s was not rejected: invariants vacuous?" % bad)
    # unbounded (TLAPS): the decomposition recombines for every scalar, every rounding and every parameter set satisfying the identities MC_Consts checks
    vlib.tlapm_note(run, "GlvTheorem", "TLAPS proof (tlapm, Z3): GlvRecombines, PowXRecombines")
    # the multiplication loops themselves (table fill, digit-driven double/add, the interleaved two- and four-scalar loops with their index
    # bounds and sign rules) on a group where the answer is an integer: every scalar of the accepted width; broken variants must be rejected
    for cfg in (["single_b8w4", "single_b10w2", "glv_x4", "powx_x5"] if tier == "quick" else
                ["single_b8w4", "single_b10w2", "single_b10w3", "single_b12w4", "glv_x3", "glv_x4", "glv_x7", "powx_x5", "powx_x7", "powx_x13"]):
        run.mc("WnafMul", "MC_Wnaf_%s.cfg" % cfg, timeout=900)
    for bad in ("bad_powx", "bad_glv", "bad_single"):
        r = run.mc("WnafMul", "MC_Wnaf_%s.cfg" % bad, timeout=600, expect_ok=False)
        if "Invariant Correct is violated" not in r.out:
            raise vlib.Infra("WnafMul variant %s was not rejected: invariants vacuous?" % bad)
    cases = run.generate("Gen_Curve", "scalars", env={"WHAT": "scalars"})
    traces = []
    for cfg in (["asm", "p32"] if tier == "quick" else ["asm", "p64", "p32"]):
        cs = cases
        if tier == "quick" and cfg != "asm":
            cs = os.path.join(sc, "sc.%s.cases.ndjson" % cfg)
            with open(cases) as f, open(cs, "w") as o:
                for i, line in enumerate(f):
                    # the recoding / decomposition cases are cheap and word-size sensitive: always; the multiplications by pseudo-random fifths
                    if '"op":"powx.decompose"' in line or '"op":"wnaf.recode"' in line or '"op":"mul.powx"' in line or vlib.pick_hash(i, 5, vlib.seed()): o.write(line)
        out = os.path.join(sc, "sc.%s.trace.ndjson" % cfg)
        run.drive(CURVE, cfg, ["replay", cs, out]); traces.append(out)
    nrand = 100 if tier == "quick" else 2000
    out = os.path.join(sc, "sc.rand.trace.ndjson")
    run.drive(CURVE, "asm", ["random", vlib.seed() * 17 + 5, nrand, out]); traces.append(out)
    fails = run.validate(CURVE, traces, timeout=3000)
    run.count_classes(traces, class_of)
    run.classify(fails, key_of, confirm_factory(run))
    run.assumptions += ["GLV and base-|x| decompositions are checked through their results at full size; toy-parameter exhaustive instances are planned"]
    return run.finish(RULE, "ScalarRecode: all scalars for (bits,w) in {(6,2),(8,4)[,(10,3),(10,4)]}")

def replay(path):
    return replay_event("C06", path, CURVE, key_of)
