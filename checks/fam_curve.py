"""curve-layer family: drv_curve + Trace_Curve (C05, C06, C18, C19)"""
import vlib
from engine import Family, rerun
CURVE = Family("drv_curve", ["drv_curve.cpp"], "Trace_Curve")

def scalar_class(ev):
    k = ev.get("k")
    if not isinstance(k, list): return "-"
    n = vlib.from_le(k); bits = 8 * len(k)
    if n < 64: return "small%d" % n
    d = (1 << bits) - n
    if d <= 17: return "2^bits-%d" % d
    for e in (32, 64, 128, 192, 255, 256, 384, 511):
        if abs(n - (1 << e)) <= 17: return "2^%d%+d" % (e, n - (1 << e))
    return "len%d" % n.bit_length()

def key_of(ev, labels):
    op = ev.get("op")
    if op in ("mul.gen", "mul.fast"):
        return "%s:g%s:%s:%s:%s:affine%s:%s:%s:%s" % (op, ev.get("g"), ev.get("routine", "fast"), ev.get("bits", 256), ev.get("api"), ev.get("affine"), ev.get("cfg"), scalar_class(ev), "+".join(labels))
    if op in ("wnaf.recode", "powx.decompose"):
        return "%s:%s:w%s:%s:%s:%s" % (op, ev.get("bits", 256), ev.get("window", "-"), ev.get("cfg"), scalar_class(ev), "+".join(labels))
    return "%s:g%s:%s:%s:alias%s:%s:%s" % (op, ev.get("g"), ev.get("rel"), ev.get("api"), ev.get("alias", 0), ev.get("cfg"), "+".join(labels))

def zclass(j):
    """representation class of a Jacobian triple: z = 0 / z = 1 (Montgomery one) / other"""
    try:
        z = j[2]
        flat = z if isinstance(z[0], int) else z[0] + z[1]
        if all(b == 0 for b in flat): return "z0"
        return "z"
    except Exception:
        return "-"

def class_of(ev):
    op = ev.get("op")
    if op in ("mul.gen", "mul.fast", "wnaf.recode", "powx.decompose"):
        return (op, ev.get("g"), ev.get("routine"), ev.get("bits"), ev.get("window"), ev.get("api"), ev.get("affine"), ev.get("cfg"), scalar_class(ev))
    return (op, ev.get("g"), ev.get("rel"), ev.get("api"), ev.get("alias"), ev.get("cfg"), zclass(ev.get("a")), zclass(ev.get("b")), ev.get("src"))

def confirm_factory(run):
    def confirm(ev, labels):
        try:
            return bool([l for l in rerun(run, CURVE, ev) if not l.startswith("diag.")])
        except vlib.Infra:
            return True
    return confirm
