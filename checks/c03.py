"""C03 - all field-arithmetic back ends compute the same function."""
import os, json
import vlib
from engine import Run, replay_event
from fam_field import FIELD, key_of, class_of, confirm_factory, filter_cases

RULE = ("raw 384/768-bit primitives (add, subtract, double, multiply, square, modular add/subtract/double, Montgomery reduction) "
        "and the Fq/Fr operations on the TLC-generated boundary/sum-targeted/reduce-input families, executed through the C++ members "
        "and directly through the x86-64 baseline and BMI2/ADX entry points, on asm / asm-with-baseline-dispatch / portable-64 / "
        "portable-32 builds, output aliased to the first operand or not; each result and flag validated by TLC against integer "
        "arithmetic (Trace_Field.tla), then compared bit for bit across back ends. distinct = (operation, impl, alias, configuration, "
        "back end, operand classes)")

def run(tier):
    run = Run("C03", tier)
    sc = vlib.scratch()
    # design level: generic shape = early-decision (assembly) shape = integer definition, exhaustively for small (W,N)
    for cfg in (["MC_WordArith_w2n2", "MC_WordArith_w2n3", "MC_WordArith_w3n2"] if tier == "quick" else
                ["MC_WordArith_w2n2", "MC_WordArith_w2n3", "MC_WordArith_w3n2", "MC_WordArith_w4n2"]):
        run.mc("MC_WordArith", cfg + ".cfg", timeout=2400)
    cases = run.generate("Gen_Field", "field", env={"TIER": "thorough" if tier == "thorough" else "quick"})
    traces = []
    backends = [("asm", None), ("asm", "base"), ("p64", None), ("p32", None)]
    for cfg, backend in backends:
        out = os.path.join(sc, "all.%s.%s.trace.ndjson" % (cfg, backend or "d"))
        run.drive(FIELD, cfg, ["replay", cases, out] + ([backend] if backend else []))
        traces.append(out)
    nrand = 1000 if tier == "quick" else 20000
    for i, (cfg, backend) in enumerate(backends):
        out = os.path.join(sc, "rand.%s.%s.trace.ndjson" % (cfg, backend or "d"))
        # same seed on every back end: identical inputs, so outputs must be identical as well
        run.drive(FIELD, cfg, ["random", vlib.seed() * 77, nrand, out] + ([backend] if backend else []))
        traces.append(out)
    fails = run.validate(FIELD, traces)
    run.count_classes(traces, class_of)
    # bit-identity across back ends for identical inputs (follows from each being equal to the specification's
    # unique value, except where the specification admits several answers, e.g. square roots)
    # the comparison *rule* is C02's subject; here only consistency across back ends matters
    fails = [(e, l) for e, l in fails if not (e.get('op') == 'fp.cmp' and l == ['cmp.integer-order'])]
    seen = {}
    mism = []
    for tp in traces:
        for line in open(tp):
            ev = json.loads(line)
            if ev["op"] == "raw.dispatch": continue
            ident = json.dumps({k: v for k, v in ev.items() if k not in ("cfg", "backend", "out", "impl", "src")}, sort_keys=True)
            o = json.dumps(ev["out"], sort_keys=True)
            if ident in seen and seen[ident][0] != o:
                mism.append((ev, seen[ident][1]))
            seen.setdefault(ident, (o, ev))
    for ev, other in mism:
        fails.append((ev, ["backends-differ"]))
    run.extra["cross_backend_groups_compared"] = len(seen)
    run.extra["configs_uncovered"] = ["aarch64 assembly (not executable here; see DESIGN.md C03)", "armv6-m assembly (cannot be assembled here)"]
    run.classify(fails, key_of, confirm_factory(run))
    run.assumptions += ["AArch64 and ARMv6-M assembly sources are not executed (no assembler/emulator for them in this sandbox); "
                        "their algorithm shapes are covered by MC_WordArith only"]
    return run.finish(RULE, "MC_WordArith: shapes equal for all operands and admissible moduli at (W,N) in {(2,2),(2,3),(3,2)[,(4,2)]}")

def replay(path):
    return replay_event("C03", path, FIELD, key_of)
