"""C03 - all field-arithmetic back ends compute the same function."""
import os, json
import vlib
from engine import Run, replay_event
from fam_field import FIELD, key_of, class_of, confirm_factory, filter_cases

RULE = ("raw 384/768-bit primitives (add, subtract, double, multiply, square, modular add/subtract/double, Montgomery reduction) "
        "and the Fq/Fr operations on the TLC-generated boundary/sum-targeted/reduce-input families, executed through the C++ members "
        "and directly through the x86-64 baseline and BMI2/ADX entry points, on asm / asm-with-baseline-dispatch / portable-64 / "
        "portable-32 builds, output aliased to the first operand or not; each result and flag validated by TLC against integer "
        "arithmetic (Trace_Field.tla), then compared bit for bit across back ends. distinct = (operation, impl, alias, configuration, "
        "back end, operand classes)")

def run(tier):
    run = Run("C03", tier)
    sc = vlib.scratch()
    # design level: generic shape = early-decision (assembly) shape = integer definition, exhaustively for small (W,N)
    for cfg in (["MC_WordArith_w2n2", "MC_WordArith_w2n3", "MC_WordArith_w3n2"] if tier == "quick" else
                ["MC_WordArith_w2n2", "MC_WordArith_w2n3", "MC_WordArith_w3n2", "MC_WordArith_w4n2"]):
        run.mc("MC_WordArith", cfg + ".cfg", timeout=2400)
    cases = run.generate("Gen_Field", "field", env={"TIER": "thorough" if tier == "thorough" else "quick"})
    traces = []
    backends = [("asm", None), ("asm", "base"), ("p64", None), ("p32", None)]
    for cfg, backend in backends:
        out = os.path.join(sc, "all.%s.%s.trace.ndjson" % (cfg, backend or "d"))
        run.drive(FIELD, cfg, ["replay", cases, out] + ([backend] if backend else []))
        traces.append(out)
    nrand = 1000 if tier == "quick" else 20000
    for i, (cfg, backend) in enumerate(backends):
        out = os.path.join(sc, "rand.%s.%s.trace.ndjson" % (cfg, backend or "d"))
        # same seed on every back end: identical inputs, so outputs must be identical as well
        run.drive(FIELD, cfg, ["random", vlib.seed() * 77, nrand, out] + ([backend] if backend else []))
        traces.append(out)
    fails = run.validate(FIELD, traces)
    run.count_classes(traces, class_of)
    # bit-identity across back ends for identical inputs (follows from each being equal to the specification's
    # unique value, except where the specification admits several answers, e.g. square roots)
    # the comparison *rule* is C02's subject; here only consistency across back ends matters
    fails = [(e, l) for e, l in fails if not (e.get('op') == 'fp.cmp' and l == ['cmp.integer-order'])]
    seen = {}
    mism = []
    for tp in traces:
        for line in open(tp):
            ev = json.loads(line)
            if ev["op"] == "raw.dispatch": continue
            ident = json.dumps({k: v for k, v in ev.items() if k not in ("cfg", "backend", "out", "impl", "src")}, sort_keys=True)
            o = json.dumps(ev["out"], sort_keys=True)
            if ident in seen and seen[ident][0] != o:
                mism.append((ev, seen[ident][1]))
            seen.setdefault(ident, (o, ev))
    for ev, other in mism:
        fails.append((ev, ["backends-differ"]))
    run.extra["cross_backend_groups_compared"] = len(seen)
    # AArch64: the assembled routines of the tree under test are executed by TLC (IsaA64.tla) on the same raw-primitive vectors
    a64_fails, a64_note = aarch64(run, cases, tier)
    fails += a64_fails
    run.extra["configs_uncovered"] = ["armv6-m assembly (pre-UAL syntax: cannot be assembled here)"] + ([a64_note] if a64_note else [])
    def conf(ev, labels):
        if ev.get("cfg") == "a64": return True          # TLC's execution of the listing is deterministic
        return confirm_factory(run)(ev, labels)
    run.classify(fails, key_of, conf)
    run.assumptions += ["the AArch64 back end is executed by an ISA-subset semantics written in TLA+ (IsaA64.tla: 15 mnemonics, flags C and Z, "
                        "64-bit word memory) on llvm-objdump's listing of the assembled sources, not on hardware",
                        "ARMv6-M assembly is not executed or assembled (no tool accepts its syntax here); its algorithm shape is covered by MC_WordArith only"]
    return run.finish(RULE, "MC_WordArith: shapes equal for all operands and admissible moduli at (W,N) in {(2,2),(2,3),(3,2)[,(4,2)]}")

A64_OPS = ("raw.add", "raw.sub", "raw.shl1", "raw.mul", "raw.sqr", "raw.redc", "raw.fpmul", "raw.fpsqr")
def aarch64(run, cases, tier):
    """returns (fails, note); note is set when the configuration could not be covered (never a violation)"""
    import subprocess, random
    sc = vlib.scratch()
    d = os.path.join(sc, "a64")
    p = subprocess.run(["python3", os.path.join(vlib.VERIF, "tools", "a64_listing.py"), d], stdout=subprocess.PIPE, stderr=subprocess.STDOUT, text=True,
                       env=dict(os.environ, VERIF_REPO=vlib.REPO))
    if p.returncode != 0:
        return [], "aarch64 assembly: could not be assembled/disassembled here (%s)" % p.stdout.strip()[-200:]
    rows = [c for c in vlib.read_ndjson(cases) if c.get("op") in A64_OPS and c.get("impl", "member") == "member"]
    for c in rows: c["cfg"] = "a64"; c.pop("impl", None)
    if tier == "quick":
        by = {}
        for c in rows: by.setdefault((c["op"], c.get("alias", 0)), []).append(c)
        rnd = random.Random(vlib.seed()); rows = []
        for k in sorted(by): rnd.shuffle(by[k]); rows += by[k][:16]
    tf = os.path.join(sc, "a64.trace.ndjson"); vlib.write_ndjson(tf, rows)
    fails = run.validate("Trace_A64", [tf], env={"A64LIST": os.path.join(d, "a64.ndjson")}, timeout=3400)
    run.configs.add("a64 (executed by TLC)")
    for c in rows: run.classes.add((c["op"], "a64", c.get("alias", 0), "a64", None, "gen", None, None))
    note = None
    if "UNMODELLED" in p.stdout: note = "aarch64 assembly: instructions outside the modelled subset: " + p.stdout.strip()[-300:]
    run.extra["aarch64_vectors_executed"] = len(rows)
    return fails, note

def replay(path):
    d = json.load(open(path))
    if d.get("event", {}).get("cfg") == "a64":
        run = Run("C03", "quick")
        sc = vlib.scratch()
        one = os.path.join(sc, "one.cases.ndjson"); vlib.write_ndjson(one, [dict(d["event"], impl="member")])
        fails, note = aarch64(run, one, "thorough")
        if fails:
            print("VIOLATION property=C03 replay=%s" % path); print("  labels=%s" % fails[0][1]); return 1
        print("replay: event accepted" + (" (%s)" % note if note else "")); return 0
    return replay_event("C03", path, FIELD, key_of)
