"""C17 - untrusted bytes and valid calls never cause out-of-bounds access or undefined behaviour."""
import os, re, json, subprocess
import vlib
from engine import Run, replay_event, Family
from fam_marshal import MAR, key_of, class_of, confirm_factory

RULE = ("(1) MC of the bounds arithmetic: Marshal.tla, every buffer length <= 4096: reads stay inside the buffer, writes inside the slot array of "
        "the reported size, accepted buffers have exactly the length of the object. (2) guard pages: for every n in 1..N x {params, secret key} x "
        "encoding x checked/unchecked x first byte {0,1,255} x content {zeros, valid object truncated/extended, random} the documented caller protocol "
        "runs with the input buffer ending at a PROT_NONE page and the slot array of exactly the reported size ending at another; TLC checks the "
        "reported slot count for every n, absence of faults and accepted => re-marshals to n bytes. (3) observers: the conformance drivers of the other "
        "properties run on AddressSanitizer+UBSan builds with heap buffers (real alignment); every sanitizer report is a violation keyed by its "
        "source location. distinct = guard-page classes (kind, encoding, checked, first byte, content, configuration) + sanitizer (driver, cfg) runs")

OBS = [("drv_marshal", "Gen_Marshal", {"WHAT": "objects"}), ("drv_marshal", "Gen_Marshal", {"WHAT": "bytes"}), ("drv_marshal", "Gen_Marshal", {"WHAT": "sweep", "NMAX": "400"}),
       ("drv_wkdibe", "Gen_WkdIbe", {"FAMILY": "deleg", "KEEP": "400"}), ("drv_wkdibe", "Gen_WkdIbe", {"FAMILY": "adjust", "KEEP": "200"}), ("drv_wkdibe", "Gen_WkdIbe", {"FAMILY": "sig", "KEEP": "10"}),
       ("drv_codec", "Gen_Codec", {"WHAT": "enc"}), ("drv_codec", "Gen_Codec", {"WHAT": "hash"})]
OBS_THOROUGH = [("drv_curve", "Gen_Curve", {"WHAT": "points"}), ("drv_curve", "Gen_Curve", {"WHAT": "scalars", "TIER": "quick"}), ("drv_field", "Gen_Field", {"TIER": "quick"}),
                ("drv_tower", "Gen_Tower", {"TIER": "quick"}), ("drv_pairing", "Gen_Pairing", {"WHAT": "single"}), ("drv_pairing", "Gen_Pairing", {"WHAT": "sum"}),
                ("drv_pairing", "Gen_Pairing", {"WHAT": "gt"})]

def observe(run, drv, cfg, cases, reports):
    fam = Family(drv, [drv + ".cpp"], None)
    exe = fam.exe(cfg)
    out = os.path.join(vlib.scratch(), "san.%s.%s.out" % (drv, cfg))
    env = dict(os.environ, VERIF_HEAP_BUFFERS="1", ASAN_OPTIONS="detect_leaks=0:handle_segv=0:handle_sigbus=0:halt_on_error=0", UBSAN_OPTIONS="print_stacktrace=0")
    try:
        p = subprocess.run([exe, "replay", cases, out], stdout=subprocess.PIPE, stderr=subprocess.STDOUT, text=True, env=env, timeout=3000, errors="replace")
    except subprocess.TimeoutExpired:
        raise vlib.Infra("sanitizer run of %s/%s timed out" % (drv, cfg))
    run.configs.add(cfg)
    text = p.stdout
    for m in re.finditer(r"^(\S+?):(\d+):\d+: runtime error: (.*)$", text, re.M):
        what = re.sub(r"0x[0-9a-f]+", "ADDR", m.group(3)); what = re.sub(r"\s+", " ", what)[:90]
        src = m.group(1).replace(vlib.REPO + "/", "")
        if src.startswith("/verif/") or "/harness/" in src: continue          # the driver's own code is not the subject
        reports.setdefault(("ubsan", src, int(m.group(2)), what), (drv, cfg, cases))
    for m in re.finditer(r"ERROR: AddressSanitizer: (\S+).*?\n(?:.*\n){0,12}?\s+#\d+ \S+ in (\S+) (\S+?):(\d+)", text):
        reports.setdefault(("asan", m.group(3).replace(vlib.REPO + "/", ""), int(m.group(4)), m.group(1)), (drv, cfg, cases))
    if "AddressSanitizer" in text and not any(k[0] == "asan" for k in reports):
        reports.setdefault(("asan", "unknown", 0, text[text.find("AddressSanitizer"):][:200]), (drv, cfg, cases))
    if p.returncode not in (0,):
        reports.setdefault(("crash", drv, p.returncode, text[-300:]), (drv, cfg, cases))
    return len(text.splitlines())

def run(tier):
    run = Run("C17", tier)
    sc = vlib.scratch()
    run.mc("Marshal", "MC_Marshal.cfg", timeout=600)
    # guard-page sweeps
    nmax = 1200 if tier == "quick" else 4096
    cases = run.generate("Gen_Marshal", "sweep", env={"WHAT": "sweep", "NMAX": nmax})
    traces = []
    for cfg in (["asm"] if tier == "quick" else ["asm", "p64", "p32"]):
        out = os.path.join(sc, "sweep.%s.trace.ndjson" % cfg)
        run.drive(MAR, cfg, ["replay", cases, out], timeout=3000); traces.append(out)
    bcases = run.generate("Gen_Marshal", "bytes", env={"WHAT": "bytes"})
    out = os.path.join(sc, "bytes.p32.trace.ndjson"); run.drive(MAR, "p32", ["replay", bcases, out]); traces.append(out)
    fails = run.validate(MAR, traces, timeout=3000)
    run.count_classes(traces, class_of)
    run.classify(fails, key_of, confirm_factory(run))
    # sanitizer observers
    reports = {}
    nobs = 0
    plan = [(o, "asm-san") for o in OBS]
    if tier == "thorough":
        plan += [(o, "asm-san") for o in OBS_THOROUGH] + [(o, c) for o in OBS + OBS_THOROUGH[:4] for c in ("p64-san", "p32-san")]
    gen_cache = {}
    if tier == "quick":
        # a slice of the scalar-multiplication cases (every routine and width, scalars 0, 1 and the all-ones value): empty and full digit buffers
        plan.append((("drv_curve", "Gen_Curve", {"WHAT": "scalars", "TIER": "quick", "_slice": "edge-scalars"}), "asm-san"))
        # pairing products taken more than once over the same pair records (prepared operands are walked with a cursor kept in the record)
        plan.append((("drv_pairing", "Gen_Pairing", {"WHAT": "sum", "_slice": "reused-pairs"}), "asm-san"))
    for (drv, gen, env), cfg in plan:
        k = (gen, json.dumps(env, sort_keys=True))
        if k not in gen_cache:
            genv = {a: b for a, b in env.items() if not a.startswith("_")}
            gen_cache[k] = run.generate(gen, "san%d" % len(gen_cache), env=genv, timeout=1500)
            if env.get("_slice") == "edge-scalars":
                def edge(e):
                    kk = e.get("k")
                    return e.get("op") in ("mul.gen", "mul.fast", "wnaf.recode") and isinstance(kk, list) and (not any(kk) or kk == [1] + [0] * (len(kk) - 1) or all(x == 255 for x in kk))
                rows = [e for e in vlib.read_ndjson(gen_cache[k]) if edge(e)]
                sl = gen_cache[k] + ".slice"; vlib.write_ndjson(sl, rows); gen_cache[k] = sl
            if env.get("_slice") == "reused-pairs":
                rows = [e for e in vlib.read_ndjson(gen_cache[k]) if e.get("op") == "pair.sum" and e.get("rounds", 1) >= 2
                        and any(x.get("kind") == "prepared" for x in e.get("entries", []))][:16]
                sl = gen_cache[k] + ".slice"; vlib.write_ndjson(sl, rows); gen_cache[k] = sl
        observe(run, drv, cfg, gen_cache[k], reports); nobs += 1
        run.classes.add(("sanitizer-run", drv, cfg, json.dumps(env, sort_keys=True)))
    run.extra["sanitizer_runs"] = nobs
    run.extra["sanitizer_reports"] = [list(k) for k in sorted(reports, key=str)]
    for k, (drv, cfg, cs) in sorted(reports.items(), key=str):
        key = "sanitizer:%s:%s:%s:%s" % (k[0], k[1], k[2], k[3])
        if key in run.known:
            run.known_hits[key] = run.known_hits.get(key, 0) + 1; continue
        path = vlib.save_replay("C17", re.sub(r"[^A-Za-z0-9_.-]", "_", key)[:90], {"property": "C17", "key": key, "sanitizer": list(k), "driver": drv, "cfg": cfg,
                                "note": "re-run the driver on the sanitizer build with the generator's cases"})
        run.violations.append((key, {"driver": drv, "cfg": cfg}, [k[0]], path))
    run.level = "model_checking"
    run.assumptions += ["'no other undefined behaviour anywhere' is observed by the sanitizers on specification-generated call sequences (exploration), "
                        "the buffer-bounds arithmetic is decided by the specification",
                        "x86-64 does not fault on misaligned accesses; alignment is observed through UBSan with heap buffers"]
    return run.finish(RULE, "Marshal.tla: every n in 1..4096")

def replay(path):
    d = json.load(open(path))
    if "sanitizer" in d:
        print("sanitizer finding %s: re-run bin/check C17 quick to reproduce" % d["key"]); return 1
    return replay_event("C17", path, MAR, key_of)
