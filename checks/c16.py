"""C16 - LQ-IBE: decryption re-derives the encryption key, bound to the identity."""
import os
import vlib
from engine import Run, replay_event, Family, rerun
LQ = Family("drv_lqibe", ["drv_lqibe.cpp"], "Trace_LqIbe")

RULE = ("cases = TLC-enumerated identity hashes (zero, around q, all ones, flag bits set, pseudo-random) x master scalars {1, r-1, r, r+1, 2^256-1, random} "
        "x key lengths {0, 1, 32, 1000} x scripted encryption randomness, through the C API; the caller-supplied hash function records the exact bytes it "
        "is given. TLC checks: identity point = cofactor multiple of the try-and-increment point and in G1; secret key = [s mod r]·identity; ciphertext = "
        "[rho]P; bytes hashed by encrypt = Enc_c(id) || Enc_c(rp) || BE(RefPairing(id, [rho s]P)) computed by the specification's own pairing; decrypt "
        "hashes the identical bytes and outputs the same key; other identity / other master key / modified ciphertext give different bytes. "
        "distinct = (hash class, master class, length, configuration)")

def key_of(ev, labels):
    diag = [l for l in labels if l.startswith("diag.")]
    labels = [l for l in labels if not l.startswith("diag.")]
    if labels == ["identity-not-at-infinity"]:
        # identified by the route: the try-and-increment point computed by the specification from the hash is (0, +-2)
        return "lq.identity-at-infinity:tai-x=%s" % ("zero" if "diag.tai-x-nonzero" in diag else "other")
    return "lq.run:%s:%s:%s" % (ev.get("cfg"), ev.get("len"), "+".join(labels))

def class_of(ev):
    h = vlib.from_le(list(reversed(ev.get("idhash", [])))); s = vlib.from_le(ev.get("s", []))
    R = 0x73eda753299d7d483339d80809a1d80553bda402fffe5bfeffffffff00000001
    return ("lq.run", "h0" if h == 0 else "hmax" if h == (1 << 384) - 1 else "h%d" % (h.bit_length() // 64), "s>=r" if s >= R else "s%d" % min(s, 9), ev.get("len"), ev.get("cfg"))

def run(tier):
    run = Run("C16", tier)
    sc = vlib.scratch()
    cases = run.generate("Gen_LqIbe", "lq")
    traces = []
    for cfg in (["asm", "p32"] if tier == "quick" else ["asm", "p64", "p32"]):
        out = os.path.join(sc, "lq.%s.trace.ndjson" % cfg)
        run.drive(LQ, cfg, ["replay", cases, out]); traces.append(out)
    fails = run.validate(LQ, traces, timeout=3000)
    fails = [(e, l) for e, l in fails if [x for x in l if not x.startswith("diag.")]]
    run.count_classes(traces, class_of)
    def confirm(ev, labels):
        try: return bool([x for x in rerun(run, LQ, ev) if not x.startswith("diag.")])
        except vlib.Infra: return True
    run.classify(fails, key_of, confirm)
    return run.finish(RULE)

def replay(path):
    return replay_event("C16", path, LQ, key_of)
