"""pairing / GT family: drv_pairing + Trace_Pairing (C01, C07, C08)"""
import vlib
from engine import Family, rerun
PAIR = Family("drv_pairing", ["drv_pairing.cpp"], "Trace_Pairing")

def kclass(ev):
    k = ev.get("k")
    if not isinstance(k, list): return "-"
    n = vlib.from_le(k)
    r = 0x73eda753299d7d483339d80809a1d80553bda402fffe5bfeffffffff00000001
    if n < 8: return "k%d" % n
    if abs(n - r) <= 2: return "r%+d" % (n - r)
    if abs(n - 2 * r) <= 2: return "2r%+d" % (n - 2 * r)
    if (1 << 256) - n <= 2: return "2^256-%d" % ((1 << 256) - n)
    return "len%d%s" % (n.bit_length(), ">=r" if n >= r else "")

def key_of(ev, labels):
    labels = [l for l in labels if not l.startswith("diag.")]
    op = ev.get("op")
    if op == "pair.sum":
        return "pair.sum:a%s:p%s:mask%s:%s:%s" % (ev.get("na"), ev.get("np"), "".join(str(m)[0] for m in ev.get("mask", [])), ev.get("cfg"), "+".join(labels))
    return "%s:%s:%s:%s:alias%s:%s:%s:%s" % (op, ev.get("variant", ev.get("which", "-")), ev.get("cls", ev.get("tag", "-")), kclass(ev), ev.get("alias", 0), ev.get("cfg"), ev.get("src"), "+".join(labels))

def class_of(ev):
    op = ev.get("op")
    if op == "pair.sum":
        return (op, ev.get("na"), ev.get("np"), tuple(ev.get("mask", [])), ev.get("rounds"), ev.get("cfg"))
    return (op, ev.get("variant", ev.get("which")), ev.get("cls", ev.get("tag")), kclass(ev), ev.get("alias"), ev.get("cfg"), ev.get("src"), len(ev.get("out", {}).get("reqs", [])))

def gating(fails):
    out = []
    for ev, labels in fails:
        g = [l for l in labels if not l.startswith("diag.")]
        if g: out.append((ev, g))
    return out

def confirm_factory(run):
    def confirm(ev, labels):
        try:
            return bool([l for l in rerun(run, PAIR, ev) if not l.startswith("diag.")])
        except vlib.Infra:
            return True
    return confirm

def only_ops(src, dst, prefixes):
    with open(src) as f, open(dst, "w") as o:
        for line in f:
            if any(('"op":"%s' % p) in line for p in prefixes): o.write(line)
