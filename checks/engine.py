"""Conformance engine shared by all property checks: TLC model-checking runs, TLC case generation,
replay into the implementation, recording, TLC trace validation, classification of rejected
lines (re-run before reporting; known-findings filter), evidence."""
import os, sys, re, json, time, subprocess
import vlib
from vlib import Infra, log

class Family:
    """a driver + the trace specification that validates what it records"""
    def __init__(self, name, sources, trace_module, cfgs=("asm", "p64", "p32"), guard=True, libs=()):
        self.name, self.sources, self.trace_module, self.cfgs, self.guard, self.libs = name, sources, trace_module, cfgs, guard, libs
    def exe(self, cfg):
        return vlib.build_driver(self.name, cfg, self.sources, guard=self.guard,
                                 extra_flags=['-DVERIF_CFG="%s"' % cfg], libs=self.libs)

class Run:
    def __init__(self, prop, tier, level="model_checking"):
        self.prop, self.tier, self.level = prop, tier, level
        self.t0 = time.time()
        self.states = 0; self.transitions = 0
        self.mc_runs = []            # (module, cfg, distinct, generated, wall)
        self.traces = 0              # traces validated against the implementation
        self.events = 0              # trace lines validated
        self.classes = set()         # distinct case classes exercised (see class_of)
        self.samples = []
        self.violations = []         # (key, event, labels, replay_path)
        self.known_hits = {}         # key -> count
        self.notes = []
        self.configs = set()
        self.assumptions = []
        self.extra = {}
        self.known = {e["key"]: e for e in vlib.known_findings(prop)}
        self.crashes = []            # (family, cfg, args) of driver runs that crashed reproducibly

    # ---- model checking ------------------------------------------------------------------
    def mc(self, module, cfg=None, env=None, timeout=900, workers=None, heap="8g", expect_ok=True):
        r = vlib.tlc(module, cfg, env=env, timeout=timeout, workers=workers, heap=heap)
        self.states += r.distinct; self.transitions += r.generated
        self.mc_runs.append({"module": module, "cfg": cfg or module + ".cfg", "distinct_states": r.distinct,
                             "states_generated": r.generated, "wall_s": round(r.wall, 1)})
        if expect_ok and not r.ok:
            raise Infra("model checking run %s/%s did not complete cleanly:\n%s" % (module, cfg, r.out[-3000:]))
        return r

    # ---- generation ------------------------------------------------------------------------
    def generate(self, module, name, env=None, timeout=900, heap="8g"):
        out = os.path.join(vlib.scratch(), name + ".cases.ndjson")
        e = {"OUT": out, "TIER": self.tier, "SEED": vlib.seed()}
        if env: e.update(env)
        r = vlib.tlc(module, None, env=e, timeout=timeout, workers=1, heap=heap)
        if r.rc != 0 or not os.path.exists(out):
            raise Infra("generator %s failed:\n%s" % (module, r.out[-3000:]))
        self.mc_runs.append({"module": module, "role": "generator", "wall_s": round(r.wall, 1)})
        return out

    # ---- implementation side ------------------------------------------------------------------
    def drive(self, fam, cfg, args, timeout=900, env=None, ok_codes=(0,)):
        exe = fam.exe(cfg)
        self.configs.add(cfg)
        try:
            p = subprocess.run([exe] + [str(a) for a in args], timeout=timeout, stdout=subprocess.PIPE, stderr=subprocess.STDOUT, text=True,
                               env=dict(os.environ, **(env or {})))
        except subprocess.TimeoutExpired:
            raise Infra("driver %s/%s timed out" % (fam.name, cfg))
        if p.returncode == 4:
            # the driver's crash handler fired (SIGSEGV/SIGBUS/SIGFPE/SIGABRT/terminate inside the library on a generated case):
            # repeat once; a reproducible crash is a violation of the property under check, not an infrastructure failure
            p2 = subprocess.run([exe] + [str(a) for a in args], timeout=timeout, stdout=subprocess.PIPE, stderr=subprocess.STDOUT, text=True,
                                env=dict(os.environ, **(env or {})))
            if p2.returncode == 4:
                self.crashes.append((fam, cfg, [str(a) for a in args]))
                return p2
            p = p2
        if p.returncode not in ok_codes:
            raise Infra("driver %s/%s exited %d: %s" % (fam.name, cfg, p.returncode, p.stdout[-2000:]))
        return p

    # ---- trace validation ------------------------------------------------------------------------
    CHUNK = 50000        # trace lines per TLC run (the whole file is deserialised into TLC values: memory, not time, is the limit)
    CHUNK_BYTES = 40 * 1024 * 1024
    def validate(self, fam_or_module, trace_paths, timeout=1800, heap="8g", env=None, workers=None):
        """concatenate the traces, let TLC validate every line; returns list of (event, labels).  Long traces are validated in chunks."""
        total = 0
        nbytes = sum(os.path.getsize(tp) for tp in trace_paths)
        for tp in trace_paths:
            with open(tp) as f: total += sum(1 for line in f if line.strip())
        if total > self.CHUNK or nbytes > self.CHUNK_BYTES:
            chunks, cur, n, nb = [], None, 0, 0
            base = os.path.join(vlib.scratch(), "chunk_%d_" % len(self.mc_runs))
            for tp in trace_paths:
                with open(tp) as f:
                    for line in f:
                        if not line.strip(): continue
                        if cur is None or n >= self.CHUNK or nb >= self.CHUNK_BYTES:
                            if cur: cur.close()
                            chunks.append(base + "%d.ndjson" % len(chunks)); cur = open(chunks[-1], "w"); n = 0; nb = 0
                        cur.write(line if line.endswith("\n") else line + "\n"); n += 1; nb += len(line)
            if cur: cur.close()
            res = []
            ntr = self.traces
            for c in chunks:
                res += self._validate_one(fam_or_module, [c], timeout, heap, env, workers)
                os.remove(c)
            self.traces = ntr + len(trace_paths)
            return res
        return self._validate_one(fam_or_module, trace_paths, timeout, heap, env, workers)

    def _validate_one(self, fam_or_module, trace_paths, timeout=1800, heap="8g", env=None, workers=None):
        module = fam_or_module.trace_module if isinstance(fam_or_module, Family) else fam_or_module
        allp = os.path.join(vlib.scratch(), "trace_%d.ndjson" % (len(self.mc_runs)))
        n = 0
        with open(allp, "w") as out:
            for tp in trace_paths:
                with open(tp) as f:
                    for line in f:
                        if line.strip() and not line.startswith('{"op":"CRASH"'):
                            out.write(line if line.endswith("\n") else line + "\n"); n += 1
        if n == 0:
            if self.crashes: return []
            raise Infra("empty trace for %s" % module)
        e = {"TRACE": allp}
        if env: e.update(env)
        # A line the specification cannot even evaluate (a field the implementation did not produce, a value of the wrong shape)
        # is a rejected line, not an infrastructure failure: TLC names the line (l = N); it is recorded as "unexplained-event",
        # blanked, and validation is repeated so that the rest of the trace is still checked.
        unexplained = {}
        lines = open(allp).read().split("\n")
        for attempt in range(25):
            r = vlib.tlc(module, None, env=e, timeout=timeout, heap=heap, workers=workers)
            if r.ok: break
            m = re.search(r"Error: The behavior up to this point is:\s*State 1: <Initial predicate>\s*/\\ l = (\d+)", r.out) or \
                re.search(r"/\\ l = (\d+)\s*/\\ st = \"todo\"", r.out)
            if not m or "Error:" not in r.out or "Parsing or semantic analysis failed" in r.out:
                raise Infra("trace validation %s did not complete:\n%s" % (module, r.out[-4000:]))
            ln = int(m.group(1))
            if ln in unexplained or ln < 1 or ln > n:
                raise Infra("trace validation %s did not complete:\n%s" % (module, r.out[-4000:]))
            unexplained[ln] = json.loads(lines[ln - 1])
            # replace by a line every trace specification rejects cheaply (unknown operation), keeping line numbers stable
            lines[ln - 1] = json.dumps({"op": "unexplained", "src": "blanked"})
            with open(allp, "w") as f: f.write("\n".join(lines))
        else:
            raise Infra("trace validation %s: too many unevaluable lines" % module)
        if r.distinct < 2 * n:
            raise Infra("trace validation %s: %d lines but only %d states" % (module, n, r.distinct))
        self.states += r.distinct; self.transitions += r.generated
        self.traces += len(trace_paths); self.events += n
        self.mc_runs.append({"module": module, "role": "trace-validation", "lines": n, "distinct_states": r.distinct, "wall_s": round(r.wall, 1)})
        fails = {}
        for m in re.finditer(r'<<\s*"FAIL",\s*(\d+),\s*\{([^}]*)\}\s*>>', r.out.replace("\n", " ")):
            fails[int(m.group(1))] = sorted(x.strip().strip('"') for x in m.group(2).split(",") if x.strip())
        if r.out.count('"FAIL"') != len(fails):
            raise Infra("trace validation %s: %d FAIL records printed but %d parsed" % (module, r.out.count('"FAIL"'), len(fails)))
        res = []
        if fails or True:
            with open(allp) as f:
                for i, line in enumerate(f, 1):
                    if i in unexplained:
                        res.append((unexplained[i], ["unexplained-event"]))
                    elif i in fails:
                        res.append((json.loads(line), fails[i]))
                    elif len(self.samples) < 3 and (i % max(1, n // 3) == 1):
                        self.samples.append(_short(json.loads(line)))
        return res

    def count_classes(self, trace_paths, class_of):
        for tp in trace_paths:
            with open(tp) as f:
                for line in f:
                    if line.strip():
                        c = class_of(json.loads(line))
                        if c: self.classes.add(c)

    # ---- classification ------------------------------------------------------------------------------
    def classify(self, fails, key_of, confirm=None):
        """fails: list of (event, labels).  A 'pre.*' label means the driver was fed something outside
        the operation's domain (infrastructure).  Every other rejected line is re-run (confirm) before
        it is reported; lines whose key is in known_findings.json print KNOWN-FINDING instead."""
        # a 'pre.*' label: the case fed to the operation was outside its domain.  When the driver prepares an operand with the library
        # itself (e.g. maps an element into the cyclotomic subgroup first) a broken library can break the preparation: such lines are
        # set aside, the remaining rejected lines are judged, and only if nothing else is wrong is the run an infrastructure failure
        pre = [(ev, labels) for ev, labels in fails if any(l.startswith("pre.") for l in labels)]
        fails = [(ev, labels) for ev, labels in fails if not any(l.startswith("pre.") for l in labels)]
        if pre and not fails:
            raise Infra("precondition label %s on generated event %s" % (pre[0][1], json.dumps(_short(pre[0][0]))))
        if pre:
            self.notes.append("%d generated case(s) left their operation's domain during preparation by the library under test (first: %s %s); judged through the other rejected lines"
                              % (len(pre), pre[0][0].get("op"), pre[0][1]))
        for ev, labels in fails:
            key = key_of(ev, labels)
            if key in self.known:
                self.known_hits[key] = self.known_hits.get(key, 0) + 1
                continue
            if any(v[0] == key for v in self.violations):
                continue
            if len(self.violations) >= 24:
                # enough distinct, individually re-run violations to act on; the remaining rejected lines are only counted
                self.extra["further_rejected_lines_not_reconfirmed"] = self.extra.get("further_rejected_lines_not_reconfirmed", 0) + 1
                continue
            if confirm is not None and not confirm(ev, labels):
                self.notes.append("rejection of %s not reproduced on re-run (ignored)" % key)
                continue
            path = vlib.save_replay(self.prop, re.sub(r"[^A-Za-z0-9_.-]", "_", key)[:80], {"property": self.prop, "key": key, "labels": labels, "event": ev})
            self.violations.append((key, ev, labels, path))

    # ---- finish --------------------------------------------------------------------------------------
    def _crash_violations(self):
        for fam, cfg, args in self.crashes:
            last, sig, n = None, "?", 0
            tr = [a for a in args if a.endswith(".ndjson") and os.path.exists(a)]
            for tp in tr[1:2] or tr[-1:]:
                try:
                    for ev in vlib.read_ndjson(tp):
                        if ev.get("op") == "CRASH": sig = ev.get("sig")
                        else: last = ev; n += 1
                except Exception: pass
            key = "crash:%s:%s:sig%s:after-%s" % (fam.name, cfg, sig, (last or {}).get("op", "start"))
            if any(v[0] == key for v in self.violations): continue
            cases = None
            if tr and os.path.getsize(tr[0]) < 8 * 1024 * 1024:
                with open(tr[0]) as f: lines = f.readlines()
                cases = [json.loads(x) for x in lines[max(0, n - 2):n + 3] if x.strip()]
            path = vlib.save_replay(self.prop, re.sub(r"[^A-Za-z0-9_.-]", "_", key)[:80],
                                    {"property": self.prop, "key": key, "labels": ["crash"], "event": {"op": "CRASH", "cfg": cfg, "driver": fam.name, "sig": sig,
                                     "events_before_crash": n, "last_event_op": (last or {}).get("op"), "cases_around_crash": cases}})
            self.violations.append((key, {"op": "CRASH"}, ["crash"], path))

    def finish(self, rule, exhaustive_note=None):
        self._crash_violations()
        for key, n in sorted(self.known_hits.items()):
            print("KNOWN-FINDING: property=%s %s [%s] (%d occurrences this run)" % (self.prop, self.known[key]["what"], key, n))
        for key, e in self.known.items():
            if key not in self.known_hits:
                self.notes.append("known finding %s was not reproduced in this run" % key)
        for key, ev, labels, path in self.violations:
            print("VIOLATION property=%s replay=%s" % (self.prop, path))
            print("  key=%s labels=%s" % (key, labels))
        cov = {"states": max(self.states, 0), "transitions": max(self.transitions, 0),
               "traces_validated_against_impl": self.traces, "trace_events_validated": self.events,
               "evaluations": self.events, "distinct_nontrivial": len(self.classes),
               "rule": rule, "samples": self.samples[:4] or [{"note": "no sample"}],
               "tlc_runs": self.mc_runs, "configurations": sorted(self.configs),
               "known_findings_reproduced": self.known_hits, "notes": self.notes}
        cov.update(self.extra)
        if exhaustive_note: cov["exhaustive_part"] = exhaustive_note
        vlib.write_evidence(self.prop, self.tier, self.level, cov, time.time() - self.t0, len(self.violations), self.assumptions)
        return 1 if self.violations else 0

def _short(ev):
    """abbreviate long byte arrays for samples"""
    def f(v):
        if isinstance(v, list):
            if v and all(isinstance(x, int) for x in v):
                return "0x" + "".join("%02x" % x for x in reversed(v)) if len(v) <= 200 else "bytes[%d]" % len(v)
            return [f(x) for x in v]
        if isinstance(v, dict): return {k: f(x) for k, x in v.items()}
        return v
    return f(ev)

def replay_event(prop, path, fam, key_of):
    """generic --replay: re-execute the recorded event on its configuration and re-validate it"""
    d = json.load(open(path))
    ev = d["event"]
    if ev.get("op") == "const.audit":
        import fam_consts
        return fam_consts.replay(prop, path)
    if ev.get("op") == "exp.machine" or ev.get("op", "").startswith("tm."):
        import fam_tower
        return fam_tower.replay_special(prop, path, ev)
    run = Run(prop, "quick")
    res = [x for x in rerun(run, fam, ev) if not x.startswith("diag.")]      # diag.* labels name routes, they are never violations
    if res:
        print("VIOLATION property=%s replay=%s" % (prop, path))
        print("  labels=%s" % res)
        return 1
    print("replay: event accepted")
    return 0

def rerun(run, fam, ev):
    """execute one event again (fresh process) and validate it; returns failing labels or []"""
    inp = {k: v for k, v in ev.items() if k not in OUTPUT_KEYS}
    cases = os.path.join(vlib.scratch(), "one_%d.ndjson" % int(time.time() * 1000))
    vlib.write_ndjson(cases, [inp])
    out = cases + ".out"
    args = ["replay", cases, out]
    if ev.get("backend") == "base": args.append("base")
    run.drive(fam, ev.get("cfg", "asm"), args)
    fails = run.validate(fam, [out])
    return fails[0][1] if fails else []

OUTPUT_KEYS = {"cfg", "backend", "out"}
