"""C19 - the C interface is a faithful view of the C++ implementation.

CApi.tla judges four tables collected from the tree under test: (1) struct layouts measured by a C11
program against the layouts of the C++ types the wrappers cast them to, measured by C++ programs,
in the 64-bit and 32-bit word configurations; (2) every exported constant read through the C
declaration and through the C++ object; (3) the symbols the library defines against the functions
and constants the headers declare; (4) for every C function the verdicts the layers' trace
specifications gave to the driver events that call it (the same specifications that judge the C++
operations, on the same TLC-generated cases)."""
import os, json, re, subprocess, threading
import vlib
from vlib import Infra, log
from engine import Run, rerun
from fam_curve import CURVE
from fam_pairing import PAIR
from fam_codec import CODEC
from fam_marshal import MAR
from fam_wkdibe import WK
from c16 import LQ

RULE = ("layout: every C struct declared in the four headers x every C++ type the wrapper sources cast it to (closed under struct-typed members and "
        "pointer element types) x member (by name) x {64-bit, 32-bit words}; constants: every `extern const` of the headers, C view vs C++ object vs "
        "specification value; symbols: nm of the library vs header declarations; functions: TLC-generated cases of each layer executed through the "
        "C functions on assembly and portable 64/32-bit builds and validated by the layer's trace specification (the judge of the C++ operation); "
        "distinct = (C function key, configuration, case class of the owning layer)")

WORDCFG = {"asm": [], "p64": ["-DDISABLE_ASM"], "p32": ["-DDISABLE_ASM", "-U__SIZEOF_INT128__"]}

def ckeys(ev):
    op = ev.get("op", "")
    api = ev.get("api", "cpp")
    if op.startswith("pt."):
        return ["%s:c:%s" % (op, ev.get("g"))] if api == "c" else []
    if op == "mul.fast":
        return ["mul.fast:c:%s:%s" % (ev.get("g"), "affine" if ev.get("affine") else "proj")] if api == "c" else []
    if op == "pair.single":
        return ["pair.single:%s" % ev.get("variant")] if ev.get("variant") in ("c", "c_prepared") else []
    if op == "pair.sum": return ["pair.sum"]
    if op == "gt.op": return ["gt.op:%s" % ev.get("which")]
    if op == "gt.exp": return ["gt.exp:c"] if ev.get("variant") == "c" else []
    if op == "gt.random": return ["gt.random:c"] if ev.get("variant") == "c" else []
    if op in ("enc.encode", "enc.decode"): return ["%s:%s" % (op, ev.get("g"))]
    if op.startswith("hash.") or op.startswith("rand."): return [op]
    if op == "capi.diff": return [("setup:" if ev.get("fn", "").endswith("setup") else "rand:") + ev.get("fn", "")]
    if op == "wk.history": return sorted(set("wk:%s" % s.get("a") for s in ev.get("steps", [])))
    if op == "lq.run": return ["lq.run"]
    if op.startswith("mar."): return ["%s:%s" % (op, ev.get("kind"))]
    return []

def compile_run(srcs, exe, flags, lang_c=False, link=()):
    cxx, base = vlib.repo_make_vars()
    inc = [f for f in base if f.startswith("-I")]
    objs = []
    for s in srcs:
        o = s + ".o"
        if s.endswith(".c"):
            vlib.sh(["clang", "-std=c11", "-c"] + inc + flags + [s, "-o", o])
        else:
            vlib.sh([cxx, "-std=c++20", "-fno-access-control", "-Wno-invalid-offsetof", "-c"] + inc + flags + [s, "-o", o])
        objs.append(o)
    vlib.sh([cxx] + objs + list(link) + ["-o", exe])
    p = vlib.sh([exe], timeout=120)
    return [json.loads(l) for l in p.stdout.splitlines() if l.startswith("{")]

def tables(run, sc):
    d = os.path.join(sc, "capi"); os.makedirs(d, exist_ok=True)
    vlib.sh(["python3", os.path.join(vlib.VERIF, "tools", "capi_extract.py"), d])
    measured, consts = [], []
    for cfg in ("asm", "p32"):
        flags = WORDCFG[cfg]
        lib, _, _ = vlib.build_lib(cfg)
        rows = compile_run([os.path.join(d, "layout_c.c")], os.path.join(d, "lc." + cfg), flags)
        for u in ("bls12_381", "wkdibe", "lqibe"):
            rows += compile_run([os.path.join(d, "layout_cpp_%s.cpp" % u)], os.path.join(d, "lcpp.%s.%s" % (u, cfg)), flags)
        seen = set()
        for r in rows:
            r["cfg"] = cfg
            k = json.dumps(r, sort_keys=True)
            if k not in seen: seen.add(k); measured.append(r)
        cs = compile_run([os.path.join(d, "consts_c.c")], os.path.join(d, "cc." + cfg), flags, link=[lib])
        for u in ("bls12_381", "wkdibe", "lqibe"):
            src = os.path.join(d, "consts_cpp_%s.cpp" % u)
            if os.path.exists(src): cs += compile_run([src], os.path.join(d, "ccpp.%s.%s" % (u, cfg)), flags, link=[lib])
        byname = {}
        for r in cs: byname.setdefault(r["name"], {})[r["side"]] = r["bytes"]
        for n, v in sorted(byname.items()):
            consts.append({"cfg": cfg, "name": n, "c": v.get("c", []), "cpp": v.get("cpp", [])})
        run.configs.add(cfg)
    mf = os.path.join(sc, "measured.ndjson"); vlib.write_ndjson(mf, measured)
    cf = os.path.join(sc, "consts.ndjson"); vlib.write_ndjson(cf, consts)
    lib, _, _ = vlib.build_lib("asm")
    nm = vlib.sh(["nm", "-g", "--defined-only", lib]).stdout
    syms = sorted(set(m.group(1) for m in re.finditer(r" [TDRBS] (embedded_pairing_(?!core_arch)\w+)", nm)))
    sf = os.path.join(sc, "symbols.ndjson"); vlib.write_ndjson(sf, [{"name": s} for s in syms])
    return os.path.join(d, "decls.ndjson"), mf, cf, sf, measured, consts

def const_event(consts, cfg):
    """the exported group constants in the form of the pairing family's gt.const event (validated by Trace_Pairing against Params381 / RefPairing)"""
    c = {k["name"].replace("embedded_pairing_bls12_381_", ""): k["c"] for k in consts if k["cfg"] == cfg}
    def fq(b, i): return b[48 * i:48 * i + 48]
    def fq2(b, i): return [fq(b, 2 * i), fq(b, 2 * i + 1)]
    def fq12(b): return [[fq2(b, 0), fq2(b, 1), fq2(b, 2)], [fq2(b, 3), fq2(b, 4), fq2(b, 5)]]
    g1, g2 = c["g1affine_generator"], c["g2affine_generator"]
    return {"op": "gt.const", "src": "c-constants", "cfg": cfg,
            "out": {"gen": fq12(c["gt_generator"]), "one": fq12(c["gt_zero"]), "g1": [fq(g1, 0), fq(g1, 1), g1[96]],
                    "g2": [fq2(g2, 0), fq2(g2, 1), g2[192]], "order": c["group_order"]}}

def case_class(c):
    return tuple(sorted((a, b) for a, b in c.items() if a not in ("seed", "id") and (isinstance(b, (str, bool)) or (isinstance(b, int) and abs(b) < 64))))

def per_key(cases, n, pred=None):
    """up to n cases for every C-function key the cases can exercise (greedy over multi-key histories), spread over the generator's order"""
    cases = [c for c in cases if (pred is None or pred(c)) and ckeys(c)]
    bykey = {}
    for i, c in enumerate(cases):
        for k in ckeys(c): bykey.setdefault(k, []).append(i)
    chosen, count = [], {}
    for k in sorted(bykey):
        idx = bykey[k]
        need = n - count.get(k, 0)
        if need <= 0: continue
        import random
        rnd = random.Random(vlib.seed() * 131 + len(k))
        # stratified: one case from every class of cases (the generator's small scalar fields: case class, variant, flags, ...) before a second from any
        groups = {}
        for i in idx: groups.setdefault(case_class(cases[i]), []).append(i)
        order = []
        gl = [rnd.sample(g, len(g)) for _, g in sorted(groups.items())]
        rnd.shuffle(gl)
        while any(gl):
            for g in gl:
                if g: order.append(g.pop())
        for i in order[:need]:
            if i not in chosen:
                chosen.append(i)
                for kk in ckeys(cases[i]): count[kk] = count.get(kk, 0) + 1
    return [cases[i] for i in sorted(chosen)]

def every(cases, n):
    if len(cases) <= n: return cases
    step = len(cases) / float(n)
    return [cases[int(i * step)] for i in range(n)]

def gen(run, mod, name, env):
    out = os.path.join(vlib.scratch(), "c19.%s.cases.ndjson" % name)
    e = {"OUT": out, "TIER": "quick", "SEED": vlib.seed()}; e.update(env)
    r = vlib.tlc(mod, None, env=e, timeout=1500, workers=1, heap="6g")
    if r.rc != 0 or not os.path.exists(out): raise Infra("generator %s failed:\n%s" % (mod, r.out[-2000:]))
    run.mc_runs.append({"module": mod, "role": "generator", "wall_s": round(r.wall, 1)})
    return vlib.read_ndjson(out)

def run(tier):
    run = Run("C19", tier)
    sc = vlib.scratch()
    decls, mf, cf, sf, measured, consts = tables(run, sc)
    # ---- function events: the layers' generators, C-interface cases only ------------------------------------------------
    jobs = {"curve_p": ("Gen_Curve", {"WHAT": "points"}), "curve_s": ("Gen_Curve", {"WHAT": "scalars"}), "pair_single": ("Gen_Pairing", {"WHAT": "single"}),
            "pair_sum": ("Gen_Pairing", {"WHAT": "sum"}), "pair_gt": ("Gen_Pairing", {"WHAT": "gt"}), "pair_gtview": ("Gen_Pairing", {"WHAT": "gtview"}), "codec_enc": ("Gen_Codec", {"WHAT": "enc"}),
            "codec_samp": ("Gen_Codec", {"WHAT": "hash"}), "mar_obj": ("Gen_Marshal", {"WHAT": "objects"}), "mar_sweep": ("Gen_Marshal", {"WHAT": "sweep", "NMAX": "300"}),
            "lq": ("Gen_LqIbe", {}), "wk_deleg": ("Gen_WkdIbe", {"FAMILY": "deleg", "KEEP": 200}), "wk_sig": ("Gen_WkdIbe", {"FAMILY": "sig", "KEEP": 12}),
            "wk_adjust": ("Gen_WkdIbe", {"FAMILY": "adjust", "KEEP": 100})}
    res, errs = {}, []
    def work(n, m, e):
        try: res[n] = gen(run, m, n, e)
        except Exception as ex: errs.append(ex)
    ths = [threading.Thread(target=work, args=(n, m, e)) for n, (m, e) in jobs.items()]
    [t.start() for t in ths]; [t.join() for t in ths]
    if errs: raise errs[0]
    q = tier == "quick"
    noal = lambda c: c.get("alias", 0) == 0
    sel = {
        CURVE: per_key(res["curve_p"], 6 if q else 120, noal) + per_key(res["curve_s"], 6 if q else 100, noal),
        PAIR: per_key(res["pair_single"], 4 if q else 20) + per_key(res["pair_sum"], 3 if q else 40) + per_key(res["pair_gt"], 3 if q else 40, noal)
              + per_key(res["pair_gtview"], 2 if q else 12),
        CODEC: per_key(res["codec_enc"], 12 if q else 400) + per_key(res["codec_samp"], 40 if q else 400),
        MAR: per_key(res["mar_obj"], 3 if q else 60) + per_key(res["mar_sweep"], 1 if q else 4),
        LQ: per_key(res["lq"], 3 if q else 30),
        WK: per_key(res["wk_deleg"], 2 if q else 30) + per_key(res["wk_sig"], 2 if q else 30) + per_key(res["wk_adjust"], 2 if q else 30),
    }
    import random
    rnd = random.Random(vlib.seed())
    for fn, extra in (("embedded_pairing_wkdibe_setup", {"l": 3, "sigs": 1}), ("embedded_pairing_wkdibe_setup", {"l": 0, "sigs": 0}), ("embedded_pairing_lqibe_setup", {}),
                      ("embedded_pairing_wkdibe_random_g1", {}), ("embedded_pairing_wkdibe_random_g2", {}), ("embedded_pairing_wkdibe_random_gt", {})):
        c = {"op": "capi.diff", "fn": fn, "src": "c19", "stream": [rnd.randrange(256) if rnd.random() > 0.2 else 255 for _ in range(12000)]}
        c.update(extra); sel[CODEC].append(c)
    cfgs = ["p32", "asm"] if q else ["asm", "p64", "p32"]
    exercised = {}
    first_bad = {}
    for fam, cases in sel.items():
        if not cases: continue
        traces = []
        for i, cfg in enumerate(cfgs):
            sub = cases if (not q or i == 0) else every(cases, max(2, len(cases) // 3))
            cfile = os.path.join(sc, "c19.%s.%s.ndjson" % (fam.name, cfg)); vlib.write_ndjson(cfile, sub)
            out = os.path.join(sc, "c19.%s.%s.trace.ndjson" % (fam.name, cfg))
            run.drive(fam, cfg, ["replay", cfile, out], timeout=1800); traces.append(out)
        if fam is PAIR:
            ce = os.path.join(sc, "c19.constants.trace.ndjson")
            vlib.write_ndjson(ce, [const_event(consts, cfg) for cfg in ("asm", "p32")]); traces.append(ce)
        fails = run.validate(fam, traces, timeout=3400)
        fails = [(e, [l for l in ls if not l.startswith("diag.")]) for e, ls in fails]
        known_other = lambda e, ls: (ls == ["identity-not-at-infinity"])     # C16's known finding (identity hash zero), not a property of the C view
        badlines = {}
        for e, ls in fails:
            if not ls or known_other(e, ls): continue
            if any(l.startswith("pre.") for l in ls): raise Infra("precondition label %s on C19 case" % ls)
            badlines[json.dumps(e, sort_keys=True)] = (e, ls)
        for tp in traces:
            for e in vlib.read_ndjson(tp):
                ks = ckeys(e)
                if e.get("op") == "gt.const": ks = ["const:gt.const"]
                b = json.dumps(e, sort_keys=True) in badlines
                for k in ks:
                    v = exercised.setdefault(k, [0, 0])
                    v[1 if b else 0] += 1
                    if b and k not in first_bad: first_bad[k] = badlines[json.dumps(e, sort_keys=True)] + (fam,)
                    run.classes.add((k, e.get("cfg"), e.get("rel"), e.get("cls"), e.get("kind"), e.get("variant"), e.get("na"), e.get("np")))
    ef = os.path.join(sc, "exercised.ndjson")
    vlib.write_ndjson(ef, [{"key": k, "accepted": v[0], "rejected": v[1]} for k, v in sorted(exercised.items())])
    r = vlib.tlc("MC_CApi", None, env={"DECLS": decls, "MEASURED": mf, "CONSTS": cf, "SYMBOLS": sf, "EXERCISED": ef}, workers=1, timeout=600)
    if not r.ok: raise Infra("MC_CApi failed:\n" + r.out[-4000:])
    run.mc_runs.append({"module": "MC_CApi", "role": "judge", "wall_s": round(r.wall, 1)})
    flat = re.sub(r"\s+", " ", r.out)
    faults = re.findall(r'<<\s*"(LAYOUT-FAULT|SPEC-FAULT|CONST-FAULT|SYMBOL-FAULT|FUNCTION-FAULT|CONST-NOT-READ)",(.*?)>>(?=\s*(?:<<|$|[A-Z]))', flat)
    notes = re.findall(r'<<\s*"NOTE",\s*"([^"]+)",\s*"([^"]+)"\s*>>', flat)
    fails = []
    for kind, rest in faults:
        toks = re.findall(r'"([^"]*)"', rest)
        ev = {"op": "capi." + kind.lower(), "what": toks, "cfg": toks[0] if toks and toks[0] in ("asm", "p32", "p64") else "-"}
        if kind == "FUNCTION-FAULT":
            k = toks[1] if len(toks) > 1 else "?"
            if k in first_bad:
                e, ls, fam = first_bad[k]
                ev = dict(e); ev["_capi_fn"] = toks[0]; ev["_labels"] = ls
        fails.append((ev, [kind.lower()] + ([] if kind == "FUNCTION-FAULT" else toks[:4])))
    def key_of(ev, labels):
        if "_capi_fn" in ev: return "capi.fn:%s:%s:%s" % (ev["_capi_fn"], ev.get("cfg"), "+".join(ev["_labels"]))
        return "capi:%s" % ":".join(labels)
    run.classify(fails, key_of, None)
    byk = {}
    for k, f in notes: byk.setdefault(k, []).append(f)
    m = re.search(r'"functions-exercised",\s*(\d+),\s*"of",\s*(\d+)', flat)
    run.extra.update({"layout_rows_compared": len([x for x in measured if x["side"] == "cpp"]), "c_structs_measured": len([x for x in measured if x["side"] == "c"]),
                      "constants_compared": len(consts), "functions_exercised": int(m.group(1)) if m else 0, "functions_declared": int(m.group(2)) if m else 0,
                      "functions_not_exercised": sorted(byk.get("function-not-exercised", [])), "functions_without_binding": sorted(byk.get("function-without-binding", [])),
                      "exported_not_declared": sorted(byk.get("exported-not-declared", [])), "structs_never_cast": sorted(byk.get("struct-never-cast", [])),
                      "event_keys": {k: v for k, v in sorted(exercised.items())}})
    run.samples = [s for s in [{"layout": measured[len(measured) // 2]}, {"constant": {"name": consts[0]["name"], "cfg": consts[0]["cfg"], "bytes": len(consts[0]["c"])}}] + run.samples][:4]
    run.assumptions += ["the Go wrappers cannot be executed here (no Go toolchain); the C layer they call is what is checked",
                        "a member added to a C++ type inside trailing padding (size and named offsets unchanged) is not observable through the C view and not detected",
                        "drivers call the C functions from C++ translation units that include the C headers (same ABI as C on this platform); the layout and "
                        "constant programs are compiled as C11"]
    return run.finish(RULE)

def replay(path):
    d = json.load(open(path))
    ev = d["event"]
    if "_capi_fn" not in ev:
        print("replay: table-level fault (%s); re-run `bin/check C19 quick` to re-measure" % d.get("key")); return 1
    run = Run("C19", "quick")
    fam = {"pt.": CURVE, "mul": CURVE, "pai": PAIR, "gt.": PAIR, "enc": CODEC, "has": CODEC, "ran": CODEC, "mar": MAR, "lq.": LQ, "wk.": WK}[ev["op"][:3]]
    e2 = {k: v for k, v in ev.items() if not k.startswith("_")}
    ls = [l for l in rerun(run, fam, e2) if not l.startswith("diag.")]
    if ls:
        print("VIOLATION property=C19 replay=%s" % path); print("  labels=%s" % ls); return 1
    print("replay: event accepted"); return 0
