"""C08 - prepared and multi-pairing forms agree with the product of single pairings."""
import os
import vlib
from engine import Run, replay_event
from fam_pairing import PAIR, key_of, class_of, confirm_factory, gating

RULE = ("MC: the pairing-product loop as a TLA+ state machine with per-record loop state (MillerProduct.tla), all lists of <= 3 records "
        "(affine/prepared, skipped or not, stale cursors), two consecutive products: cursor <= NumCoeffs, result = product of singles. "
        "Conformance: TLC-enumerated list shapes (#affine, #prepared) x identity mask per position, two products over the same record "
        "arrays through the C API; TLC checks result = product of RefPairing values (also the library's singles), prepared = plain, "
        "identity pairs contribute 1, empty product = 1, cursor = NumCoeffs (0 when skipped), coefficient count of the C header = 68. "
        "distinct = (#affine, #prepared, mask, rounds, configuration)")

def run(tier):
    run = Run("C08", tier)
    sc = vlib.scratch()
    run.mc("MC_MillerProduct", timeout=600)
    cases = run.generate("Gen_Pairing", "sum", env={"WHAT": "sum"})
    traces = []
    for cfg in (["asm"] if tier == "quick" else ["asm", "p64", "p32"]):
        out = os.path.join(sc, "sum.%s.trace.ndjson" % cfg)
        run.drive(PAIR, cfg, ["replay", cases, out]); traces.append(out)
    # prepared = plain on single pairings (variants prepared / c_prepared of the C01 family)
    cs = run.generate("Gen_Pairing", "single", env={"WHAT": "single"})
    out = os.path.join(sc, "single.p32.trace.ndjson")
    run.drive(PAIR, "p32" if tier == "quick" else "p64", ["replay", cs, out]); traces.append(out)
    fails = gating(run.validate(PAIR, traces, timeout=3000))
    run.count_classes(traces, class_of)
    run.classify(fails, key_of, confirm_factory(run))
    return run.finish(RULE, "MillerProduct: all record lists of length <= 3, 2 rounds, toy |x| = 0b10110")

def replay(path):
    return replay_event("C08", path, PAIR, key_of)
