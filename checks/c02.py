"""C02 - Fq and Fr arithmetic is exact modular arithmetic with canonical results."""
import os
import vlib, fam_consts
from engine import Run, replay_event
from fam_field import FIELD, key_of, class_of, confirm_factory, filter_cases

RULE = ("cases = TLC-enumerated boundary family BW x BW, sum-targeted pairs, exponent/byte families (Gen_Field.tla) replayed on "
        "asm and portable builds, plus seeded random events; every recorded call is validated by TLC against PrimeField "
        "(Trace_Field.tla). distinct = (operation, field, alias pattern, configuration, back end, source, operand classes); "
        "non-trivial = at least one boundary-class operand or alias, counted over distinct tuples")

def run(tier):
    run = Run("C02", tier)
    fam_consts.audit(run, tier)          # the numeric constants this property rests on, from the source text (MC_Consts)
    sc = vlib.scratch()
    # (1) bounded exhaustive model checking: big-natural layer and the word-serial algorithms (Tier A)
    run.mc("MC_BigNat", env={"BOUND": 16 if tier == "quick" else 64}, timeout=600)
    run.mc("MC_Params381", timeout=300)
    # Tier A: fp_inverse (binary extended Euclid on the Montgomery residue, fixed-width halvings), Tonelli-Shanks as coded in Fr::square_root,
    # the exponent square root of Fq -- every element of toy fields; the coded Tonelli-Shanks loop does not terminate on a non-square (expected)
    for cfg in (["inv251", "inv8191", "ts769", "s34_1019"] if tier == "quick" else ["inv251", "inv1021", "inv8191", "ts97", "ts769", "ts12289", "s34_1019"]):
        run.mc("FieldAlg", "MC_FieldAlg_%s.cfg" % cfg, timeout=900)
    r = run.mc("FieldAlg", "MC_FieldAlg_ts97_nonsq.cfg", timeout=300, expect_ok=False)
    if "TsTerminatesOnNonSquares is violated" not in r.out: raise vlib.Infra("FieldAlg: the non-square configuration was not rejected")
    # unbounded (TLAPS): Montgomery reduction is exact and lands in [0, 2p) for every radix, modulus and input below R p
    vlib.tlapm_note(run, "RedcTheorem", "TLAPS proof (tlapm, Z3): RedcExact, RedcRange")
    for cfg in (["MC_WordArith_w2n2", "MC_WordArith_w2n3"] if tier == "quick" else ["MC_WordArith_w2n2", "MC_WordArith_w2n3", "MC_WordArith_w3n2", "MC_WordArith_w4n2"]):
        run.mc("MC_WordArith", cfg + ".cfg", timeout=1500)
    # (2) G->I: TLC-generated cases replayed on the default build and the portable builds
    cases = run.generate("Gen_Field", "field", env={"CONSTS": os.path.join(sc, "consts.all.ndjson")})   # the code's root of unity: Tonelli-Shanks worst cases
    fcases = os.path.join(sc, "fp.cases.ndjson")
    filter_cases(cases, fcases, lambda e: e["op"].startswith("fp."))
    traces = []
    for cfg, backend in ([("asm", None), ("p64", None), ("p32", None)] if tier == "quick" else [("asm", None), ("asm", "base"), ("p64", None), ("p32", None)]):
        out = os.path.join(sc, "fp.%s.%s.trace.ndjson" % (cfg, backend or "d"))
        cs = fcases
        if tier == "quick" and cfg != "asm":
            # the portable configurations get a pseudo-random half of the cases each in the quick tier
            cs = os.path.join(sc, "fp.%s.cases.ndjson" % cfg)
            with open(fcases) as f, open(cs, "w") as o:
                for i, line in enumerate(f):
                    # word-size sensitive byte/bit-level operations always; the arithmetic families by pseudo-random halves
                    if any(('"op":"%s"' % k) in line for k in ("fp.hashreduce", "fp.readbe", "fp.writebe", "fp.set", "fp.get", "fp.reduce", "fp.is_one", "fp.inv", "fp.inv_m")) \
                       or vlib.pick_hash(i, 2, vlib.seed() + (1 if cfg == "p32" else 0)): o.write(line)
        run.drive(FIELD, cfg, ["replay", cs, out] + ([backend] if backend else []))
        traces.append(out)
    # (3) I->S: seeded random events
    nrand = 2000 if tier == "quick" else 40000
    for i, cfg in enumerate(["asm"] if tier == "quick" else ["asm", "p64", "p32"]):
        out = os.path.join(sc, "rand.%s.trace.ndjson" % cfg)
        run.drive(FIELD, cfg, ["random", vlib.seed() * 1000 + i, nrand, out])
        traces.append(out)
    fails = run.validate(FIELD, traces)
    run.count_classes(traces, class_of)
    run.classify(fails, key_of, confirm_factory(run))
    run.assumptions += ["TLC evaluates PrimeField through the BigNat override (checked against the TLA+ definitions by MC_BigNat)",
                        "exhaustive part covers toy word sizes only; at 381/255 bits coverage is by constructed boundary witnesses and random events"]
    return run.finish(RULE, "MC_WordArith: all operands for every odd modulus with 2p < 2^(W*N) at the listed (W,N)")

def replay(path):
    return replay_event("C02", path, FIELD, key_of)
