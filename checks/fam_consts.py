"""Constants audit (spec/MC_Consts.tla): every `.std_words` constant of the tree under test, read from the source
text, is checked by TLC against the identity that defines it.  Each claimed check audits the constants its property
rests on; a constant the table has no identity for is a coverage note, never a violation."""
import os, re, json, subprocess, sys, random
import vlib
from vlib import Infra

PROP_OF = {
    "C01": ["bls_x", "generator", "generator_pairing"],
    "C02": ["fq_modulus", "fq_R", "fq_R2", "fq_inv", "fr_modulus", "fr_R", "fr_R2", "fr_inv", "negative_one", "zero", "one",
            "fq_qminusthreeoverfourplusone", "fr_t_constant", "fr_tplusoneovertwo", "fr_root_of_unity"],
    "C04": ["fq2_frobenius_coeff", "fq6_frobenius_coeff_c1", "fq6_frobenius_coeff_c2", "fq12_frobenius_coeff_c1",
            "fq2_qminusthreeoverfour", "fq2_qminusoneovertwo"],
    "C05": ["g1_b_coeff"],
    "C10": ["cofactor"],
    "C06": ["g1_endomorphism_lambda", "g1_endomorphism_beta", "g1_v1_2", "g1_v2_1", "fr_p_value_reciprocal",
            "uplusonetotheqminusoneoversix", "bls_x_squared", "bls_x_cubed"],
}
SUPPORT = {"C06": ["g1_v2_1"]}
CLAIMED = set(n for v in PROP_OF.values() for n in v)
VERDICTS = ("CONST-OK", "CONST-BAD", "CONST-DIAG", "CONST-UNAUDITED")
LINE = re.compile(r'<<\s*"(CONST-OK|CONST-BAD|CONST-DIAG|CONST-UNAUDITED)",\s*"([^"]+)"(?:,\s*"([^"]+)")?\s*>>')

def extract(dst):
    p = subprocess.run([sys.executable, os.path.join(vlib.VERIF, "tools", "extract_consts.py"), dst], stdout=subprocess.PIPE, stderr=subprocess.STDOUT, text=True,
                       env=dict(os.environ, VERIF_REPO=vlib.REPO))
    if p.returncode != 0: raise Infra("extract_consts failed:\n" + p.stdout[-2000:])
    return vlib.read_ndjson(dst)

def judge(rows, tag):
    """one TLC run over rows; returns list of verdicts in row order is not needed: (verdict, name, file) multiset"""
    f = os.path.join(vlib.scratch(), "consts.%s.ndjson" % tag)
    vlib.write_ndjson(f, rows)
    r = vlib.tlc("MC_Consts", env={"CONSTS": f}, timeout=1200)
    flat = r.out.replace("\n", " ")
    got = LINE.findall(flat)
    if not r.ok or len(got) != len(rows) or sum(flat.count('"%s"' % k) for k in VERDICTS) != len(rows):
        raise Infra("MC_Consts: %d verdicts for %d rows\n%s" % (len(got), len(rows), r.out[-3000:]))
    return got, r

def key_of(ev, labels):
    return "const:%s:%s" % (ev.get("name"), ev.get("file"))

def audit(run, tier):
    rows = extract(os.path.join(vlib.scratch(), "consts.all.ndjson"))
    mine = [r for r in rows if r["name"] in PROP_OF[run.prop]]
    # constants nobody claims (new in the tree under test) are handed to C02 so that they are at least named in its evidence
    extra = [r for r in rows if r["name"] not in CLAIMED] if run.prop == "C02" else []
    got, r = judge(mine + extra, run.prop)
    run.mc_runs.append({"module": "MC_Consts", "role": "constants audit (source text against defining identities)", "constants": len(mine), "word_groups": sum(x["n"] for x in mine),
                        "wall_s": round(r.wall, 1)})
    run.states += r.distinct; run.transitions += r.generated
    bad = [(n, f) for v, n, f in got if v == "CONST-BAD"]
    dead = [(n, f) for n, f in bad if all(x["uses"] == 0 for x in mine if x["name"] == n and x["file"] == f)]
    bad = [b for b in bad if b not in dead]
    off = sorted(set("%s (%s): nothing reads it" % b for b in dead) | set("%s (%s): results do not depend on its value" % (n, f) for v, n, f in got if v == "CONST-DIAG"))
    if off: run.extra["constants_off_identity_not_gating"] = off
    run.extra["constants_audited"] = sorted(set(n for v, n, f in got if v == "CONST-OK"))
    run.extra["constants_without_identity"] = sorted(set("%s (%s)" % (n, f) for v, n, f in got if v == "CONST-UNAUDITED"))
    missing = [n for n in PROP_OF[run.prop] if n not in [x["name"] for x in mine]]
    if missing: run.notes.append("constants not found in the source text (renamed or no longer initialised by std_words): %s" % missing)
    fails = []
    for n, f in bad:
        for x in mine:
            if x["name"] == n and x["file"] == f: fails.append((dict(x, op="const.audit"), ["constant-identity"]))
    seen = set(); uniq = []
    for e, l in fails:
        k = (e["name"], e["file"], e["type"])
        if k not in seen: seen.add(k); uniq.append((e, l))
    run.classes |= set(("const", x["name"], x["file"]) for x in mine)
    if tier == "thorough": selftest(run, mine, rows)
    run.classify(uniq, key_of, None)

def selftest(run, mine, rows):
    """binding: one flipped bit in every word group must turn the verdict to BAD (the audit reads every entry)"""
    rnd = random.Random(vlib.seed())
    sup = [r for r in rows if r["name"] in SUPPORT.get(run.prop, [])]
    mut = []
    for x in mine:
        for g in range(x["n"]):
            y = json.loads(json.dumps(x)); b = rnd.randrange(len(y["vals"][g])); y["vals"][g][b] ^= 1 << rnd.randrange(8)
            mut.append(y)
    got, r = judge(sup + mut, run.prop + ".mut")
    nb = len([1 for v, n, f in got if v in ("CONST-BAD", "CONST-DIAG")])
    run.extra["constants_mutation_selftest"] = {"mutants": len(mut), "rejected": nb}
    if nb != len(mut): raise Infra("constants audit accepted %d of %d single-bit mutants" % (len(mut) - nb, len(mut)))

def replay(prop, path):
    d = json.load(open(path)); ev = d["event"]
    rows = [r for r in extract(os.path.join(vlib.scratch(), "consts.replay.ndjson")) if r["name"] == ev["name"] or r["name"] in SUPPORT.get(prop, [])]
    got, r = judge(rows, prop + ".replay")
    if any(v == "CONST-BAD" and n == ev["name"] for v, n, f in got):
        print("VIOLATION property=%s replay=%s" % (prop, path)); print("  constant %s fails its defining identity" % ev["name"]); return 1
    print("replay: constant accepted"); return 0
