"""C04 - extension-field tower implements the defining polynomial arithmetic."""
import os, json
import vlib, fam_consts
from engine import Run, replay_event
from fam_tower import TOWER, key_of, class_of, confirm_factory, tower_machine
import fam_tower

RULE = ("cases = TLC-enumerated component-shape families for Fq2/Fq6/Fq12 (zero/one/minus-one/boundary/pseudo-random components, "
        "subfield, one-hot and sparse shapes) x every operation x alias pattern, all Frobenius powers 0..13, sparse multiplicands with "
        "zero and non-zero components, cyclotomic inputs (Gen_Tower.tla), replayed on the rebuilt library, plus seeded random events; "
        "every recorded call validated by TLC against the quotient-ring definitions (ExtField/Tower.tla). distinct = (op, level, alias, "
        "configuration, Frobenius power, source, zero/non-zero shape of every operand component)")

def subset(src, dst, k, m):
    n = 0
    with open(src) as f, open(dst, "w") as o:
        for i, line in enumerate(f):
            if vlib.pick_hash(i, m, k + 7 * vlib.seed()): o.write(line); n += 1
    return n

def run(tier):
    run = Run("C04", tier)
    fam_consts.audit(run, tier)          # the numeric constants this property rests on, from the source text (MC_Consts)
    sc = vlib.scratch()
    run.mc("MC_Tower", timeout=600)
    # Tier A: Fq2::square_root (complex method with its alpha = -1 case) and Fq2::legendre (through the norm) as coded, every element of toy Fq2
    for cfg in (["fq2_19", "fq2_43"] if tier == "quick" else ["fq2_19", "fq2_43", "fq2_103"]):
        run.mc("FieldAlg", "MC_FieldAlg_%s.cfg" % cfg, timeout=900)
    cases = run.generate("Gen_Tower", "tower")
    traces = []
    plan = [("asm", 1, 0), ("p32", 4, vlib.seed() % 4)] if tier == "quick" else [("asm", 1, 0), ("p64", 1, 0), ("p32", 1, 0)]
    for cfg, m, k in plan:
        cs = cases
        if m > 1:
            cs = os.path.join(sc, "tower.%s.cases.ndjson" % cfg); subset(cases, cs, k, m)
        out = os.path.join(sc, "tower.%s.trace.ndjson" % cfg)
        run.drive(TOWER, cfg, ["replay", cs, out]); traces.append(out)
    nrand = 100 if tier == "quick" else 2000
    for i, cfg in enumerate(["asm"] if tier == "quick" else ["asm", "p64", "p32"]):
        out = os.path.join(sc, "tower.rand.%s.trace.ndjson" % cfg)
        run.drive(TOWER, cfg, ["random", vlib.seed() * 31 + i, nrand, out]); traces.append(out)
    fails = run.validate(TOWER, traces, timeout=3000)
    run.count_classes(traces, class_of)
    # Tier A from the source text: the straight-line tower functions of the tree under test, executed on a toy field against the definitions
    tm_cases, tm_fails, tm_unsupported = tower_machine(run, tier, with_alias=False)
    for c in tm_cases: run.classes.add(("tm", c["cls"], c["name"], c.get("alias"), c["op"]))
    fails += tm_fails
    run.extra["source_extracted_functions_executed"] = len(set((c["cls"], c["name"]) for c in tm_cases))
    run.extra["source_functions_not_straight_line"] = tm_unsupported
    # Fq2::compare inherits the Montgomery-residue order of Fq::compare: that rule is C02's known finding, not gated here
    fails = [(e, l) for e, l in fails if not (e.get("op") == "ext.cmp" and l == ["cmp.integer-order"])]
    run.classify(fails, key_of, confirm_factory(run))
    # the cyclotomic map executed on exponents modulo q^12 - 1 at full size: (q^6 - 1)(q^2 + 1) for every non-zero input
    ex_fails, ex_skipped = fam_tower.exp_events(fam_tower.exp_machine(run), [("map_to_cyclotomic", 0)])
    if ex_skipped: run.extra["exponent_machine_not_applicable"] = ex_skipped
    run.classify(ex_fails, fam_tower.exp_key, None)
    run.assumptions += ["Tower products are evaluated by a Java accelerator checked against the ExtField definitions (MC_Tower)",
                        "Frobenius maps via generator images, checked against x^(q^k) by MC_Tower on samples",
                        "TowerMachine executes the source-extracted functions on the toy tower over F_19 (sampled operands; Fq2 exhaustively in the thorough tier), not at 381 bits"]
    return run.finish(RULE)

def replay(path):
    return replay_event("C04", path, TOWER, key_of)
