"""C01 - the pairing is the BLS12-381 optimal-ate pairing (cubed): bilinear, non-degenerate, order r."""
import os
import vlib, fam_consts
from engine import Run, replay_event
from fam_pairing import PAIR, key_of, class_of, confirm_factory, gating, only_ops
import fam_tower

RULE = ("oracle = textbook Miller function over the bits of |x| with chord/tangent lines, inversion for negative x, plain exponentiation "
        "by 3(q^12-1)/r (Pairing.tla; the twist-slope form is checked by TLC against the unoptimised definition on E(Fq12) on the generators). "
        "cases = generator pair, scalar-boundary multiples, all identity combinations, inputs given as non-normalised Jacobian "
        "representatives, each through affine / prepared / C API variants; plus random tuples with e(aP,bQ) = e(P,Q)^(ab), e^r = 1, "
        "e = 1 iff an argument is the identity, all evaluated with the specification's Fq12 arithmetic. distinct = (variant, case class, "
        "configuration, source)")

def run(tier):
    run = Run("C01", tier)
    fam_consts.audit(run, tier)          # the numeric constants this property rests on, from the source text (MC_Consts)
    sc = vlib.scratch()
    run.mc("MC_Pairing", timeout=900)
    cases = run.generate("Gen_Pairing", "single", env={"WHAT": "single"})
    traces = []
    for cfg in ["asm", "p64", "p32"]:
        out = os.path.join(sc, "pair.%s.trace.ndjson" % cfg)
        run.drive(PAIR, cfg, ["replay", cases, out]); traces.append(out)
    nrand = 6 if tier == "quick" else 120
    out = os.path.join(sc, "pair.rand.trace.ndjson")
    run.drive(PAIR, "asm", ["random", vlib.seed() * 29 + 3, nrand, out])
    only = os.path.join(sc, "pair.rand.only.ndjson"); only_ops(out, only, ["pair.single"])
    traces.append(only)
    fails = gating(run.validate(PAIR, traces, timeout=3000))
    run.count_classes(traces, class_of)
    run.classify(fails, key_of, confirm_factory(run))
    # Tier A from the source text.  (1) the Miller-loop step functions (doubling step, addition step, ell) executed on a toy twist against the
    # chord-and-tangent law and the line through the points; (2) the final exponentiation executed on exponents modulo q^12 - 1 at full size
    tm_cases, tm_fails, tm_unsupported = fam_tower.tower_machine(run, tier, with_alias=False, part="pairing")
    for c in tm_cases: run.classes.add(("tm", c["name"], c.get("pt", 0) % 7, c.get("pt2", 0) % 7))
    run.extra["source_extracted_functions_executed"] = sorted(set(c["name"] for c in tm_cases))
    run.extra["source_functions_not_straight_line"] = tm_unsupported
    run.classify(tm_fails, fam_tower.key_of, None)
    ex_fails, ex_skipped = fam_tower.exp_events(fam_tower.exp_machine(run), [("final_exponentiation", 1)])   # bound as pairing() calls it: output = input
    if ex_skipped: run.extra["exponent_machine_not_applicable"] = ex_skipped
    run.classify(ex_fails, fam_tower.exp_key, None)
    run.assumptions += ["'for all inputs' is not exhaustive at 381 bits; the Miller loop's bit loop itself (which steps run in which order) is only checked through values",
                        "ExpMachine's verdict (final exponent = 3 (q^12 - 1) / r for every non-zero input) presupposes the tower operations are right (C04) and models exp_by_x_restrict by its meaning a^(|x| >> s), not by its loop",
                        "Fq12 products of the oracle are computed by a Java accelerator checked against the ExtField definition (MC_Tower)"]
    return run.finish(RULE)

def replay(path):
    return replay_event("C01", path, PAIR, key_of)
