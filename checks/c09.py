"""C09 - point encodings round-trip; validating decode accepts only canonical encodings."""
import os, json
import vlib
from engine import Run, replay_event
from fam_codec import CODEC, key_of, class_of, confirm_factory, gating

RULE = ("cases = TLC-enumerated round trips (identity, generators, +-P, multiples; both forms, both groups) and mutation classes of valid "
        "encodings (flag flips, malformed identity, stray flag bits in every later coordinate field, coordinate + q, off-curve y, x without "
        "y, points outside the subgroup) through the C API, plus bit-flipped and random byte strings; TLC recomputes verdict and point with "
        "the decision procedure of Encoding.tla and checks accept <=> canonical encoding of a subgroup point. distinct = (op, group, "
        "mutation class, form, checked, configuration, verdict)")

def run(tier):
    run = Run("C09", tier)
    sc = vlib.scratch()
    cases = run.generate("Gen_Codec", "enc", env={"WHAT": "enc"})
    traces = []
    for cfg in (["asm", "p32", "p32u"] if tier == "quick" else ["asm", "p64", "p32", "p32u"]):
        out = os.path.join(sc, "enc.%s.trace.ndjson" % cfg)
        run.drive(CODEC, cfg, ["replay", cases, out]); traces.append(out)
    nrand = 60 if tier == "quick" else 1500
    out = os.path.join(sc, "enc.rand.trace.ndjson")
    run.drive(CODEC, "asm", ["random", vlib.seed() * 19 + 1, nrand, out])
    # keep only the encoding events of the mixed random trace
    enc_only = os.path.join(sc, "enc.rand.only.ndjson")
    with open(out) as f, open(enc_only, "w") as o:
        for line in f:
            if '"op":"enc.' in line: o.write(line)
    traces.append(enc_only)
    fails = run.validate(CODEC, traces, timeout=3000)
    run.count_classes(traces, class_of)
    fails, _ = gating(fails)
    run.classify(fails, key_of, confirm_factory(run))
    run.assumptions += ["the sign flag follows the library's own order on y (Montgomery residues; see C02 known finding): any fixed rule satisfies this property",
                        "byte strings are not enumerated exhaustively; a toy-curve exhaustive instance is planned"]
    return run.finish(RULE)

def replay(path):
    return replay_event("C09", path, CODEC, key_of)
