"""C11 - WKD-IBE (family "deleg"); see fam_wkdibe.py and spec/Gen_WkdIbe.tla, spec/Trace_WkdIbe.tla, spec/WkdIbe.tla."""
from engine import replay_event
from fam_wkdibe import WK, key_of, run_family
RULE = ("histories enumerated by TLC (Gen_WkdIbe.tla, family 'deleg') over l = 3 slots: every documented attribute list per step (slot unlisted / hidden / "
        "value incl. values >= r, equal-mod-r values and 2^256-1; both settings of omit-all-unless-present; with and without signature support), "
        "executed through the C API with scripted randomness on parameters of known discrete logarithms; TLC replays each history in the exponent "
        "(WkdIbe.tla) and requires every recorded slot list, group element, decrypted message and verdict to be exactly the predicted one. "
        "distinct = (family, step kinds with the free/fixed/hidden shape of every list, flags, configuration)")
def run(tier):
    mcs = [("WkdIbeAlg", "MC_WkdIbeAlg_l3TRUE.cfg", False), ("WkdIbeAlg", "MC_WkdIbeAlg_l3FALSE.cfg", True)]
    if tier == "thorough": mcs.append(("WkdIbeAlg", "MC_WkdIbeAlg_l4TRUE.cfg", False))
    return run_family("C11", tier, "deleg", 40, 4, RULE + "; MC: the lock-step merges of keygen/qualifykey/nondelegable_* as TLA+ state machines over their "
                      "cursors (WkdIbeAlg.tla), every (operation, parent pattern, permitted list, flag) on 3 (thorough: 4) slots, against the pattern algebra; "
                      "the as-shipped merge is rejected by the same invariants", mcs=mcs)
def replay(path):
    return replay_event("C11", path, WK, key_of)
