"""C07 - target-group exponentiation and group operations are exact."""
import os
import vlib
from engine import Run, replay_event
from fam_pairing import PAIR, key_of, class_of, confirm_factory, gating, only_ops

RULE = ("cases = GT bases (generator, pairing outputs, powers) x exponent family (0, 1, r-1, r, r+1, 2r-1, 2r, 2r+1, 2^256-1, powers of |x| and "
        "neighbours, word boundaries, pseudo-random) x routine (division-based, division-free, decomposed, C API) x alias; group operations "
        "(product, inverse, cyclotomic squaring, equality, byte I/O); random exponentiation fed by scripted streams that force inner and outer "
        "rejections; TLC validates a^k, a^2, a^-1 and (y < r, a^y) with the specification's Fq12 arithmetic; uniformity of y is established on "
        "Sampling.tla. distinct = (routine, exponent class, alias, configuration, source, number of random requests)")

def run(tier):
    run = Run("C07", tier)
    sc = vlib.scratch()
    run.mc("Sampling", "MC_Sampling.cfg", timeout=600)
    cases = run.generate("Gen_Pairing", "gt", env={"WHAT": "gt"})
    traces = []
    for cfg in (["asm", "p32"] if tier == "quick" else ["asm", "p64", "p32"]):
        out = os.path.join(sc, "gt.%s.trace.ndjson" % cfg)
        run.drive(PAIR, cfg, ["replay", cases, out]); traces.append(out)
    nrand = 10 if tier == "quick" else 300
    out = os.path.join(sc, "gt.rand.trace.ndjson")
    run.drive(PAIR, "asm", ["random", vlib.seed() * 31 + 4, nrand, out])
    only = os.path.join(sc, "gt.rand.only.ndjson"); only_ops(out, only, ["gt."])
    traces.append(only)
    fails = gating(run.validate(PAIR, traces, timeout=3000))
    run.count_classes(traces, class_of)
    run.classify(fails, key_of, confirm_factory(run))
    run.assumptions += ["uniformity of the random exponent is shown on the sampler specification only"]
    return run.finish(RULE)

def replay(path):
    return replay_event("C07", path, PAIR, key_of)
