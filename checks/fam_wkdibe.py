"""WKD-IBE family: drv_wkdibe + Trace_WkdIbe (C11-C14)"""
import os, json
import vlib
from engine import Family, rerun, Run
WK = Family("drv_wkdibe", ["drv_wkdibe.cpp"], "Trace_WkdIbe")

def lst(a):
    return ",".join("%d:%s" % (x["idx"], "H" if x["omit"] else _v(vlib.from_le(x["id"]))) for x in a) if a is not None else "-"
R = 0x73eda753299d7d483339d80809a1d80553bda402fffe5bfeffffffff00000001
def _v(n):
    if n < 100: return str(n)
    if n >= R: return "r+%d" % (n - R) if n - R < 100 else ">=r"
    return "big"

def shape(ev):
    out = []
    for s in ev.get("steps", []):
        d = s["a"]
        for k in ("attrs", "from", "to"):
            if k in s: d += "[" + lst(s[k]) + "]"
        if "flag" in s: d += "f%d" % s["flag"]
        if "further" in s: d += "u%d" % s["further"]
        if "field" in s: d += ":" + s["field"]
        out.append(d)
    return "sig%d|" % ev.get("sigs", 0) + ";".join(out)

def key_of(ev, labels):
    labels = [l for l in labels if not l.startswith("diag.")]
    return "%s:%s:%s:%s" % (ev.get("fam"), ev.get("cfg"), shape(ev), "+".join(labels))

def class_of(ev):
    # pattern-level class: step kinds with list *shapes* (which slots free / fixed / hidden), not the values
    out = []
    for s in ev.get("steps", []):
        d = s["a"]
        for k in ("attrs", "from", "to"):
            if k in s: d += "[" + ",".join("%d%s" % (x["idx"], "H" if x["omit"] else "V") for x in s[k]) + "]"
        d += str(s.get("flag", "")) + str(s.get("further", "")) + str(s.get("field", ""))
        out.append(d)
    return (ev.get("fam"), ev.get("sigs"), ev.get("cfg"), tuple(out))

def gating(fails):
    out, diag = [], 0
    for ev, labels in fails:
        g = [l for l in labels if not l.startswith("diag.")]
        if g: out.append((ev, g))
        else: diag += 1
    return out, diag

def confirm_factory(run):
    def confirm(ev, labels):
        try:
            return bool([l for l in rerun(run, WK, ev) if not l.startswith("diag.")])
        except vlib.Infra:
            return True
    return confirm

def run_family(prop, tier, family, keep_quick, keep_thorough, rule, cfgs_quick=("asm",), cfgs_thorough=("asm", "p64", "p32"), mcs=()):
    run = Run(prop, tier)
    sc = vlib.scratch()
    for m, c, expect_violation in mcs:
        r = run.mc(m, c, timeout=1500, expect_ok=not expect_violation)
        if expect_violation and not r.violation:
            raise vlib.Infra("%s/%s: the as-shipped variant was not rejected by the model (invariants vacuous?)" % (m, c))
    # unbounded (TLAPS): the key form is preserved by delegation and resampling for any number of slots, every key of that form decrypts,
    # every signature made with one verifies -- the algebra behind WkdIbe.tla's (rho, pattern) representation of a key
    vlib.tlapm_note(run, "WkdTheorem", "TLAPS proof (tlapm, Z3): QualifyKeepsForm, DecryptRecovers, SignatureVerifies")
    keep = keep_quick if tier == "quick" else keep_thorough
    cases = run.generate("Gen_WkdIbe", family, env={"FAMILY": family, "KEEP": keep}, timeout=1500)
    traces = []
    for cfg in (cfgs_quick if tier == "quick" else cfgs_thorough):
        out = os.path.join(sc, "wk.%s.%s.trace.ndjson" % (family, cfg))
        run.drive(WK, cfg, ["replay", cases, out], timeout=1800); traces.append(out)
    fails = run.validate(WK, traces, timeout=3400)
    run.count_classes(traces, class_of)
    fails, ndiag = gating(fails)
    if ndiag:
        run.notes.append("%d histories in which the library derived a different scalar from the scripted stream than intended (sampler protocol changed?); "
                         "exact prediction used the scalar actually drawn" % ndiag)
    run.classify(fails, key_of, confirm_factory(run))
    run.assumptions += ["public parameters are built by the specification from fixed 255-bit discrete logarithms and handed to the library as raw points",
                        "every scalar the library draws is scripted through its random-source callback; the scalar actually derived is probed through the public sampler",
                        "'correctly distributed' is not measured: the key is checked to be the exact function of the scripted randomness that the scheme defines"]
    return run.finish(rule)
