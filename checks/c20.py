"""C20 - the core library is self-contained, stateless and re-entrant.

Runtime.tla models the library at the granularity at which it can be interleaved at all: a call is a
sequence of segments separated by invocations of caller-supplied callbacks (random source, hash), the
only points where the library yields.  TLC (a) checks the invariants over every interleaving of a
bounded instance (and that they fail for a library variant with a static buffer / lazily built
table), (b) enumerates complete behaviours as schedules which the driver forces on real threads by
parking them inside the callbacks, (c) validates every recorded run: results equal the sequential
results, the writable image of the library (resolved from the symbol tables of the tree under test)
and the dispatch table are unchanged, the undefined symbols of every object are allowed."""
import os, re, json, random, subprocess
import vlib
from vlib import Infra, log
from engine import Run, Family, rerun

RT = Family("drv_runtime", ["drv_runtime.cpp"], "Trace_Runtime", libs=("-no-pie",))
RULE = ("batteries = TLC-enumerated schedules (complete behaviours of Runtime.tla for the measured segment counts) of 2-4 threads x 1-3 C-API calls "
        "(LQ-IBE encrypt/decrypt, WKD-IBE keygen/encrypt/decrypt/sign, pairing, G1/G2 scalar multiplication, GT/G2 sampling) forced on real "
        "threads by parking them in the library's callbacks, plus free-running repetitions; every run is compared with the sequential run "
        "(results, segment counts), with the load-time image of every writable library symbol and with the dispatch table; undefined symbols "
        "of every object file in the assembly / portable 64 / portable 32 and freestanding builds are judged against Runtime!AllowedExtern. "
        "distinct = (battery, schedule) pairs; non-trivial = schedules in which at least two threads alternate inside calls")

BATTERIES_QUICK = [
    [["lq.encrypt"], ["lq.encrypt"]],
    [["lq.encrypt", "lq.decrypt"], ["lq.decrypt", "lq.encrypt"]],
    [["wk.encrypt"], ["wk.keygen"]],
    [["wk.sign"], ["lq.encrypt"], ["pairing", "g1.mul"]],
    [["gt.random"], ["g2.random"], ["wk.decrypt", "g2.mul"]],
    # inputs shared between the threads (outputs stay private)
    [["wk.marshal.shared", "wk.encrypt.shared"], ["wk.marshal.shared"], ["wk.encrypt.shared", "pairing.shared"]],
    [["lq.encrypt.shared"], ["lq.decrypt.shared", "wk.sign.shared"]],
    # validating decodes (curve and subgroup checks) next to calls that can be parked
    [["g1.decode", "g2.decode", "wk.unmarshal"], ["g2.decode", "lq.encrypt", "g1.decode"]],
    # the scalar samplers (Fr::random is behind both layers' functions) and the G1 sampler
    [["zp.random", "zp.random"], ["zp.random", "wk.encrypt"]],
]
BATTERIES_THOROUGH = BATTERIES_QUICK + [
    [["lq.encrypt", "wk.encrypt"], ["wk.sign", "lq.decrypt"], ["gt.random", "pairing"]],
    [["wk.keygen", "lq.encrypt"], ["wk.keygen", "lq.encrypt"], ["wk.encrypt"], ["lq.decrypt", "g1.mul"]],
    [["g2.random", "wk.sign"], ["gt.random", "lq.encrypt"]],
]

def image_ranges(exe, lib, path):
    """writable symbols of the library as linked into the driver: name, address, size"""
    libnames = set()
    for line in vlib.sh(["nm", "--defined-only", lib]).stdout.splitlines():
        p = line.split()
        if len(p) == 3 and p[1] not in "TtRrWwAUN": libnames.add(p[2])
    secs = []
    for line in vlib.sh(["readelf", "-S", "-W", exe]).stdout.splitlines():
        m = re.match(r"\s*\[\s*\d+\]\s+(\S+)\s+\S+\s+([0-9a-f]+)\s+[0-9a-f]+\s+([0-9a-f]+)\s+\S+\s+(\S+)", line)
        if m and "W" in m.group(4) and "A" in m.group(4):
            secs.append((m.group(1), int(m.group(2), 16), int(m.group(3), 16)))
    rows = []
    for line in vlib.sh(["nm", "-S", "--defined-only", exe]).stdout.splitlines():
        p = line.split()
        if len(p) != 4: continue
        a, s, ty, name = int(p[0], 16), int(p[1], 16), p[2], p[3]
        if name not in libnames or s == 0: continue
        sec = [x[0] for x in secs if x[1] <= a < x[1] + x[2]]
        if sec: rows.append((a, s, name, sec[0]))
    with open(path, "w") as f:
        for a, s, name, sec in sorted(set(rows)): f.write("%x %x %s\n" % (a, s, name))
    return sorted(set(rows))

def symbols_event(cfg):
    lib, key, objdir = vlib.build_lib(cfg)
    und, nobj = set(), 0
    for o in sorted(os.listdir(objdir)):
        if not o.endswith(".o"): continue
        nobj += 1
        for line in vlib.sh(["nm", "-u", os.path.join(objdir, o)]).stdout.splitlines():
            p = line.split()
            if len(p) == 2 and p[0] in ("U", "w"): und.add(p[1])
    defined = set(p.split()[2] for p in vlib.sh(["nm", "--defined-only", lib]).stdout.splitlines() if len(p.split()) == 3)
    ext = sorted(s for s in und if s not in defined)
    return {"op": "rt.symbols", "cfg": cfg, "objects": nobj, "undefined": ext}

def schedules(run, calls, segs, limit, seed):
    """complete behaviours of Runtime.tla for this battery, as thread-id sequences (TLC: exhaustive if small, simulation otherwise)"""
    sc = vlib.scratch()
    cfgf = os.path.join(sc, "rtcfg_%d.json" % abs(hash(json.dumps(calls))))
    json.dump({"calls": calls, "segs": segs}, open(cfgf, "w"))
    total = [sum(s) for s in segs]
    # number of interleavings = multinomial
    from math import factorial
    n = factorial(sum(total))
    for t in total: n //= factorial(t)
    extra = [] if n <= 4 * limit else ["-simulate", "num=%d" % (limit * 2), "-depth", str(sum(total) + 3), "-seed", str(seed)]
    r = vlib.tlc("Gen_Runtime", None, env={"RTCFG": cfgf}, workers=1, timeout=600, extra=extra)
    if "is violated" in r.out or (not extra and not r.ok): raise Infra("Gen_Runtime failed:\n" + r.out[-3000:])
    run.mc_runs.append({"module": "Gen_Runtime", "role": "schedule generator" + (" (simulation)" if extra else " (exhaustive)"),
                        "distinct_states": r.distinct, "interleavings": n, "wall_s": round(r.wall, 1)})
    run.states += r.distinct; run.transitions += r.generated
    out = []
    for m in re.finditer(r'<<\s*"SCHED",\s*<<([\d,\s]*)>>\s*>>', r.out):       # TLC wraps long tuples over lines
        s = [int(x) for x in m.group(1).replace("\n", " ").split(",") if x.strip()]
        if s and s not in out: out.append(s)
    if not out or r.out.count('"SCHED"') != len(re.findall(r'<<\s*"SCHED",\s*<<([\d,\s]*)>>\s*>>', r.out)):
        raise Infra("Gen_Runtime schedules not parsed:\n" + r.out[-2000:])
    if len(out) > limit:
        rnd = random.Random(seed); keep = out[:1] + out[-1:] + rnd.sample(out[1:-1], limit - 2)
        out = keep
    return out, n

def alternations(s):
    return sum(1 for i in range(1, len(s)) if s[i] != s[i - 1])

def run(tier):
    run = Run("C20", tier)
    sc = vlib.scratch()
    # (1) the design: every interleaving of a bounded instance; variants with library-static storage must be rejected
    run.mc("MC_Runtime", "MC_Runtime_faithful.cfg", timeout=300)
    for bad in ("MC_Runtime_static-buffer.cfg", "MC_Runtime_lazy-init.cfg", "MC_Runtime_race.cfg"):
        r = run.mc("MC_Runtime", bad, timeout=300, expect_ok=False)
        if not r.violation: raise Infra("%s: the non-reentrant library variant was not rejected (invariants vacuous?)" % bad)
    # (2) environment interface: undefined symbols of every object, per configuration
    sym_events = [symbols_event(c) for c in (["asm", "p64", "p32", "p64-free"] if tier == "quick" else ["asm", "p64", "p32", "free", "p64-free", "p32-free"])]
    symf = os.path.join(sc, "rt.symbols.trace.ndjson"); vlib.write_ndjson(symf, sym_events)
    traces = [symf]
    # (3) schedules on the implementation
    bats = BATTERIES_QUICK if tier == "quick" else BATTERIES_THOROUGH
    limit = 12 if tier == "quick" else 120
    cfgs = ["asm"] if tier == "quick" else ["asm", "p64", "p32"]
    nsched = 0
    for cfg in cfgs:
        exe = RT.exe(cfg)
        lib, _, _ = vlib.build_lib(cfg)
        rangef = os.path.join(sc, "ranges.%s.txt" % cfg)
        rows = image_ranges(exe, lib, rangef)
        if not rows: raise Infra("no writable library symbol found in the driver image (%s)" % cfg)
        run.extra.setdefault("writable_library_symbols", {})[cfg] = ["%s (%d bytes, %s)" % (n, s, sec) for a, s, n, sec in rows]
        # sequential reference for every battery
        seqc = os.path.join(sc, "rt.seq.%s.cases.ndjson" % cfg); seqt = os.path.join(sc, "rt.seq.%s.trace.ndjson" % cfg)
        vlib.write_ndjson(seqc, [{"op": "rt.sequential", "threads": b, "src": "battery"} for b in bats])
        run.drive(RT, cfg, ["replay", seqc, seqt, rangef], timeout=900)
        seq = vlib.read_ndjson(seqt)
        cases = []
        for bi, (b, ref) in enumerate(zip(bats, seq)):
            segs = ref["out"]["segs"]; exp = ref["out"]["results"]
            sch, n = schedules(run, b, segs, limit, vlib.seed() * 101 + bi)
            for s in sch:
                cases.append({"op": "rt.schedule", "threads": b, "schedule": s, "expect": exp, "expect_segs": segs, "battery": bi, "interleavings": n, "src": "tlc"})
                run.classes.add((cfg, bi, tuple(s)) if alternations(s) >= 2 else None)
            for k in range(2 if tier == "quick" else 10):
                cases.append({"op": "rt.free", "threads": b, "expect": exp, "expect_segs": segs, "battery": bi, "rep": k, "src": "free"})
        run.classes.discard(None)
        cf = os.path.join(sc, "rt.sched.%s.cases.ndjson" % cfg); tf = os.path.join(sc, "rt.sched.%s.trace.ndjson" % cfg)
        vlib.write_ndjson(cf, cases)
        run.drive(RT, cfg, ["replay", cf, tf, rangef], timeout=3000)
        nsched += len(cases)
        traces += [seqt, tf]
    fails = run.validate(RT, traces, timeout=1800)
    # (4) ThreadSanitizer as an observer of the free-running batteries
    tsan_reports = []
    if True:
        try:
            exe = vlib.build_driver("drv_runtime", "tsan", ["drv_runtime.cpp"], extra_flags=['-DVERIF_CFG="tsan"'], libs=())
            cf = os.path.join(sc, "rt.tsan.cases.ndjson"); tf = os.path.join(sc, "rt.tsan.trace.ndjson")
            vlib.write_ndjson(cf, [{"op": "rt.free", "threads": b, "expect": [], "expect_segs": [], "battery": i, "src": "tsan"} for i, b in enumerate(bats) for _ in range(2 if tier == "quick" else 8)])
            p = subprocess.run([exe, "replay", cf, tf, "/dev/null"], stdout=subprocess.PIPE, stderr=subprocess.STDOUT, text=True, timeout=1800,
                               env=dict(os.environ, TSAN_OPTIONS="halt_on_error=0 report_signal_unsafe=0 exitcode=0"))
            for m in re.finditer(r"WARNING: ThreadSanitizer: ([^\n]*)\n(.*?)(?=\n={18}|\Z)", p.stdout, flags=re.S):
                loc = re.search(r"#\d+ (\S+) (/[^\s:]+/(?:src|include)/[^\s:]+:\d+)", m.group(2))
                tsan_reports.append("%s at %s" % (m.group(1).strip(), (loc.group(1) + " " + os.path.relpath(loc.group(2), vlib.REPO)) if loc else "?"))
            run.configs.add("tsan")
        except Infra as e:
            run.notes.append("ThreadSanitizer observer not run: %s" % str(e)[:200])
    for rep in sorted(set(tsan_reports)):
        fails.append(({"op": "rt.tsan", "cfg": "tsan", "report": rep}, ["tsan:" + rep[:120]]))
    def key_of(ev, labels):
        if ev.get("op") == "rt.symbols":
            bad = [s for s in ev.get("undefined", [])]
            return "rt.symbols:%s:%s" % (ev.get("cfg"), "+".join(labels))
        if ev.get("op") == "rt.tsan": return "rt.tsan:%s" % labels[0]
        ch = ",".join(sorted(set(ev.get("out", {}).get("lib_changed", []) + ev.get("out", {}).get("lib_changed_by_fixture", []))))[:160]
        return "rt.run:%s:%s:%s" % (ev.get("cfg"), "+".join(labels), ch)
    def confirm(ev, labels):
        if ev.get("op") in ("rt.symbols", "rt.tsan"): return True
        if "lib-state-constant" in labels or "dispatch-written-once" in labels: return True
        # a result mismatch under a schedule: repeat the same schedule
        try:
            cfg = ev.get("cfg", "asm"); exe = RT.exe(cfg); lib, _, _ = vlib.build_lib(cfg)
            rangef = os.path.join(sc, "ranges.%s.txt" % cfg)
            inp = {k: v for k, v in ev.items() if k not in ("cfg", "out")}
            c1 = os.path.join(sc, "rt.one.ndjson"); t1 = c1 + ".out"; vlib.write_ndjson(c1, [inp])
            run.drive(RT, cfg, ["replay", c1, t1, rangef])
            return bool(run.validate(RT, [t1]))
        except Infra:
            return True
    # one violation per distinct key
    run.classify(fails, key_of, confirm)
    run.extra.update({"schedules_executed": nsched, "symbol_tables": {e["cfg"]: e["undefined"] for e in sym_events}, "tsan_reports": sorted(set(tsan_reports))})
    run.assumptions += ["interleavings are at callback granularity: between callbacks the threads run truly concurrently, which the free-running and "
                        "ThreadSanitizer runs observe but do not enumerate",
                        "'no system calls' is checked at the level of undefined symbols of the object files",
                        "the writable image is taken per symbol from the driver's static link of the library rebuilt from the tree under test"]
    return run.finish(RULE, "MC_Runtime: 3 threads x 2 calls x 1-3 segments, every interleaving; Gen_Runtime: every interleaving of a battery when there are few, TLC simulation otherwise")

def replay(path):
    d = json.load(open(path))
    ev = d["event"]
    if ev.get("op") in ("rt.symbols", "rt.tsan"):
        print("replay: table-level finding (%s); re-run `bin/check C20 quick`" % d.get("key")); return 1
    run = Run("C20", "quick")
    sc = vlib.scratch()
    cfg = ev.get("cfg", "asm"); exe = RT.exe(cfg); lib, _, _ = vlib.build_lib(cfg)
    rangef = os.path.join(sc, "ranges.%s.txt" % cfg); image_ranges(exe, lib, rangef)
    inp = {k: v for k, v in ev.items() if k not in ("cfg", "out")}
    c1 = os.path.join(sc, "rt.one.ndjson"); t1 = c1 + ".out"; vlib.write_ndjson(c1, [inp])
    run.drive(RT, cfg, ["replay", c1, t1, rangef])
    f = run.validate(RT, [t1])
    if f:
        print("VIOLATION property=C20 replay=%s" % path); print("  labels=%s" % f[0][1]); return 1
    print("replay: run accepted"); return 0
