"""encoding / hashing / sampling family: drv_codec + Trace_Codec (C09, C10)"""
import vlib
from engine import Family, rerun
CODEC = Family("drv_codec", ["drv_codec.cpp"], "Trace_Codec")

def key_of(ev, labels):
    labels = [l for l in labels if not l.startswith("diag.")]
    return "%s:g%s:%s:c%s:chk%s:%s:%s" % (ev.get("op"), ev.get("g", "-"), ev.get("cls", "-"), ev.get("compressed", "-"), ev.get("checked", "-"), ev.get("cfg"), "+".join(labels))

def class_of(ev):
    n = len(ev.get("out", {}).get("reqs", []))
    return (ev.get("op"), ev.get("g"), ev.get("cls"), ev.get("compressed"), ev.get("checked"), ev.get("cfg"), ev.get("src"),
            ev.get("out", {}).get("ok"), min(n, 12))

def gating(fails):
    """drop diagnostics; returns (gating fails, number of diagnostic-only lines)"""
    out, diag = [], 0
    for ev, labels in fails:
        g = [l for l in labels if not l.startswith("diag.")]
        if g: out.append((ev, g))
        else: diag += 1
    return out, diag

def confirm_factory(run):
    def confirm(ev, labels):
        try:
            r = rerun(run, CODEC, ev)
            return bool([l for l in r if not l.startswith("diag.")])
        except vlib.Infra:
            return True
    return confirm
