"""marshalling family: drv_marshal + Trace_Marshal (C15, C17)"""
import vlib
from engine import Family, rerun
MAR = Family("drv_marshal", ["drv_marshal.cpp"], "Trace_Marshal")

def key_of(ev, labels):
    return "%s:%s:c%s:chk%s:%s:%s:fb%s:%s:%s" % (ev.get("op"), ev.get("kind"), ev.get("comp"), ev.get("checked", "-"), ev.get("cls", "-"), ev.get("content", "-"),
                                             ev.get("fb", "-"), ev.get("cfg"), "+".join(labels))
def class_of(ev):
    o = ev.get("obj", {})
    cnt = len(o.get("idx", o.get("h", []))) if isinstance(o, dict) else 0
    return (ev.get("op"), ev.get("kind"), ev.get("comp"), ev.get("checked"), ev.get("cls"), ev.get("content"), ev.get("fb"), ev.get("cfg"), cnt,
            o.get("sigs") if isinstance(o, dict) else None)
def confirm_factory(run):
    def confirm(ev, labels):
        try:
            return bool(rerun(run, MAR, ev))
        except vlib.Infra:
            return True
    return confirm
