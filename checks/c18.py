"""C18 - results do not depend on whether the output object aliases an input.

Alias.tla computes, from the operation catalogue extracted from the headers of the tree under test,
which (operation, aliasing pattern) pairs the interfaces permit and which driver events execute
them.  For every such pair TLC-generated cases of the owning layer are run twice - output distinct,
output aliased as the pattern says - on the rebuilt library; the layer's trace specification judges
both runs against the mathematical definition, and MC_Alias (judge phase) decides: aliased run
rejected while its twin is accepted = violation."""
import os, json, re, threading
import vlib
from vlib import Infra, log
from engine import Run, rerun
from fam_field import FIELD
from fam_tower import TOWER, tower_machine
from fam_curve import CURVE
from fam_pairing import PAIR
from fam_wkdibe import WK

RULE = ("obligations = every (declared operation, aliasing pattern) the headers of the tree under test permit (Alias.tla over the catalogue "
        "extracted by tools/extract_ops.py: output = this / first writable operand; an input may be the output iff const, same object type and "
        "not __restrict; patterns = non-empty sets of such inputs), in the layers the property names; for each bound obligation TLC-generated "
        "cases of the owning layer (boundary / shape / relation / representation classes) are executed with the output distinct and with the "
        "output aliased, on assembly and portable builds; both runs are validated by the layer's trace specification and MC_Alias judges "
        "aliased-rejected-while-twin-accepted. distinct = (event key, pattern code, configuration, operand class)")

FAMS = {"field": FIELD, "tower": TOWER, "curve": CURVE, "pair": PAIR, "wk": WK}

def akey(ev):
    op = ev.get("op", "")
    if op.startswith("raw."): return op
    if op.startswith("fp."): return "%s:%s" % (op, ev.get("f"))
    if op.startswith("ext."): return "%s:%s" % (op, ev.get("lvl"))
    if op == "mul.gen": return "mul.gen:%s:%s" % (ev.get("routine"), ev.get("g"))
    if op.startswith("pt.") or op.startswith("mul."): return "%s:%s:%s" % (op, ev.get("api", "cpp"), ev.get("g"))
    if op == "gt.exp": return "gt.exp:%s" % ev.get("variant")
    if op == "gt.op": return "gt.op:%s" % ev.get("which")
    if op == "gt.random": return "gt.random:%s" % ev.get("variant")
    if op == "wk.history": return ev.get("akey", "wk")
    return op

def fam_of(key):
    if key.startswith(("raw.", "fp.")): return "field"
    if key.startswith("ext."): return "tower"
    if key.startswith(("pt.", "mul.")): return "curve"
    if key.startswith("wk:"): return "wk"
    return "pair"

def op_class(c):
    """coarse operand class used to spread the sample over the generator's case classes"""
    def z(v):
        if isinstance(v, list) and v and isinstance(v[0], int): return "0" if not any(v) else "x"
        if isinstance(v, list): return "".join(z(x) for x in v)
        return "-"
    return (c.get("rel"), c.get("power"), c.get("bits"), c.get("affine"), z(c.get("a")), z(c.get("b")), z(c.get("base")), c.get("n0"), c.get("n1"), c.get("amt"))

def pick(cases, n):
    """up to n cases, one per operand class first (classes in a seed-dependent order), then evenly spread"""
    import random
    cases = list(cases); random.Random(vlib.seed()).shuffle(cases)
    seen, first, rest = set(), [], []
    for c in cases:
        k = op_class(c)
        if k in seen: rest.append(c)
        else: seen.add(k); first.append(c)
    out = first[:n]
    if len(out) < n and rest:
        step = max(1, len(rest) // (n - len(out)))
        out += rest[::step][:n - len(out)]
    return out

def plan_phase(run, sc):
    ops = os.path.join(sc, "ops.ndjson")
    vlib.sh(["python3", os.path.join(vlib.VERIF, "tools", "extract_ops.py"), ops])
    planf = os.path.join(sc, "plan.ndjson")
    r = vlib.tlc("MC_Alias", None, env={"OPS": ops, "PHASE": "plan", "OUT": planf}, workers=1, timeout=300)
    if not r.ok or not os.path.exists(planf): raise Infra("MC_Alias plan phase failed:\n" + r.out[-3000:])
    run.mc_runs.append({"module": "MC_Alias", "role": "obligations", "wall_s": round(r.wall, 1)})
    rows = vlib.read_ndjson(planf)
    plan = [x for x in rows if "idx" in x]
    other = [x for x in rows if "other" in x]
    dead = [x for x in rows if "dead" in x]
    return ops, plan, other, dead

def generate_all(run, tier):
    """run the layer generators concurrently; returns {family: [cases]}"""
    jobs = {"field": ("Gen_Field", {}), "tower": ("Gen_Tower", {}), "curve_p": ("Gen_Curve", {"WHAT": "points"}),
            "curve_s": ("Gen_Curve", {"WHAT": "scalars"}), "pair": ("Gen_Pairing", {"WHAT": "gt"}), "wk": ("Gen_WkdIbe", {"FAMILY": "inplace", "KEEP": 1})}
    res, errs = {}, []
    def work(name, mod, env):
        try:
            out = os.path.join(vlib.scratch(), "al.%s.cases.ndjson" % name)
            e = {"OUT": out, "TIER": "quick", "SEED": vlib.seed()}; e.update(env)
            r = vlib.tlc(mod, None, env=e, timeout=1500, workers=1, heap="6g")
            if r.rc != 0 or not os.path.exists(out): raise Infra("generator %s failed:\n%s" % (mod, r.out[-2000:]))
            res[name] = vlib.read_ndjson(out)
            run.mc_runs.append({"module": mod, "role": "generator", "wall_s": round(r.wall, 1)})
        except Exception as ex:
            errs.append(ex)
    ths = [threading.Thread(target=work, args=(n, m, e)) for n, (m, e) in jobs.items()]
    [t.start() for t in ths]; [t.join() for t in ths]
    if errs: raise errs[0]
    return {"field": res["field"], "tower": res["tower"], "curve": res["curve_p"] + res["curve_s"], "pair": res["pair"], "wk": res["wk"]}

def build_cases(required, cases_by_fam, per_key):
    """for each required (key, codes): base cases (alias-free twins) and their aliased variants, tagged with a pair id"""
    out = {f: [] for f in FAMS}
    holes = []
    aid = 0
    bykey = {}
    for f, cs in cases_by_fam.items():
        for c in cs:
            bykey.setdefault(akey(c), []).append(c)
    for key in sorted(required):
        codes = sorted(required[key])
        cands = bykey.get(key, [])
        if key.startswith("wk:"):
            # histories generated in pairs by Gen_WkdIbe (family "inplace"): same steps, output key distinct / = input key
            pairs = {}
            for c in cands: pairs.setdefault(c["aid"], []).append(c)
            ids = sorted(pairs)
            if not ids: holes += [(key, c) for c in codes]; continue
            import random
            random.Random(vlib.seed()).shuffle(ids)
            for i in ids[:per_key[2]]:
                for c in sorted(pairs[i], key=lambda x: x["alias"]):
                    d = dict(c); d["aid"] = 1000000 + i; d["src"] = "alias" if d["alias"] else "alias-twin"
                    out["wk"].append(d)
            continue
        # bases that cannot alias (affine base for a projective result) are no use here
        cands = [c for c in cands if not (c.get("op", "").startswith("mul.") and c.get("affine", 0) == 1)]
        if any("b" in c for c in cands): cands = [c for c in cands if "b" in c]     # binary operations: drop the generator's unary shorthands
        # de-duplicate modulo the alias field
        seen, uniq = set(), []
        for c in cands:
            d = dict(c); d.pop("alias", None)
            k = json.dumps(d, sort_keys=True)
            if k not in seen: seen.add(k); uniq.append(d)
        if not uniq:
            holes += [(key, c) for c in codes]; continue
        fam = fam_of(key)
        n = per_key[0] if fam in ("field", "tower") else per_key[1] if key.startswith("pt.") else per_key[2]
        for base in pick(uniq, n):
            for code in codes:
                aid += 1
                twin = dict(base); twin["alias"] = 0; twin["aid"] = aid; twin["acode"] = code; twin["akey"] = key; twin["src"] = "alias-twin"
                if code == 3 and "b" in twin: twin["b"] = twin["a"]          # out = a = b: the twin computes op(a, a) into a fresh object
                al = dict(base); al["alias"] = code; al["aid"] = aid; al["acode"] = code; al["akey"] = key; al["src"] = "alias"
                if code == 3 and "b" in al: al["b"] = al["a"]
                out[fam] += [twin, al]
    return out, holes

def run(tier):
    run = Run("C18", tier)
    sc = vlib.scratch()
    ops, plan, other, dead = plan_phase(run, sc)
    required = {}
    for p in plan:
        for k in p["keys"]:
            required.setdefault(k, set()).update(p["codes"])
    uncovered = ["%s %s::%s#%d (codes %s)" % (p["file"], p["struct"], p["name"], p["ovl"], p["codes"]) for p in plan if not p["keys"]]
    if dead:
        run.notes.append("bindings naming operations the headers no longer declare: %s" % dead)
    cases_by_fam = generate_all(run, tier)
    per_key = (16, 8, 4) if tier == "quick" else (80, 40, 16)     # cheap layers / point operations / scalar multiplications and GT
    cases, holes = build_cases(required, cases_by_fam, per_key)
    if holes: raise Infra("no generated case for required (key, code) pairs: %s" % holes[:10])
    cfgs = ["asm", "p32"] if tier == "quick" else ["asm", "p64", "p32"]
    verdict = {}      # (key, code) -> [twin_ok, alias_bad, n, first bad event, labels]
    twin_bad = []
    for fam, cs in cases.items():
        if not cs: continue
        cf = os.path.join(sc, "al.%s.ndjson" % fam)
        traces = []
        for i, cfg in enumerate(cfgs):
            sub = cs
            if tier == "quick" and cfg != "asm":      # quick: the second configuration gets every other pair
                sub = [c for c in cs if vlib.pick_hash(c["aid"], 2, vlib.seed())]
            vlib.write_ndjson(cf + "." + cfg, sub)
            out = os.path.join(sc, "al.%s.%s.trace.ndjson" % (fam, cfg))
            run.drive(FAMS[fam], cfg, ["replay", cf + "." + cfg, out]); traces.append(out)
        fails = run.validate(FAMS[fam], traces, timeout=3000)
        fails = [(e, [l for l in ls if not l.startswith("diag.")]) for e, ls in fails]
        bad = {}
        for e, ls in fails:
            if any(l.startswith("pre.") for l in ls): raise Infra("precondition label %s on alias case %s" % (ls, e.get("akey")))
            if ls: bad[(e["aid"], e["cfg"], e["alias"])] = (e, ls)
        for tp in traces:
            for e in vlib.read_ndjson(tp):
                if e.get("alias", 0) == 0: continue
                k = (e["akey"], e["acode"])
                v = verdict.setdefault(k, [0, 0, 0, None, None])
                v[2] += 1
                tb = (e["aid"], e["cfg"], 0) in bad
                ab = (e["aid"], e["cfg"], e["alias"]) in bad
                if tb: twin_bad.append("%s code %s %s" % (k[0], k[1], e["cfg"])); continue
                v[0] += 1
                if ab:
                    v[1] += 1
                    if v[3] is None: v[3], v[4] = bad[(e["aid"], e["cfg"], e["alias"])]
                run.classes.add((k[0], k[1], e["cfg"], op_class(e)))
    # design level, from the source text: the tower's straight-line functions executed by TowerMachine.tla with the output bound to an input
    tm_cases, tm_fails, tm_unsupported = tower_machine(run, tier, with_alias=True)
    tm_bad = {(e["cls"], e["name"], e["seed"], e["alias"]): (e, ls) for e, ls in tm_fails}
    for c in tm_cases:
        if c["alias"] == 0: continue
        k = ("src:%s::%s" % (c["cls"], c["name"]), c["alias"])
        v = verdict.setdefault(k, [0, 0, 0, None, None]); v[2] += 1
        if (c["cls"], c["name"], c["seed"], 0) in tm_bad: twin_bad.append("%s code %s" % k); continue
        v[0] += 1
        hit = tm_bad.get((c["cls"], c["name"], c["seed"], c["alias"]))
        if hit:
            v[1] += 1
            if v[3] is None:
                e = dict(hit[0]); e["akey"] = k[0]; e["acode"] = k[1]; v[3], v[4] = e, hit[1]
        run.classes.add((k[0], k[1], "source", c["seed"] % 3))
    run.extra["source_functions_not_straight_line"] = tm_unsupported
    # the specification judges
    vf = os.path.join(sc, "verdicts.ndjson")
    vlib.write_ndjson(vf, [{"key": k[0], "code": k[1], "twin_ok": v[0], "alias_bad": v[1], "n": v[2]} for k, v in sorted(verdict.items())])
    r = vlib.tlc("MC_Alias", None, env={"OPS": ops, "PHASE": "judge", "VERDICTS": vf}, workers=1, timeout=300)
    if not r.ok: raise Infra("MC_Alias judge phase failed:\n" + r.out[-3000:])
    run.mc_runs.append({"module": "MC_Alias", "role": "judge", "wall_s": round(r.wall, 1)})
    flat = r.out.replace("\n", " ")
    m = re.search(r'"holes",\s*(\{.*?\})\s*>>', flat)
    if m and m.group(1).strip() != "{}": raise Infra("required aliasing patterns not exercised: %s" % m.group(1)[:1500])
    judged_bad = set((a, int(b)) for a, b in re.findall(r'<<\s*"ALIAS-VIOLATION",\s*"([^"]+)",\s*(\d+)\s*>>', flat))
    fails = []
    for k in sorted(judged_bad):
        ev, ls = verdict[k][3], verdict[k][4]
        fails.append((ev, ls))
    def key_of(ev, labels): return "alias:%s:code%s:%s:%s" % (ev["akey"], ev["acode"], ev["cfg"], "+".join(labels))
    def confirm(ev, labels):
        if ev.get("op", "").startswith("tm."): return True
        try: return bool(rerun(run, FAMS[fam_of(ev["akey"])], ev))
        except Infra: return True
    run.classify(fails, key_of, confirm)
    # the final exponentiation and the cyclotomic map, executed on exponents (ExpMachine) with the output distinct from / bound to the input:
    # the two bindings must agree (an output read as if it were an input shows as a fault in exactly one of them)
    import fam_tower
    ex = fam_tower.exp_machine(run)
    ex_fails = []
    for fn in ("final_exponentiation", "map_to_cyclotomic"):
        v0, v1 = ex[(fn, 0)][0], ex[(fn, 1)][0]
        if "EXP-SKIP" in (v0, v1): run.notes.append("exponent machine not applicable to %s" % fn); continue
        run.classes.add(("exp", fn))
        if (v0 == "EXP-OK") != (v1 == "EXP-OK"):
            bad = 0 if v0 != "EXP-OK" else 1
            ex_fails.append(({"op": "exp.machine", "name": fn, "alias": bad, "verdict": ex[(fn, bad)][0], "detail": ex[(fn, bad)][1], "cfg": "source",
                              "akey": "src:exp:" + fn, "acode": bad}, ["alias-dependent"]))
    run.classify(ex_fails, key_of, None)
    if twin_bad: run.notes.append("alias-free twins rejected (owned by the layer's own property, not counted here): %s" % sorted(set(twin_bad))[:20])
    nreq = sum(len(v) for v in required.values())
    run.extra.update({"alias_obligations": {"catalogue_operations_with_patterns": len(plan), "required_key_code_pairs": nreq,
                                      "exercised_pairs": len(verdict), "aliased_runs_judged": sum(v[2] for v in verdict.values())},
                      "uncovered_operations": uncovered,
                      "other_layers_not_in_property": ["%s %s (codes %s)" % (o["file"], o["name"], o["codes"]) for o in other]})
    run.assumptions += ["catalogue extraction is a shallow header parse (declarations on one line); unparsed declarations would be missing obligations",
                        "operand values are sampled per case class; value-independent (symbolic) hazard analysis is not part of this check yet"]
    return run.finish(RULE)

def replay(path):
    d = json.load(open(path))
    ev = d["event"]
    if ev.get("op") == "exp.machine" or ev.get("op", "").startswith("tm."):
        import fam_tower
        if ev.get("op") == "exp.machine":
            ex = fam_tower.exp_machine(None)
            v0, v1 = ex[(ev["name"], 0)][0], ex[(ev["name"], 1)][0]
            if "EXP-SKIP" not in (v0, v1) and (v0 == "EXP-OK") != (v1 == "EXP-OK"):
                print("VIOLATION property=C18 replay=%s" % path); print("  %s: distinct output %s, output = input %s" % (ev["name"], v0, v1)); return 1
            print("replay: both bindings %s" % v0); return 0
        twin = dict(ev); twin["alias"] = 0
        import io, contextlib
        with contextlib.redirect_stdout(io.StringIO()):
            t = fam_tower.replay_special("C18", path, twin)
            a = fam_tower.replay_special("C18", path, ev)
        if a and not t:
            print("VIOLATION property=C18 replay=%s" % path); return 1
        print("replay: aliased run %s, twin %s" % ("rejected" if a else "accepted", "rejected" if t else "accepted")); return 0
    run = Run("C18", "quick")
    fam = FAMS[fam_of(ev["akey"])]
    twin = dict(ev); twin["alias"] = 0
    t = rerun(run, fam, twin)
    a = rerun(run, fam, ev)
    if a and not t:
        print("VIOLATION property=C18 replay=%s" % path); print("  labels=%s" % a); return 1
    print("replay: aliased run %s, twin %s" % ("rejected" if a else "accepted", "rejected" if t else "accepted"))
    return 0
