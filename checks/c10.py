"""C10 - hash-to-scalar, hash-to-curve and random sampling always land in the right set."""
import os, json
import vlib, fam_consts
from engine import Run, replay_event
from fam_codec import CODEC, key_of, class_of, confirm_factory, gating

RULE = ("MC: the rejection samplers as TLA+ state machines (Sampling.tla) over every stream of <= 5 symbols from a 7-symbol alphabet "
        "(range, no over-read, totality, uniformity as a bijection). Conformance: hash inputs around the modulus / with flag bits, and "
        "scripted random streams served through the library's random-source callback that force 0..k rejections (candidate = modulus, "
        "above it, unused top bits set, digit tuples recombining to >= r), plus pseudo-random streams with many 0xff bytes; TLC validates "
        "value / range / first-point / subgroup facts (Trace_Codec.tla); the consumption protocol is a non-gating diagnostic. "
        "distinct = (op, group, configuration, source, number of requests made)")

def run(tier):
    run = Run("C10", tier)
    fam_consts.audit(run, tier)          # the cofactors, from the source text (MC_Consts)
    sc = vlib.scratch()
    run.mc("Sampling", "MC_Sampling.cfg", timeout=600)
    cases = run.generate("Gen_Codec", "hash", env={"WHAT": "hash"})
    traces = []
    for cfg in ["asm", "p64", "p32"]:
        out = os.path.join(sc, "hash.%s.trace.ndjson" % cfg)
        run.drive(CODEC, cfg, ["replay", cases, out]); traces.append(out)
    nrand = 80 if tier == "quick" else 2000
    out = os.path.join(sc, "hash.rand.trace.ndjson")
    run.drive(CODEC, "asm", ["random", vlib.seed() * 23 + 2, nrand, out])
    only = os.path.join(sc, "hash.rand.only.ndjson")
    with open(out) as f, open(only, "w") as o:
        for line in f:
            if '"op":"enc.' not in line: o.write(line)
    traces.append(only)
    fails = run.validate(CODEC, traces, timeout=3000)
    run.count_classes(traces, class_of)
    fails, ndiag = gating(fails)
    if ndiag: run.notes.append("%d events whose request sequence differs from the specification's sampler protocol (diagnostic, not gating)" % ndiag)
    # platform independence: identical inputs give identical outputs on every configuration
    seen = {}
    for tp in traces[:3]:
        for line in open(tp):
            ev = json.loads(line)
            ident = json.dumps({k: v for k, v in ev.items() if k not in ("cfg", "out")}, sort_keys=True)
            o = json.dumps({k: v for k, v in ev["out"].items()}, sort_keys=True)
            if ident in seen and seen[ident] != o:
                fails.append((ev, ["platforms-differ"]))
            seen.setdefault(ident, o)
    run.classify(fails, key_of, confirm_factory(run))
    run.assumptions += ["uniformity is established on the sampler specification (bijection), the implementation is compared with controlled randomness only"]
    return run.finish(RULE, "Sampling.tla: all streams of length <= 5 over 7 symbols, both samplers")

def replay(path):
    return replay_event("C10", path, CODEC, key_of)
