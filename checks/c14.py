"""C14 - WKD-IBE (family "adjust"); see fam_wkdibe.py and spec/Gen_WkdIbe.tla, spec/Trace_WkdIbe.tla, spec/WkdIbe.tla."""
from engine import replay_event
from fam_wkdibe import WK, key_of, run_family
RULE = ("histories enumerated by TLC (Gen_WkdIbe.tla, family 'adjust') over l = 3 slots: every documented attribute list per step (slot unlisted / hidden / "
        "value incl. values >= r, equal-mod-r values and 2^256-1; both settings of omit-all-unless-present; with and without signature support), "
        "executed through the C API with scripted randomness on parameters of known discrete logarithms; TLC replays each history in the exponent "
        "(WkdIbe.tla) and requires every recorded slot list, group element, decrypted message and verdict to be exactly the predicted one. "
        "distinct = (family, step kinds with the free/fixed/hidden shape of every list, flags, configuration)")
def run(tier):
    return run_family("C14", tier, "adjust", 60, 48, RULE, cfgs_quick=("asm", "p32"))
def replay(path):
    return replay_event("C14", path, WK, key_of)
