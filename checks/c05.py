"""C05 - G1 and G2 point arithmetic is the elliptic-curve group law."""
import os
import vlib
from engine import Run, replay_event
from fam_curve import CURVE, key_of, class_of, confirm_factory

RULE = ("cases = TLC-enumerated scenario tuples group x operation x relation class (generic, equal, opposite, either/both identity, "
        "points outside the subgroup, double-vs-sum) x Jacobian representative of each operand (z = 1, 2, q-1, pseudo-random; identity as "
        "(0,1,0) or (x,y,0)) x API (C++ / C) x alias pattern, witnesses built with the affine chord-and-tangent law (Gen_Curve.tla), "
        "replayed on the rebuilt library; recorded outputs validated by TLC in any representative against Curve.tla. distinct = (op, group, "
        "relation, API, alias, configuration, representation class of each operand)")

def run(tier):
    run = Run("C05", tier)
    sc = vlib.scratch()
    cases = run.generate("Gen_Curve", "points", env={"WHAT": "points"})
    traces = []
    for cfg in (["asm", "p32"] if tier == "quick" else ["asm", "p64", "p32"]):
        out = os.path.join(sc, "pt.%s.trace.ndjson" % cfg)
        run.drive(CURVE, cfg, ["replay", cases, out]); traces.append(out)
    nrand = 150 if tier == "quick" else 3000
    out = os.path.join(sc, "pt.rand.trace.ndjson")
    run.drive(CURVE, "asm", ["random", vlib.seed() * 13, nrand, out]); traces.append(out)
    fails = run.validate(CURVE, traces, timeout=3000)
    run.count_classes(traces, class_of)
    run.classify(fails, key_of, confirm_factory(run))
    run.assumptions += ["the published generator coordinates are ASSUME-checked on the curve and of order r by TLC",
                        "no exhaustive toy-curve instance of the coded Jacobian formulas yet (planned CurveAlg)"]
    return run.finish(RULE)

def replay(path):
    return replay_event("C05", path, CURVE, key_of)
