"""C05 - G1 and G2 point arithmetic is the elliptic-curve group law."""
import os
import vlib, fam_consts
from engine import Run, replay_event
from fam_curve import CURVE, key_of, class_of, confirm_factory

RULE = ("cases = TLC-enumerated scenario tuples group x operation x relation class (generic, equal, opposite, either/both identity, "
        "points outside the subgroup, double-vs-sum) x Jacobian representative of each operand (z = 1, 2, q-1, pseudo-random; identity as "
        "(0,1,0) or (x,y,0)) x API (C++ / C) x alias pattern, witnesses built with the affine chord-and-tangent law (Gen_Curve.tla), "
        "replayed on the rebuilt library; recorded outputs validated by TLC in any representative against Curve.tla. distinct = (op, group, "
        "relation, API, alias, configuration, representation class of each operand)")

def run(tier):
    run = Run("C05", tier)
    fam_consts.audit(run, tier)          # the numeric constants this property rests on, from the source text (MC_Consts)
    sc = vlib.scratch()
    # Tier A: the coded Jacobian formulas (CurveAlg.tla) against the affine law for every pair of representatives on toy curves
    for cfg in (["MC_CurveAlg_p19", "MC_CurveAlg_p13"] if tier == "quick" else ["MC_CurveAlg_p19", "MC_CurveAlg_p13", "MC_CurveAlg_p31", "MC_CurveAlg_p43"]):
        run.mc("MC_CurveAlg", cfg + ".cfg", timeout=1200)
    cases = run.generate("Gen_Curve", "points", env={"WHAT": "points"})
    traces = []
    for cfg in (["asm", "p32"] if tier == "quick" else ["asm", "p64", "p32"]):
        out = os.path.join(sc, "pt.%s.trace.ndjson" % cfg)
        run.drive(CURVE, cfg, ["replay", cases, out]); traces.append(out)
    nrand = 150 if tier == "quick" else 3000
    out = os.path.join(sc, "pt.rand.trace.ndjson")
    run.drive(CURVE, "asm", ["random", vlib.seed() * 13, nrand, out]); traces.append(out)
    fails = run.validate(CURVE, traces, timeout=3000)
    # diagnostic only: does the recorded Jacobian triple equal the triple the modelled formula yields? (a correct
    # implementation may return another representative; then the Tier A transcription needs updating, nothing else)
    shape_off = [e for e, l in fails if "diag.alg-shape" in l]
    run.extra["outputs_not_in_modelled_shape"] = len(shape_off)
    if shape_off: run.notes.append("%d point operations returned a correct value in another representative than CurveAlg.tla predicts (first: %s %s)" % (len(shape_off), shape_off[0].get("op"), shape_off[0].get("rel")))
    fails = [(e, [x for x in l if not x.startswith("diag.")]) for e, l in fails]
    fails = [(e, l) for e, l in fails if l]
    run.count_classes(traces, class_of)
    run.classify(fails, key_of, confirm_factory(run))
    run.assumptions += ["the published generator coordinates are ASSUME-checked on the curve and of order r by TLC",
                        "CurveAlg.tla is a transcription of the coded formulas; its fidelity is observed (not proved): every recorded output of add / mixed add / double equalled the exact Jacobian triple it predicts"]
    return run.finish(RULE, "MC_CurveAlg: coded add / mixed add / double / negate / equal / conversions = affine group law for every pair of points and every "
                      "Jacobian representative (all z, identities with arbitrary x, y) on toy curves over F_19, F_13 (with 2-torsion)" + ("" if tier == "quick" else ", F_31, F_43"))

def replay(path):
    return replay_event("C05", path, CURVE, key_of)
