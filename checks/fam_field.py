"""field-layer family: drv_field + Trace_Field (used by C02, C03, C18)"""
import os, json
import vlib
from engine import Family, Run, rerun

FIELD = Family("drv_field", ["drv_field.cpp"], "Trace_Field")

def key_of(ev, labels):
    op = ev.get("op")
    if op == "fp.cmp" and labels == ["cmp.integer-order"]:
        # the rule, not the operands: result follows the order of the Montgomery residues
        return "fp.cmp:montgomery-residue-order"
    k = "%s:%s:%s:%s:alias%s:%s" % (op, ev.get("f", ev.get("impl", "")), ev.get("cfg"), ev.get("backend"), ev.get("alias", 0), "+".join(labels))
    return k

def class_of(ev):
    """case class = (operation, field/impl, alias pattern, configuration, back end, source, operand class)"""
    def oc(name):
        v = ev.get(name)
        if not isinstance(v, list): return "-"
        n = vlib.from_le(v)
        if n == 0: return "0"
        if n == 1: return "1"
        bl = n.bit_length()
        tz = (n & -n).bit_length() - 1
        ones = bin(n).count("1")
        if ones == bl: return "2^%d-1" % bl
        if ones == 1: return "2^%d" % (bl - 1)
        if tz >= 32: return "tz%d" % (tz // 32 * 32)
        return "len%d" % ((bl + 63) // 64)
    return (ev.get("op"), ev.get("f", ev.get("impl", "")), ev.get("alias", 0), ev.get("cfg"), ev.get("backend"), ev.get("src"), oc("a"), oc("b"))

def confirm_factory(run):
    def confirm(ev, labels):
        try:
            return bool(rerun(run, FIELD, ev))
        except vlib.Infra:
            return True
    return confirm

def filter_cases(cases_path, out_path, pred):
    n = 0
    with open(cases_path) as f, open(out_path, "w") as o:
        for line in f:
            if line.strip() and pred(json.loads(line)):
                o.write(line); n += 1
    return n
