"""C15 - scheme objects survive marshalling unchanged and length accounting is exact."""
import os
import vlib
from engine import Run, replay_event
from fam_marshal import MAR, key_of, class_of, confirm_factory

RULE = ("MC: length functions and the set_length/allocate/unmarshal protocol as a TLA+ state machine for every buffer length <= 4096, both "
        "encodings, first byte 0/1/255 (Marshal.tla). Conformance: TLC builds every object kind (WKD-IBE params / master key / secret key / "
        "ciphertext / signature, LQ-IBE params / id / master key / secret key / ciphertext) x slot count x signature support x encoding from "
        "non-normalised Jacobian elements; the library marshals into a buffer of exactly the reported length ending at a guard page; TLC checks "
        "the byte layout (signature byte, element order, big-endian slot index, total length = length function), the recovered slot count, equality "
        "of the unmarshalled object (checked and unchecked; recomputed pairing for compressed parameters) and identical re-marshalling; buffers with "
        "one embedded element replaced by an invalid encoding must be rejected by validating unmarshal. distinct = (op, kind, encoding, checked, "
        "corruption class, configuration, slot count, signature support)")

def run(tier):
    run = Run("C15", tier)
    sc = vlib.scratch()
    run.mc("Marshal", "MC_Marshal.cfg", timeout=600)
    # the two length identities for EVERY slot count and buffer length (Apalache, symbolic, integer arithmetic only)
    ok, out = vlib.apalache("MarshalLen", "Inv", length=0, timeout=300)
    if ok is False: raise vlib.Infra("Apalache refutes the length identities of the specification itself:\n" + out[-2000:])
    run.extra["length_identities_unbounded"] = "discharged by Apalache (MarshalLen.tla, --length=0 --inv=Inv)" if ok else "not discharged (Apalache unavailable or timed out)"
    traces = []
    for what in ("objects", "bytes"):
        cases = run.generate("Gen_Marshal", what, env={"WHAT": what})
        for cfg in (["asm", "p32"] if tier == "quick" else ["asm", "p64", "p32"]):
            out = os.path.join(sc, "mar.%s.%s.trace.ndjson" % (what, cfg))
            run.drive(MAR, cfg, ["replay", cases, out]); traces.append(out)
    fails = run.validate(MAR, traces, timeout=3000)
    run.count_classes(traces, class_of)
    run.classify(fails, key_of, confirm_factory(run))
    return run.finish(RULE, "Marshal.tla: every n in 1..4096 x {params, key} x encoding x first byte")

def replay(path):
    return replay_event("C15", path, MAR, key_of)
