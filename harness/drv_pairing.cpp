// Pairing / target-group driver (C01, C07, C08): single pairings (affine, prepared, C API), pairing
// products over lists of mixed affine/prepared pair records (with the per-record loop state read back
// through the C mirror structs), and GT exponentiation / group operations / random exponentiation with
// a scripted random source.  Validated by spec/Trace_Pairing.tla.
#include "common.hpp"
#include "bls12_381/bls12_381.h"

Rng* g_rng = nullptr;
FILE* g_out = nullptr;

static std::vector<uint8_t> g_script;
static size_t g_script_pos = 0;
static JVal g_reqs;
static void scripted_random(void* p, size_t n) {
    uint8_t* b = (uint8_t*) p;
    for (size_t i = 0; i < n; i++) {
        if (g_script_pos < g_script.size()) b[i] = g_script[g_script_pos++];
        else b[i] = (uint8_t) (g_rng->next() >> 32);
    }
    if (g_reqs.a.size() < 2000) g_reqs.push(JVal::bytes(b, n));
}

// a prepared object is reused: before it is prepared for q it is prepared for a point of the other kind (the identity if q is finite, a
// finite point if q is the identity) -- what the object held before must not matter
static void prepare_other_kind(G2Prepared& pq, const G2Affine& q) {
    G2Affine other;
    if (q.is_zero()) other.copy(G2Affine::generator); else other.copy(G2Affine::zero);
    pq.prepare(other);
}

// the prepared-pair record's private cursor, if the record (still) has one; -7 otherwise (a record without it keeps its state somewhere else)
template <typename T> static auto read_cursor(const T& pp, int) -> decltype((long long) pp._coeff_idx) { return (long long) pp._coeff_idx; }
template <typename T> static long long read_cursor(const T&, long) { return -7; }

static void run_case(const JVal& in) {
    JVal ev = in;
    ev.set("cfg", VERIF_CFG);
    JVal out = JVal::obj();
    const std::string& op = in["op"].s;
    if (op == "pair.single") {
        G1Affine p; G2Affine q;
        if (in.has("pj")) { G1 pj; U(in["pj"], pj); p.from_projective(pj); } else U(in["p"], p);
        if (in.has("qj")) { G2 qj; U(in["qj"], qj); q.from_projective(qj); } else U(in["q"], q);
        std::string variant = in.str("variant", "affine");
        Fq12 r; memset(&r, 0xA5, sizeof r);
        if (variant == "affine") pairing(r, p, q);
        else if (variant == "prepared") { G2Prepared pq; memset((void*) &pq, 0xA5, sizeof pq); prepare_other_kind(pq, q); pq.prepare(q); pairing(r, p, pq); }
        else if (variant == "c") embedded_pairing_bls12_381_pairing((embedded_pairing_bls12_381_fq12_t*) &r, (embedded_pairing_bls12_381_g1affine_t*) &p, (embedded_pairing_bls12_381_g2affine_t*) &q);
        else if (variant == "c_prepared") {
            static embedded_pairing_bls12_381_g2prepared_t pq;
            prepare_other_kind(*reinterpret_cast<G2Prepared*>(&pq), q);
            embedded_pairing_bls12_381_g2prepared_prepare(&pq, (embedded_pairing_bls12_381_g2affine_t*) &q);
            embedded_pairing_bls12_381_prepared_pairing((embedded_pairing_bls12_381_fq12_t*) &r, (embedded_pairing_bls12_381_g1affine_t*) &p, &pq);
            out.set("prep_is_zero", (long long) (embedded_pairing_bls12_381_g2prepared_is_zero(&pq) ? 1 : 0));
        } else { out.set("skip", 1); }
        out.set("r", J(r)); out.set("p", J(p)); out.set("q", J(q));
    } else if (op == "pair.sum") {
        // entries: [{kind:"affine"|"prepared", p:g1affine, q:g2affine}], rounds: how many products over the same records
        const JVal& es = in["entries"];
        size_t n = es.a.size();
        std::vector<G1Affine> ps(n); std::vector<G2Affine> qs(n);
        std::vector<G2Prepared> preps(n);
        std::vector<embedded_pairing_bls12_381_affine_pair_t> aps;
        std::vector<embedded_pairing_bls12_381_prepared_pair_t> pps;
        for (size_t i = 0; i < n; i++) { U(es.a[i]["p"], ps[i]); U(es.a[i]["q"], qs[i]); }
        for (size_t i = 0; i < n; i++) {
            // an entry may name the operand OBJECT of an earlier entry (same pointer in several pair records)
            size_t pi = es.a[i].has("sharep") ? (size_t) es.a[i]["sharep"].i : i, qi = es.a[i].has("shareq") ? (size_t) es.a[i]["shareq"].i : i;
            if (es.a[i]["kind"].s == "affine") {
                embedded_pairing_bls12_381_affine_pair_t ap; memset(&ap, 0xA5, sizeof ap);
                ap.g1 = (embedded_pairing_bls12_381_g1affine_t*) &ps[pi]; ap.g2 = (embedded_pairing_bls12_381_g2affine_t*) &qs[qi];
                aps.push_back(ap);
            } else {
                prepare_other_kind(preps[i], qs[i]); preps[i].prepare(qs[i]);
                embedded_pairing_bls12_381_prepared_pair_t pp; memset(&pp, 0xA5, sizeof pp);
                pp.g1 = (embedded_pairing_bls12_381_g1affine_t*) &ps[pi]; pp.g2 = (embedded_pairing_bls12_381_g2prepared_t*) &preps[qi];
                pps.push_back(pp);
            }
        }
        int rounds = (int) in.num("rounds", 1);
        JVal results = JVal::arr(), cursors = JVal::arr();
        for (int k = 0; k < rounds; k++) {
            Fq12 r; memset(&r, 0xA5, sizeof r);
            embedded_pairing_bls12_381_pairing_sum((embedded_pairing_bls12_381_fq12_t*) &r, aps.empty() ? nullptr : aps.data(), aps.size(), pps.empty() ? nullptr : pps.data(), pps.size());
            results.push(J(r));
            JVal cs = JVal::arr();
            for (auto& pp : pps) cs.push(JVal((long long) read_cursor(pp, 0)));
            cursors.push(cs);
        }
        out.set("results", results); out.set("cursors", cursors);
        out.set("num_coeffs", (long long) (sizeof(((embedded_pairing_bls12_381_g2prepared_t*) 0)->coeffs) / sizeof(((embedded_pairing_bls12_381_g2prepared_t*) 0)->coeffs[0])));
        out.set("num_coeffs_cpp", (long long) G2Prepared::num_coeffs);
        // the singles, for the product comparison
        JVal singles = JVal::arr();
        for (size_t i = 0; i < n; i++) { Fq12 s; pairing(s, ps[i], qs[i]); singles.push(J(s)); }
        out.set("singles", singles);
    } else if (op == "gt.const") {
        out.set("gen", J(*reinterpret_cast<const Fq12*>(embedded_pairing_bls12_381_gt_generator)));
        out.set("one", J(*reinterpret_cast<const Fq12*>(embedded_pairing_bls12_381_gt_zero)));
        out.set("g1", J(*reinterpret_cast<const G1Affine*>(embedded_pairing_bls12_381_g1affine_generator)));
        out.set("g2", J(*reinterpret_cast<const G2Affine*>(embedded_pairing_bls12_381_g2affine_generator)));
        out.set("order", J(*reinterpret_cast<const BigInt<256>*>(embedded_pairing_bls12_381_group_order)));
    } else if (op == "gt.exp") {
        Fq12 a, r; U(in["a"], a); memset(&r, 0xA5, sizeof r);
        BigInt<256> k; U(in["k"], k);
        int alias = (int) in.num("alias", 0);
        Fq12* d = alias == 1 ? &a : &r;
        std::string variant = in.str("variant", "div");
        if (variant == "div") d->exponentiate_gt(a, k);
        else if (variant == "nodiv") d->exponentiate_gt_nodiv(a, k);
        else if (variant == "powx") { PowersOfX s; s.decompose(k); d->exponentiate_gt(a, s); }
        else if (variant == "c") embedded_pairing_bls12_381_gt_multiply((embedded_pairing_bls12_381_fq12_t*) d, (embedded_pairing_bls12_381_fq12_t*) &a, (embedded_pairing_core_bigint_256_t*) &k);
        else if (variant == "generic") exponentiate(*d, a, k);
        else { out.set("skip", 1); }
        out.set("r", J(*d));
    } else if (op == "gt.op") {
        Fq12 a, b, r; U(in["a"], a); if (in.has("b")) U(in["b"], b); memset(&r, 0xA5, sizeof r);
        int alias = (int) in.num("alias", 0);
        Fq12* d = (alias == 1 || alias == 3) ? &a : (alias == 2 ? &b : &r);
        std::string which = in["which"].s;
        if (which == "add") embedded_pairing_bls12_381_gt_add((embedded_pairing_bls12_381_fq12_t*) d, (embedded_pairing_bls12_381_fq12_t*) &a, (embedded_pairing_bls12_381_fq12_t*) (alias == 3 ? &a : &b));
        else if (which == "negate") embedded_pairing_bls12_381_gt_negate((embedded_pairing_bls12_381_fq12_t*) d, (embedded_pairing_bls12_381_fq12_t*) &a);
        else if (which == "double") embedded_pairing_bls12_381_gt_double((embedded_pairing_bls12_381_fq12_t*) d, (embedded_pairing_bls12_381_fq12_t*) &a);
        else if (which == "equal") { out.set("v", (long long) (embedded_pairing_bls12_381_gt_equal((embedded_pairing_bls12_381_fq12_t*) &a, (embedded_pairing_bls12_381_fq12_t*) &b) ? 1 : 0)); }
        else if (which == "marshal") {
            uint8_t buf[576 + 8]; memset(buf, 0xA5, sizeof buf);
            embedded_pairing_bls12_381_gt_marshal(buf, (embedded_pairing_bls12_381_fq12_t*) &a);
            Fq12 back; embedded_pairing_bls12_381_gt_unmarshal((embedded_pairing_bls12_381_fq12_t*) &back, buf);
            out.set("bytes", JVal::bytes(buf, 576)); out.set("back", J(back)); out.set("guard", (long long) (buf[576] == 0xA5 ? 1 : 0));
            out.set("size", (long long) embedded_pairing_bls12_381_gt_marshalled_size);
        }
        else { out.set("skip", 1); }
        if (which != "equal" && which != "marshal") out.set("r", J(*d));
    } else if (op == "gt.finalexp") {
        Fq12 a, r; U(in["a"], a); memset(&r, 0xA5, sizeof r);
        Fq12* d = in.num("alias", 0) == 1 ? &a : &r;
        final_exponentiation(*d, a);
        out.set("r", J(*d));
    } else if (op == "pair.long") {
        // n records of the pair (p, q), each with operand objects of its own; the identity replaces p (idside "P") or q at the listed positions
        size_t n = (size_t) in["n"].i;
        bool prepared = in.str("variant", "affine") == "prepared";
        G1Affine p; G2Affine q; U(in["p"], p); U(in["q"], q);
        std::vector<G1Affine> ps(n, p); std::vector<G2Affine> qs(n, q);
        for (auto& x : in["idpos"].a) { size_t i = (size_t) x.i; if (i >= n) continue; if (in.str("idside", "P") == "P") ps[i].copy(G1Affine::zero); else qs[i].copy(G2Affine::zero); }
        std::vector<G2Prepared> preps(prepared ? n : 0);
        std::vector<embedded_pairing_bls12_381_affine_pair_t> aps;
        std::vector<embedded_pairing_bls12_381_prepared_pair_t> pps;
        for (size_t i = 0; i < n; i++) {
            if (!prepared) {
                embedded_pairing_bls12_381_affine_pair_t ap; memset(&ap, 0xA5, sizeof ap);
                ap.g1 = (embedded_pairing_bls12_381_g1affine_t*) &ps[i]; ap.g2 = (embedded_pairing_bls12_381_g2affine_t*) &qs[i]; aps.push_back(ap);
            } else {
                preps[i].prepare(qs[i]);
                embedded_pairing_bls12_381_prepared_pair_t pp; memset(&pp, 0xA5, sizeof pp);
                pp.g1 = (embedded_pairing_bls12_381_g1affine_t*) &ps[i]; pp.g2 = (embedded_pairing_bls12_381_g2prepared_t*) &preps[i]; pps.push_back(pp);
            }
        }
        Fq12 r; memset(&r, 0xA5, sizeof r);
        embedded_pairing_bls12_381_pairing_sum((embedded_pairing_bls12_381_fq12_t*) &r, aps.empty() ? nullptr : aps.data(), aps.size(), pps.empty() ? nullptr : pps.data(), pps.size());
        out.set("r", J(r));
    } else if (op == "gt.random") {
        Fq12 base, r; U(in["a"], base); memset(&r, 0xA5, sizeof r);
        BigInt<256> y; memset(&y, 0xA5, sizeof y);
        g_script = in.has("stream") ? in["stream"].byte_vec() : std::vector<uint8_t>(); g_script_pos = 0; g_reqs = JVal::arr();
        Fq12* d = in.num("alias", 0) == 1 ? &base : &r;       // alias 1: the result object is the base
        if (in.str("variant", "c") == "c") embedded_pairing_bls12_381_gt_multiply_random((embedded_pairing_bls12_381_fq12_t*) d, (embedded_pairing_core_bigint_256_t*) &y, (embedded_pairing_bls12_381_fq12_t*) &base, scripted_random);
        else d->random_gt(y, base, scripted_random);
        out.set("r", J(*d)); out.set("y", J(y)); out.set("reqs", g_reqs);
    } else out.set("skip", 1);
    ev.set("out", out);
    if (!out.has("skip")) emit(g_out, ev);
}

// ---- seeded random cases --------------------------------------------------------------------------------
static void rand_scalar(Rng& g, BigInt<256>& k) {
    g.fill(k.bytes, 32);
    uint32_t c = g.below(8);
    if (c == 0) memset(k.bytes + 8, 0, 24);
    if (c == 1) memset(k.bytes, 0xff, 32);
}
static void random_cases(Rng& g, int count) {
    for (int i = 0; i < count; i++) {
        BigInt<256> a, b; rand_scalar(g, a); rand_scalar(g, b);
        G1 P; G2 Q; G1 g1; g1.copy(G1::one); G2 g2; g2.copy(G2::one);
        BigInt<64> s, t; g.fill(s.bytes, 8); g.fill(t.bytes, 8);
        P.multiply_doubleadd(g1, s); Q.multiply_doubleadd(g2, t);
        G1Affine pa; pa.from_projective(P); G2Affine qa; qa.from_projective(Q);
        // bilinearity tuple: e(P,Q), e(aP,bQ)
        G1 aP; aP.multiply_doubleadd(P, a); G2 bQ; bQ.multiply_doubleadd(Q, b);
        G1Affine apa; apa.from_projective(aP); G2Affine bqa; bqa.from_projective(bQ);
        static const char* variants[] = {"affine", "prepared", "c", "c_prepared"};
        JVal c1 = JVal::obj(); c1.set("op", "pair.single"); c1.set("src", "random"); c1.set("variant", variants[g.below(4)]); c1.set("p", J(pa)); c1.set("q", J(qa));
        c1.set("tag", "base"); c1.set("grp", (long long) i);
        run_case(c1);
        JVal c2 = JVal::obj(); c2.set("op", "pair.single"); c2.set("src", "random"); c2.set("variant", variants[g.below(4)]); c2.set("p", J(apa)); c2.set("q", J(bqa));
        c2.set("tag", "scaled"); c2.set("grp", (long long) i); c2.set("sa", J(a)); c2.set("sb", J(b)); c2.set("p0", J(pa)); c2.set("q0", J(qa));
        run_case(c2);
        // GT exponentiation of a pairing value
        Fq12 e; pairing(e, pa, qa);
        static const char* ev[] = {"div", "nodiv", "powx", "c"};
        JVal c3 = JVal::obj(); c3.set("op", "gt.exp"); c3.set("src", "random"); c3.set("variant", ev[g.below(4)]); c3.set("a", J(e)); c3.set("k", J(b)); c3.set("alias", (long long) g.below(2));
        run_case(c3);
        JVal c4 = JVal::obj(); c4.set("op", "gt.random"); c4.set("src", "random"); c4.set("a", J(e)); c4.set("variant", g.below(2) ? "c" : "cpp");
        std::vector<uint8_t> st(40 + g.below(100)); g.fill(st.data(), st.size()); for (auto& x : st) if (g.below(4) == 0) x = 0xff;
        c4.set("stream", JVal::bytes(st.data(), st.size()));
        run_case(c4);
    }
}

int main(int argc, char** argv) {
    install_crash_handlers();
    if (argc < 2) return 2;
    std::string mode = argv[1];
    Rng g0(777); g_rng = &g0;
    if (mode == "replay") {
        FILE* f = fopen(argv[2], "r"); if (!f) { perror(argv[2]); return 2; }
        g_out = fopen(argv[3], "w"); if (!g_out) { perror(argv[3]); return 2; }
        std::string line;
        while (read_line(f, line)) { if (line.empty()) continue; run_case(jparse(line)); }
    } else if (mode == "random") {
        Rng g(strtoull(argv[2], 0, 10)); g_rng = &g;
        int count = atoi(argv[3]);
        g_out = fopen(argv[4], "w"); if (!g_out) { perror(argv[4]); return 2; }
        random_cases(g, count);
    } else return 2;
    fclose(g_out);
    return 0;
}
