// LQ-IBE driver (C16): identity derivation, key generation, encryption and decryption through the C API;
// the caller-supplied hash function is the observation point (it records exactly the bytes it is given),
// the encryption randomness is scripted.  Validated by spec/Trace_LqIbe.tla.
#include "common.hpp"
#include "lqibe/lqibe.h"
#include "lqibe/api.hpp"

Rng* g_rng = nullptr;
FILE* g_out = nullptr;
static std::vector<uint8_t> g_script; static size_t g_script_pos = 0;
static void scripted_random(void* p, size_t n) {
    uint8_t* b = (uint8_t*) p;
    for (size_t i = 0; i < n; i++) b[i] = g_script_pos < g_script.size() ? g_script[g_script_pos++] : (uint8_t) (g_rng->next() >> 32);
}
static std::vector<std::vector<uint8_t>> g_hash_inputs;
static void hash_fill(void* out, size_t out_len, const void* in, size_t in_len) {
    const uint8_t* b = (const uint8_t*) in;
    g_hash_inputs.emplace_back(b, b + in_len);
    uint64_t h = 1469598103934665603ull;                       // FNV-1a stream: a function of the input bytes only
    for (size_t i = 0; i < in_len; i++) { h ^= b[i]; h *= 1099511628211ull; }
    uint8_t* o = (uint8_t*) out;
    for (size_t i = 0; i < out_len; i++) { h ^= (uint8_t) i; h *= 1099511628211ull; o[i] = (uint8_t) (h >> 24); }
}

static void run_case(const JVal& in) {
    JVal ev = in; ev.set("cfg", VERIF_CFG);
    JVal out = JVal::obj();
    if (in["op"].s == "lq.run") {
        embedded_pairing_lqibe_params_t params; U(in["p"], *reinterpret_cast<G2*>(&params.p)); U(in["sp"], *reinterpret_cast<G2*>(&params.sp));
        embedded_pairing_lqibe_masterkey_t msk; in["s"].to_bytes(&msk.s, 32);
        embedded_pairing_lqibe_idhash_t ih; in["idhash"].to_bytes(ih.hash, 48);
        size_t len = (size_t) in["len"].i;
        embedded_pairing_lqibe_id_t id; memset(&id, 0xA5, sizeof id);
        embedded_pairing_lqibe_compute_id_from_hash(&id, &ih);
        embedded_pairing_lqibe_secretkey_t sk; memset(&sk, 0xA5, sizeof sk);
        embedded_pairing_lqibe_keygen(&sk, &msk, &id);
        // which scalar will encryption draw from the scripted stream?
        g_script = in["stream"].byte_vec(); g_script_pos = 0;
        { PowersOfX px; BigInt<256> r; px.random(r, scripted_random); out.set("drawn", J(r)); }
        g_script_pos = 0; g_hash_inputs.clear();
        embedded_pairing_lqibe_ciphertext_t ct; memset(&ct, 0xA5, sizeof ct);
        std::vector<uint8_t> sym_e(len + 8, 0xA5), sym_d(len + 8, 0xA5);
        embedded_pairing_lqibe_encrypt(&ct, sym_e.data(), len, &params, &id, hash_fill, scripted_random);
        embedded_pairing_lqibe_decrypt(sym_d.data(), len, &ct, &sk, &id, hash_fill);
        out.set("id", J(*reinterpret_cast<G1Affine*>(&id.q)));
        {   // the same derivation with the hash stored in the memory the identity is written to (the C interface states no overlap rule)
            union { embedded_pairing_lqibe_idhash_t h; embedded_pairing_lqibe_id_t id; } u; memset(&u, 0xA5, sizeof u); u.h = ih;
            embedded_pairing_lqibe_compute_id_from_hash(&u.id, &u.h);
            out.set("id_overlap", J(*reinterpret_cast<G1Affine*>(&u.id.q)));
        } out.set("sk", J(*reinterpret_cast<G1Affine*>(&sk.sq))); out.set("rp", J(*reinterpret_cast<G2Affine*>(&ct.rp)));
        out.set("hash_calls", (long long) g_hash_inputs.size());
        if (g_hash_inputs.size() >= 2) { out.set("enc_in", JVal::bytes(g_hash_inputs[0].data(), g_hash_inputs[0].size())); out.set("dec_in", JVal::bytes(g_hash_inputs[1].data(), g_hash_inputs[1].size())); }
        out.set("sym_e", JVal::bytes(sym_e.data(), len)); out.set("sym_d", JVal::bytes(sym_d.data(), len));
        out.set("guard", (long long) (sym_e[len] == 0xA5 && sym_d[len] == 0xA5 ? 1 : 0));
        // negatives: other identity, other master key, modified ciphertext -> different hashed bytes
        {
            embedded_pairing_lqibe_idhash_t ih2 = ih; ih2.hash[20] ^= 0x55; ih2.hash[40] ^= 0x2A;
            embedded_pairing_lqibe_id_t id2; embedded_pairing_lqibe_compute_id_from_hash(&id2, &ih2);
            embedded_pairing_lqibe_secretkey_t sk2; embedded_pairing_lqibe_keygen(&sk2, &msk, &id2);
            embedded_pairing_lqibe_masterkey_t msk3 = msk; ((uint8_t*) &msk3.s)[0] ^= 1;
            embedded_pairing_lqibe_secretkey_t sk3; embedded_pairing_lqibe_keygen(&sk3, &msk3, &id);
            embedded_pairing_lqibe_ciphertext_t ct4 = ct; reinterpret_cast<G2Affine*>(&ct4.rp)->negate(*reinterpret_cast<G2Affine*>(&ct.rp));
            std::vector<uint8_t> tmp(len + 1);
            g_hash_inputs.clear();
            embedded_pairing_lqibe_decrypt(tmp.data(), len, &ct, &sk2, &id2, hash_fill);   // key and identity of another user
            embedded_pairing_lqibe_decrypt(tmp.data(), len, &ct, &sk2, &id, hash_fill);    // another user's key, claimed identity
            embedded_pairing_lqibe_decrypt(tmp.data(), len, &ct, &sk3, &id, hash_fill);    // key from another master key
            embedded_pairing_lqibe_decrypt(tmp.data(), len, &ct4, &sk, &id, hash_fill);    // modified ciphertext
            // a ciphertext whose y was altered (x and the other coordinate kept): no longer a curve point, still a different input
            for (int w = 0; w < 2; w++) {
                embedded_pairing_lqibe_ciphertext_t ct5 = ct; G2Affine* a5 = reinterpret_cast<G2Affine*>(&ct5.rp);
                if (w == 0) a5->y.c0.add(a5->y.c0, Fq::one); else a5->y.c1.add(a5->y.c1, Fq::one);
                embedded_pairing_lqibe_decrypt(tmp.data(), len, &ct5, &sk, &id, hash_fill);
            }
            JVal neg = JVal::arr();
            for (auto& v : g_hash_inputs) neg.push(JVal::bytes(v.data(), v.size()));
            out.set("neg_in", neg);
            out.set("id2", J(*reinterpret_cast<G1Affine*>(&id2.q)));
        }
    } else out.set("skip", 1);
    ev.set("out", out);
    if (!out.has("skip")) emit(g_out, ev);
}

int main(int argc, char** argv) {
    install_crash_handlers();
    if (argc < 4) return 2;
    Rng g0(5); g_rng = &g0;
    FILE* f = fopen(argv[2], "r"); if (!f) { perror(argv[2]); return 2; }
    g_out = fopen(argv[3], "w"); if (!g_out) { perror(argv[3]); return 2; }
    std::string line;
    while (read_line(f, line)) { if (line.empty()) continue; run_case(jparse(line)); }
    fclose(g_out);
    return 0;
}
