// Encoding / hashing / sampling driver (C09, C10): point encodings through the C API, hash-to-scalar,
// hash-to-curve, and the samplers fed from a *scripted* byte stream (served through the library's
// random-source callback; every request is logged).  Validated by spec/Trace_Codec.tla.
#include "common.hpp"
#include "bls12_381/bls12_381.h"
#include "wkdibe/api.hpp"
#include "wkdibe/wkdibe.h"
#include "lqibe/api.hpp"
#include "lqibe/lqibe.h"

Rng* g_rng = nullptr;
FILE* g_out = nullptr;

// ---- scripted random source -------------------------------------------------------------------------
static std::vector<uint8_t> g_script;
static size_t g_script_pos = 0;
static JVal g_reqs;
static long long g_served = 0;
static void scripted_random(void* p, size_t n) {
    uint8_t* b = (uint8_t*) p;
    for (size_t i = 0; i < n; i++) {
        if (g_script_pos < g_script.size()) b[i] = g_script[g_script_pos++];
        else b[i] = (uint8_t) (g_rng->next() >> 32);     // script exhausted: seeded pseudo-random continuation
    }
    g_served += (long long) n;
    if (g_reqs.a.size() < 4000) g_reqs.push(JVal::bytes(b, n));
}
static void begin_script(const JVal& in) {
    g_script.clear(); g_script_pos = 0; g_reqs = JVal::arr(); g_served = 0;
    if (in.has("stream")) g_script = in["stream"].byte_vec();
}
static void end_script(JVal& out) { out.set("reqs", g_reqs); out.set("served", g_served); }

template <typename A> static void encode_decode(const std::string& op, const JVal& in, JVal& out) {
    constexpr int g = std::is_same<A, G1Affine>::value ? 1 : 2;
    bool compressed = in["compressed"].i != 0;
    size_t len = (g == 1 ? 48 : 96) * (compressed ? 1 : 2);
    if (op == "enc.encode") {
        A a; U(in["a"], a);
        std::vector<uint8_t> buf(len + 8, 0xA5);
        if (g == 1) embedded_pairing_bls12_381_g1_marshal(buf.data(), (embedded_pairing_bls12_381_g1affine_t*) &a, compressed);
        else embedded_pairing_bls12_381_g2_marshal(buf.data(), (embedded_pairing_bls12_381_g2affine_t*) &a, compressed);
        out.set("bytes", JVal::bytes(buf.data(), len));
        out.set("guard", (long long) (buf[len] == 0xA5 && buf[len + 7] == 0xA5 ? 1 : 0));
        if (a.is_zero()) {
            // the identity as a computation yields it: P + (-P), converted into an affine object that held another point before
            using PJ = typename std::conditional<g == 1, G1, G2>::type;
            PJ p, n, z; p.from_affine(A::generator); n.negate(p); z.add(p, n);
            A dirty; dirty.copy(A::generator);
            dirty.from_projective(z);
            std::vector<uint8_t> b2(len + 8, 0xA5);
            if (g == 1) embedded_pairing_bls12_381_g1_marshal(b2.data(), (embedded_pairing_bls12_381_g1affine_t*) &dirty, compressed);
            else embedded_pairing_bls12_381_g2_marshal(b2.data(), (embedded_pairing_bls12_381_g2affine_t*) &dirty, compressed);
            out.set("computed", JVal::bytes(b2.data(), len));
        }
    } else {
        std::vector<uint8_t> buf = in["bytes"].byte_vec();
        if (buf.size() != len) { out.set("skip", 1); return; }
        bool checked = in["checked"].i != 0;
        A a; memset(&a, 0xA5, sizeof a);
        bool ok;
        if (g == 1) ok = embedded_pairing_bls12_381_g1_unmarshal((embedded_pairing_bls12_381_g1affine_t*) &a, buf.data(), compressed, checked);
        else ok = embedded_pairing_bls12_381_g2_unmarshal((embedded_pairing_bls12_381_g2affine_t*) &a, buf.data(), compressed, checked);
        out.set("ok", (long long) (ok ? 1 : 0));
        if (ok) {
            out.set("r", J(a));
            // what the library itself would produce for the decoded point
            std::vector<uint8_t> re(len);
            if (g == 1) embedded_pairing_bls12_381_g1_marshal(re.data(), (embedded_pairing_bls12_381_g1affine_t*) &a, compressed);
            else embedded_pairing_bls12_381_g2_marshal(re.data(), (embedded_pairing_bls12_381_g2affine_t*) &a, compressed);
            out.set("reencoded", JVal::bytes(re.data(), len));
        }
    }
}

static void run_case(const JVal& in) {
    JVal ev = in;
    ev.set("cfg", VERIF_CFG);
    JVal out = JVal::obj();
    const std::string& op = in["op"].s;
    if (op == "enc.encode" || op == "enc.decode") {
        if (in["g"].i == 1) encode_decode<G1Affine>(op, in, out); else encode_decode<G2Affine>(op, in, out);
    } else if (op == "hash.zp") {
        uint8_t h[32]; in["hash"].to_bytes(h, 32);
        BigInt<256> r; memset(&r, 0xA5, sizeof r);
        embedded_pairing_bls12_381_zp_from_hash((embedded_pairing_core_bigint_256_t*) &r, h);
        out.set("r", J(r));
    } else if (op == "hash.scalar_reduce") {
        BigInt<256> r; U(in["n"], r);
        embedded_pairing_wkdibe_scalar_hash_reduce((embedded_pairing_wkdibe_scalar_t*) &r);
        out.set("r", J(r));
    } else if (op == "hash.g1") {
        uint8_t h[48]; in["hash"].to_bytes(h, 48);
        G1Affine a, b; memset(&a, 0xA5, sizeof a);
        embedded_pairing_bls12_381_g1affine_from_hash((embedded_pairing_bls12_381_g1affine_t*) &a, h);
        b.from_hash(h);
        out.set("r", J(a)); out.set("again", (long long) (G1Affine::equal(a, b) ? 1 : 0));
    } else if (op == "hash.g2") {
        uint8_t h[96]; in["hash"].to_bytes(h, 96);
        G2Affine a, b; memset(&a, 0xA5, sizeof a);
        embedded_pairing_bls12_381_g2affine_from_hash((embedded_pairing_bls12_381_g2affine_t*) &a, h);
        b.from_hash(h);
        out.set("r", J(a)); out.set("again", (long long) (G2Affine::equal(a, b) ? 1 : 0));
    } else if (op == "hash.id") {
        uint8_t h[48]; in["hash"].to_bytes(h, 48);
        embedded_pairing_lqibe_id_t id; memset(&id, 0xA5, sizeof id);
        embedded_pairing_lqibe_idhash_t ih; memcpy(&ih, h, 48);
        embedded_pairing_lqibe_compute_id_from_hash(&id, &ih);
        out.set("r", J(*reinterpret_cast<G1Affine*>(&id)));
    } else if (op == "rand.zp") {
        begin_script(in);
        BigInt<256> r; memset(&r, 0xA5, sizeof r);
        embedded_pairing_bls12_381_zp_random((embedded_pairing_core_bigint_256_t*) &r, scripted_random);
        out.set("r", J(r)); end_script(out);
        // the same stream served again straight away: the sampler is a function of the stream (judged only if neither call outran the script)
        long long first = g_served; begin_script(in);
        BigInt<256> r2; memset(&r2, 0xA5, sizeof r2);
        embedded_pairing_bls12_381_zp_random((embedded_pairing_core_bigint_256_t*) &r2, scripted_random);
        if (first <= (long long) g_script.size() && g_served <= (long long) g_script.size()) out.set("again", (long long) (BigInt<256>::equal(r, r2) ? 1 : 0));
    } else if (op == "rand.zpstar") {
        begin_script(in);
        BigInt<256> r; memset(&r, 0xA5, sizeof r);
        embedded_pairing_wkdibe_random_zpstar((embedded_pairing_wkdibe_scalar_t*) &r, scripted_random);
        out.set("r", J(r)); end_script(out);
        long long first = g_served; begin_script(in);
        BigInt<256> r2; memset(&r2, 0xA5, sizeof r2);
        embedded_pairing_wkdibe_random_zpstar((embedded_pairing_wkdibe_scalar_t*) &r2, scripted_random);
        if (first <= (long long) g_script.size() && g_served <= (long long) g_script.size()) out.set("again", (long long) (BigInt<256>::equal(r, r2) ? 1 : 0));
    } else if (op == "capi.diff") {
        // the same scripted stream is served to the C function and to the C++ operation it wraps; both outputs are logged byte for byte
        std::string fn = in["fn"].s;
        auto bytes_of = [](const void* p, size_t n) { return JVal::bytes((const uint8_t*) p, n); };
        if (fn == "embedded_pairing_wkdibe_setup") {
            int l = (int) in.num("l", 3); bool sigs = in.num("sigs", 0) != 0;
            std::vector<embedded_pairing_wkdibe_g1_t> hc(l ? l : 1); std::vector<G1> hp(l ? l : 1);
            embedded_pairing_wkdibe_params_t pc; embedded_pairing_wkdibe_masterkey_t mc; memset(&pc, 0, sizeof pc); memset(&mc, 0, sizeof mc); pc.h = hc.data();
            embedded_pairing::wkdibe::Params pp; embedded_pairing::wkdibe::MasterKey mp; memset(&pp, 0, sizeof pp); memset(&mp, 0, sizeof mp); pp.h = hp.data();
            begin_script(in); embedded_pairing_wkdibe_setup(&pc, &mc, l, sigs, scripted_random); size_t used_c = g_script_pos;
            begin_script(in); embedded_pairing::wkdibe::setup(pp, mp, l, sigs, scripted_random);
            pc.h = nullptr; pp.h = nullptr;       // the slot array pointers differ by construction
            JVal c = JVal::arr(), d = JVal::arr();
            c.push(bytes_of(&pc, sizeof pc)); c.push(bytes_of(&mc, sizeof mc)); c.push(bytes_of(hc.data(), l * sizeof(hc[0])));
            d.push(bytes_of(&pp, sizeof pp)); d.push(bytes_of(&mp, sizeof mp)); d.push(bytes_of(hp.data(), l * sizeof(hp[0])));
            out.set("c", c); out.set("cpp", d); out.set("used", (long long) used_c); out.set("used_cpp", (long long) g_script_pos);
        } else if (fn == "embedded_pairing_lqibe_setup") {
            embedded_pairing_lqibe_params_t pc; embedded_pairing_lqibe_masterkey_t mc; memset(&pc, 0, sizeof pc); memset(&mc, 0, sizeof mc);
            embedded_pairing::lqibe::Params pp; embedded_pairing::lqibe::MasterKey mp; memset(&pp, 0, sizeof pp); memset(&mp, 0, sizeof mp);
            begin_script(in); embedded_pairing_lqibe_setup(&pc, &mc, scripted_random); size_t used_c = g_script_pos;
            begin_script(in); embedded_pairing::lqibe::setup(pp, mp, scripted_random);
            JVal c = JVal::arr(), d = JVal::arr();
            c.push(bytes_of(&pc, sizeof pc)); c.push(bytes_of(&mc, sizeof mc)); d.push(bytes_of(&pp, sizeof pp)); d.push(bytes_of(&mp, sizeof mp));
            out.set("c", c); out.set("cpp", d); out.set("used", (long long) used_c); out.set("used_cpp", (long long) g_script_pos);
        } else if (fn == "embedded_pairing_wkdibe_random_g1" || fn == "embedded_pairing_wkdibe_random_g2" || fn == "embedded_pairing_wkdibe_random_gt") {
            JVal c = JVal::arr(), d = JVal::arr(); size_t used_c = 0;
            if (fn == "embedded_pairing_wkdibe_random_g1") {
                embedded_pairing_wkdibe_g1_t a; G1 b; memset(&a, 0, sizeof a); memset(&b, 0, sizeof b);
                begin_script(in); embedded_pairing_wkdibe_random_g1(&a, scripted_random); used_c = g_script_pos;
                begin_script(in); embedded_pairing::wkdibe::random_g1(b, scripted_random);
                c.push(bytes_of(&a, sizeof a)); d.push(bytes_of(&b, sizeof b));
            } else if (fn == "embedded_pairing_wkdibe_random_g2") {
                embedded_pairing_wkdibe_g2_t a; G2 b; memset(&a, 0, sizeof a); memset(&b, 0, sizeof b);
                begin_script(in); embedded_pairing_wkdibe_random_g2(&a, scripted_random); used_c = g_script_pos;
                begin_script(in); embedded_pairing::wkdibe::random_g2(b, scripted_random);
                c.push(bytes_of(&a, sizeof a)); d.push(bytes_of(&b, sizeof b));
            } else {
                embedded_pairing_wkdibe_gt_t a; Fq12 b; memset(&a, 0, sizeof a); memset(&b, 0, sizeof b);
                begin_script(in); embedded_pairing_wkdibe_random_gt(&a, scripted_random); used_c = g_script_pos;
                begin_script(in); embedded_pairing::wkdibe::random_gt(b, scripted_random);
                c.push(bytes_of(&a, sizeof a)); d.push(bytes_of(&b, sizeof b));
            }
            out.set("c", c); out.set("cpp", d); out.set("used", (long long) used_c); out.set("used_cpp", (long long) g_script_pos);
        } else out.set("skip", 1);
    } else if (op == "rand.fq") {
        begin_script(in);
        Fq r; memset(&r, 0xA5, sizeof r);
        r.random(scripted_random);
        out.set("r", J(r)); end_script(out);
    } else if (op == "rand.fq2") {
        begin_script(in);
        Fq2 r; memset(&r, 0xA5, sizeof r);
        r.random(scripted_random);
        out.set("r", J(r)); end_script(out);
    } else if (op == "rand.g1") {
        begin_script(in);
        G1 r; memset(&r, 0xA5, sizeof r);
        embedded_pairing_bls12_381_g1_random((embedded_pairing_bls12_381_g1_t*) &r, scripted_random);
        out.set("r", J(r)); end_script(out);
    } else if (op == "rand.g2") {
        begin_script(in);
        G2 r; memset(&r, 0xA5, sizeof r);
        embedded_pairing_bls12_381_g2_random((embedded_pairing_bls12_381_g2_t*) &r, scripted_random);
        out.set("r", J(r)); end_script(out);
    } else if (op == "rand.zpstar_px") {
        // the scheme's sampler that returns a scalar together with its base-|x| decomposition
        begin_script(in);
        int fill = in.has("fill") ? (int) in["fill"].i : 0xA5;      // what the caller's output objects hold on entry
        PowersOfX p; embedded_pairing::wkdibe::Scalar y; memset(&p, fill, sizeof p); memset(&y, fill, sizeof y);
        embedded_pairing::wkdibe::random_zpstar(p, y, scripted_random);
        JVal d = JVal::arr(); for (int i = 0; i < 4; i++) d.push(J(p.c[i]));
        out.set("c", d); out.set("y", J(*reinterpret_cast<BigInt<256>*>(&y))); end_script(out);
    } else if (op == "rand.powx") {
        begin_script(in);
        int fill = in.has("fill") ? (int) in["fill"].i : 0xA5;      // what the caller's output objects hold on entry
        PowersOfX p; BigInt<256> y; memset(&p, fill, sizeof p); memset(&y, fill, sizeof y);
        p.random(y, scripted_random);
        JVal d = JVal::arr(); for (int i = 0; i < 4; i++) d.push(J(p.c[i]));
        out.set("c", d); out.set("y", J(y)); end_script(out);
    } else out.set("skip", 1);
    ev.set("out", out);
    if (!out.has("skip")) emit(g_out, ev);
}

// ---- seeded random / fuzz cases ----------------------------------------------------------------------
static void random_cases(Rng& g, int count) {
    for (int i = 0; i < count; i++) {
        int grp = 1 + (int) g.below(2);
        bool compressed = g.below(2) != 0;
        size_t len = (grp == 1 ? 48 : 96) * (compressed ? 1 : 2);
        // a valid point: random multiple of the generator
        BigInt<64> k; g.fill(k.bytes, 8);
        JVal pt;
        std::vector<uint8_t> enc(len);
        if (grp == 1) { G1 p; G1 base; base.copy(G1::one); p.multiply_doubleadd(base, k); G1Affine a; a.from_projective(p); pt = J(a);
            embedded_pairing_bls12_381_g1_marshal(enc.data(), (embedded_pairing_bls12_381_g1affine_t*) &a, compressed); }
        else { G2 p; G2 base; base.copy(G2::one); p.multiply_doubleadd(base, k); G2Affine a; a.from_projective(p); pt = J(a);
            embedded_pairing_bls12_381_g2_marshal(enc.data(), (embedded_pairing_bls12_381_g2affine_t*) &a, compressed); }
        JVal c = JVal::obj(); c.set("op", "enc.encode"); c.set("g", (long long) grp); c.set("compressed", (long long) compressed); c.set("a", pt); c.set("src", "random");
        run_case(c);
        // decode: valid, bit-flipped, and random strings
        for (int variant = 0; variant < 3; variant++) {
            std::vector<uint8_t> b = enc;
            const char* cls = "valid";
            if (variant == 1) { size_t pos = g.below((uint32_t) len); b[pos] ^= (uint8_t) (1u << g.below(8)); cls = "bitflip"; }
            if (variant == 2) { g.fill(b.data(), len); if (g.below(2)) { b[0] &= 0x1F; if (compressed) b[0] |= 0x80; } cls = "fuzz"; }
            JVal d = JVal::obj(); d.set("op", "enc.decode"); d.set("g", (long long) grp); d.set("compressed", (long long) compressed);
            d.set("checked", (long long) (variant == 0 ? g.below(2) : 1)); d.set("bytes", JVal::bytes(b.data(), len)); d.set("cls", cls); d.set("src", "random");
            run_case(d);
        }
        uint8_t h[96]; g.fill(h, 96);
        JVal z = JVal::obj(); z.set("op", "hash.zp"); z.set("hash", JVal::bytes(h, 32)); z.set("src", "random"); run_case(z);
        JVal h1 = JVal::obj(); h1.set("op", i % 2 ? "hash.g1" : "hash.id"); h1.set("hash", JVal::bytes(h, 48)); h1.set("src", "random"); run_case(h1);
        if (i % 2 == 0) { JVal h2 = JVal::obj(); h2.set("op", "hash.g2"); h2.set("hash", JVal::bytes(h, 96)); h2.set("src", "random"); run_case(h2); }
        static const char* rops[] = {"rand.zp", "rand.zpstar", "rand.fq", "rand.fq2", "rand.g1", "rand.g2", "rand.powx"};
        JVal r = JVal::obj(); r.set("op", rops[i % 7]); r.set("src", "random");
        // short pseudo-random script with a high rate of 0xff bytes (forces rejections)
        std::vector<uint8_t> s(64 + g.below(200)); g.fill(s.data(), s.size());
        for (auto& x : s) if (g.below(3) == 0) x = 0xff;
        r.set("stream", JVal::bytes(s.data(), s.size()));
        run_case(r);
    }
}

int main(int argc, char** argv) {
    install_crash_handlers();
    if (argc < 2) return 2;
    std::string mode = argv[1];
    Rng g0(12345); g_rng = &g0;
    if (mode == "replay") {
        FILE* f = fopen(argv[2], "r"); if (!f) { perror(argv[2]); return 2; }
        g_out = fopen(argv[3], "w"); if (!g_out) { perror(argv[3]); return 2; }
        std::string line;
        while (read_line(f, line)) { if (line.empty()) continue; run_case(jparse(line)); }
    } else if (mode == "random") {
        Rng g(strtoull(argv[2], 0, 10)); g_rng = &g;
        int count = atoi(argv[3]);
        g_out = fopen(argv[4], "w"); if (!g_out) { perror(argv[4]); return 2; }
        random_cases(g, count);
    } else return 2;
    fclose(g_out);
    return 0;
}
