// Projection between library objects and the JSON values of case/trace files (DESIGN.md 4.2):
// every object is logged as its raw in-memory little-endian bytes (Montgomery residues for field
// elements), so the replayer never trusts a library conversion routine.
#ifndef VERIF_COMMON_HPP
#define VERIF_COMMON_HPP
#include "json.hpp"
#include "core/bigint.hpp"
#include "core/fp.hpp"
#include "core/fp_utils.hpp"
#include "bls12_381/fq.hpp"
#include "bls12_381/fr.hpp"
#include "bls12_381/fq2.hpp"
#include "bls12_381/fq6.hpp"
#include "bls12_381/fq12.hpp"
#include "bls12_381/curve.hpp"
#include "bls12_381/pairing.hpp"
#include "bls12_381/wnaf.hpp"
#include "bls12_381/decomposition.hpp"
#include <unistd.h>
#include <signal.h>
#include <exception>

using namespace embedded_pairing::core;
using namespace embedded_pairing::bls12_381;

#ifndef VERIF_CFG
#define VERIF_CFG "asm"
#endif

// ---- to JSON ---------------------------------------------------------------------------------
template <int bits> inline JVal J(const BigInt<bits>& a) { return JVal::bytes(a.bytes, BigInt<bits>::byte_length); }
inline JVal J(const Fq& a) { return JVal::bytes(a.val.bytes, 48); }
inline JVal J(const Fr& a) { return JVal::bytes(a.val.bytes, 32); }
inline JVal J(const Fq2& a) { JVal v = JVal::arr(); v.push(J(a.c0)); v.push(J(a.c1)); return v; }
inline JVal J(const Fq6& a) { JVal v = JVal::arr(); v.push(J(a.c0)); v.push(J(a.c1)); v.push(J(a.c2)); return v; }
inline JVal J(const Fq12& a) { JVal v = JVal::arr(); v.push(J(a.c0)); v.push(J(a.c1)); return v; }
template <typename F> inline JVal J(const Projective<F>& a) { JVal v = JVal::arr(); v.push(J(a.x)); v.push(J(a.y)); v.push(J(a.z)); return v; }
inline JVal J(const G1Affine& a) { JVal v = JVal::arr(); v.push(J(a.x)); v.push(J(a.y)); v.push(JVal((long long) (a.infinity ? 1 : 0))); return v; }
inline JVal J(const G2Affine& a) { JVal v = JVal::arr(); v.push(J(a.x)); v.push(J(a.y)); v.push(JVal((long long) (a.infinity ? 1 : 0))); return v; }

// ---- from JSON -------------------------------------------------------------------------------
template <int bits> inline void U(const JVal& v, BigInt<bits>& a) { memset(&a, 0, sizeof a); v.to_bytes(a.bytes, BigInt<bits>::byte_length); }
inline void U(const JVal& v, Fq& a) { memset(&a, 0, sizeof a); v.to_bytes(a.val.bytes, 48); }
inline void U(const JVal& v, Fr& a) { memset(&a, 0, sizeof a); v.to_bytes(a.val.bytes, 32); }
inline void U(const JVal& v, Fq2& a) { U(v[0], a.c0); U(v[1], a.c1); }
inline void U(const JVal& v, Fq6& a) { U(v[0], a.c0); U(v[1], a.c1); U(v[2], a.c2); }
inline void U(const JVal& v, Fq12& a) { U(v[0], a.c0); U(v[1], a.c1); }
template <typename F> inline void U(const JVal& v, Projective<F>& a) { U(v[0], a.x); U(v[1], a.y); U(v[2], a.z); }
inline void U(const JVal& v, G1Affine& a) { memset(&a, 0, sizeof a); U(v[0], a.x); U(v[1], a.y); a.infinity = v[2].i != 0; }
inline void U(const JVal& v, G2Affine& a) { memset(&a, 0, sizeof a); U(v[0], a.x); U(v[1], a.y); a.infinity = v[2].i != 0; }

// ---- deterministic pseudo-random bytes (splitmix64), seeded per driver run ---------------------
struct Rng {
    uint64_t s;
    explicit Rng(uint64_t seed) : s(seed * 0x9E3779B97F4A7C15ull + 0x1234567) {}
    uint64_t next() { uint64_t z = (s += 0x9E3779B97F4A7C15ull); z = (z ^ (z >> 30)) * 0xBF58476D1CE4E5B9ull; z = (z ^ (z >> 27)) * 0x94D049BB133111EBull; return z ^ (z >> 31); }
    void fill(void* p, size_t n) { uint8_t* b = (uint8_t*) p; for (size_t i = 0; i < n; i++) b[i] = (uint8_t) (next() >> 32); }
    uint32_t below(uint32_t n) { return (uint32_t) (next() >> 33) % n; }
};
extern Rng* g_rng;
inline void rng_callback(void* p, size_t n) { g_rng->fill(p, n); }

// ---- crash handling: flush what has been written and stop -------------------------------------
extern FILE* g_out;
inline void verif_die(int sig) {
    if (g_out) { JVal v = JVal::obj(); v.set("op", "CRASH"); v.set("sig", (long long) sig); emit(g_out, v); fflush(g_out); }
    _exit(4);
}
inline void install_crash_handlers() {
    signal(SIGSEGV, verif_die); signal(SIGBUS, verif_die); signal(SIGILL, verif_die); signal(SIGFPE, verif_die); signal(SIGABRT, verif_die);
    std::set_terminate([] { verif_die(-1); });
}

// x86-64: select the baseline (non-BMI2/ADX) assembly routines through the dispatch pointers
#if !defined(DISABLE_ASM) && defined(__x86_64__)
extern "C" {
    bool embedded_pairing_core_arch_x86_64_cpu_supports_bmi2_adx(void);
    void embedded_pairing_core_arch_x86_64_fpbase_384_montgomery_reduce(void* res, void* a, const void* p, uint64_t inv_word);
    void embedded_pairing_core_arch_x86_64_bigint_768_multiply(void* res, const void* a, const void* b);
    void embedded_pairing_core_arch_x86_64_bigint_768_square(void* res, const void* a);
}
inline void select_baseline_asm() {
    embedded_pairing::core::runtime_fpbase_384_montgomery_reduce = embedded_pairing_core_arch_x86_64_fpbase_384_montgomery_reduce;
    embedded_pairing::core::runtime_bigint_768_multiply = embedded_pairing_core_arch_x86_64_bigint_768_multiply;
    embedded_pairing::core::runtime_bigint_768_square = embedded_pairing_core_arch_x86_64_bigint_768_square;
}
#else
inline void select_baseline_asm() {}
#endif
#endif
