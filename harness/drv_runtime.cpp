// Runtime driver (C20): executes batteries of C-API calls from several threads on distinct output objects,
// (a) one after another ("rt.sequential": the reference results and the number of callback invocations =
// segment boundaries of every call), (b) concurrently under a schedule chosen by TLC ("rt.schedule": every
// thread is parked inside the library's callbacks - its only yield points - and released in the order the
// schedule lists, so the interleaving explored by Runtime.tla is the one executed), (c) free-running
// ("rt.free": barrier start, no parking; used on the ThreadSanitizer build).  Around every run the writable
// image of the library (ranges resolved from the symbol tables by bin/check, file given as argv) is compared
// with the snapshot taken when main() started, i.e. after the static initialisers.
#include "common.hpp"
#include "bls12_381/bls12_381.h"
#include "wkdibe/wkdibe.h"
#include "lqibe/lqibe.h"
#include <thread>
#include <mutex>
#include <condition_variable>
#include <atomic>
#include <chrono>

Rng* g_rng = nullptr;
FILE* g_out = nullptr;
#if !defined(DISABLE_ASM) && defined(__x86_64__)
extern "C" void embedded_pairing_core_arch_x86_64_bmi2_adx_fpbase_384_montgomery_reduce(void*, void*, const void*, uint64_t);
#endif

// ---- writable image of the library --------------------------------------------------------------------------
struct Range { uintptr_t addr; size_t size; std::string name; std::vector<uint8_t> snap; };
static std::vector<Range> g_ranges;
static void load_ranges(const char* path) {
    FILE* f = fopen(path, "r"); if (!f) return;
    char name[1024]; unsigned long long a, s;
    while (fscanf(f, "%llx %llx %1023s", &a, &s, name) == 3) {
        Range r; r.addr = (uintptr_t) a; r.size = (size_t) s; r.name = name;
        r.snap.assign((const uint8_t*) r.addr, (const uint8_t*) r.addr + r.size);
        g_ranges.push_back(r);
    }
    fclose(f);
}
static JVal changed_ranges() {
    JVal v = JVal::arr();
    for (auto& r : g_ranges) if (memcmp((const void*) r.addr, r.snap.data(), r.size) != 0) v.push(JVal(r.name));
    return v;
}
static JVal dispatch_state() {
    JVal v = JVal::obj();
#if !defined(DISABLE_ASM) && defined(__x86_64__)
    bool bmi = embedded_pairing_core_arch_x86_64_cpu_supports_bmi2_adx();
    v.set("cpu", bmi ? "bmi2" : "base");
    bool is_bmi = embedded_pairing::core::runtime_fpbase_384_montgomery_reduce == embedded_pairing_core_arch_x86_64_bmi2_adx_fpbase_384_montgomery_reduce;
    bool is_base = embedded_pairing::core::runtime_fpbase_384_montgomery_reduce == embedded_pairing_core_arch_x86_64_fpbase_384_montgomery_reduce;
    v.set("table", is_bmi ? "bmi2" : is_base ? "base" : "other");
#else
    v.set("cpu", "portable"); v.set("table", "portable");
#endif
    return v;
}

// ---- scheduler: threads park at segment boundaries -----------------------------------------------------------
static std::mutex g_mu;
static std::condition_variable g_cv;
static std::vector<int> g_sched;           // thread ids (1-based) in the order their segments run
static size_t g_pos = 0;
static std::vector<char> g_finished;       // per thread
static bool g_controlled = false;
static bool g_desync = false;
static thread_local int t_id = 0;
static thread_local int t_segments = 0;    // callbacks seen in the current call
static thread_local Rng* t_rng = nullptr;

static void wait_turn() {
    if (!g_controlled) return;
    std::unique_lock<std::mutex> lk(g_mu);
    for (;;) {
        while (g_pos < g_sched.size() && g_finished[g_sched[g_pos] - 1]) { g_pos++; g_desync = true; }   // schedule names a finished thread
        if (g_pos >= g_sched.size()) { g_cv.notify_all(); return; }                                      // schedule exhausted: run freely
        if (g_sched[g_pos] == t_id) { g_pos++; g_cv.notify_all(); return; }
        if (g_cv.wait_for(lk, std::chrono::seconds(180)) == std::cv_status::timeout) { g_desync = true; g_controlled = false; g_cv.notify_all(); return; }
    }
}
// the library's callbacks: each invocation ends a segment of the calling thread's current call
static void rt_random(void* p, size_t n) { t_segments++; wait_turn(); t_rng->fill(p, n); }
static void rt_hash(void* out, size_t out_len, const void* in, size_t in_len) {
    t_segments++; wait_turn();
    const uint8_t* b = (const uint8_t*) in;
    uint64_t h = 1469598103934665603ull;
    for (size_t i = 0; i < in_len; i++) { h ^= b[i]; h *= 1099511628211ull; }
    uint8_t* o = (uint8_t*) out;
    for (size_t i = 0; i < out_len; i++) { h ^= (uint8_t) i; h *= 1099511628211ull; o[i] = (uint8_t) (h >> 24); }
}

// ---- the calls: inputs are a function of (thread, index, name) only; outputs are private objects --------------------
static uint64_t fnv(const void* p, size_t n, uint64_t h = 1469598103934665603ull) {
    const uint8_t* b = (const uint8_t*) p; for (size_t i = 0; i < n; i++) { h ^= b[i]; h *= 1099511628211ull; } return h;
}
struct Fixture {          // per-thread scheme objects built sequentially before any measured call (with the thread's own RNG)
    embedded_pairing_lqibe_params_t lqp; embedded_pairing_lqibe_masterkey_t lqm; embedded_pairing_lqibe_id_t lqid; embedded_pairing_lqibe_secretkey_t lqsk;
    embedded_pairing_lqibe_ciphertext_t lqct;
    embedded_pairing_wkdibe_params_t wkp; embedded_pairing_wkdibe_masterkey_t wkm; embedded_pairing_wkdibe_g1_t wkh[4];
    embedded_pairing_wkdibe_attribute_t attrs[2]; embedded_pairing_wkdibe_attributelist_t al;
    embedded_pairing_wkdibe_secretkey_t wksk; embedded_pairing_wkdibe_freeslot_t wkb[4];
    embedded_pairing_wkdibe_ciphertext_t wkct; embedded_pairing_wkdibe_gt_t msg;
    embedded_pairing_bls12_381_g1_t P; embedded_pairing_bls12_381_g2_t Q; embedded_pairing_bls12_381_g1affine_t Pa; embedded_pairing_bls12_381_g2affine_t Qa;
};
static void build_fixture(Fixture& f, int tid) {
    Rng g(1000 + tid); Rng* save = t_rng; t_rng = &g; int save_id = t_id; t_id = tid;
    bool ctl = g_controlled; g_controlled = false;
    memset(&f, 0, sizeof f);
    embedded_pairing_lqibe_setup(&f.lqp, &f.lqm, rt_random);
    embedded_pairing_lqibe_idhash_t ih; g.fill(ih.hash, sizeof ih.hash); ih.hash[47] &= 0x0f;
    embedded_pairing_lqibe_compute_id_from_hash(&f.lqid, &ih);
    embedded_pairing_lqibe_keygen(&f.lqsk, &f.lqm, &f.lqid);
    uint8_t sym[32]; embedded_pairing_lqibe_encrypt(&f.lqct, sym, 32, &f.lqp, &f.lqid, rt_hash, rt_random);
    f.wkp.h = f.wkh; embedded_pairing_wkdibe_setup(&f.wkp, &f.wkm, 4, true, rt_random);
    memset(f.attrs, 0, sizeof f.attrs);
    g.fill(&f.attrs[0].id, 32); f.attrs[0].idx = 1; f.attrs[0].omitFromKeys = false;
    g.fill(&f.attrs[1].id, 32); f.attrs[1].idx = 3; f.attrs[1].omitFromKeys = false;
    f.al.attrs = f.attrs; f.al.length = 2; f.al.omitAllFromKeysUnlessPresent = false;
    f.wksk.b = f.wkb; embedded_pairing_wkdibe_keygen(&f.wksk, &f.wkp, &f.wkm, &f.al, rt_random);
    embedded_pairing_wkdibe_random_gt(&f.msg, rt_random);
    embedded_pairing_wkdibe_encrypt(&f.wkct, &f.msg, &f.wkp, &f.al, rt_random);
    embedded_pairing_bls12_381_g1_random(&f.P, rt_random); embedded_pairing_bls12_381_g2_random(&f.Q, rt_random);
    embedded_pairing_bls12_381_g1affine_from_projective(&f.Pa, &f.P); embedded_pairing_bls12_381_g2affine_from_projective(&f.Qa, &f.Q);
    g_controlled = ctl; t_rng = save; t_id = save_id;
}
// digest of a fixture: every input object the calls read (the structs and the arrays they point to)
static uint64_t fixture_digest(const Fixture& f) { return fnv(&f, sizeof f); }
static Fixture* g_shared = nullptr;      // inputs shared by all threads (calls named *.shared read them; outputs stay private)
// returns a digest of everything the call produced
static uint64_t do_call(const std::string& fullname, Fixture& own, int tid, int idx) {
    bool shared = fullname.size() > 7 && fullname.compare(fullname.size() - 7, 7, ".shared") == 0;
    std::string name = shared ? fullname.substr(0, fullname.size() - 7) : fullname;
    Fixture& f = shared ? *g_shared : own;
    Rng g(77 * tid + 13 * idx + 5 + fnv(name.data(), name.size()) % 1000); t_rng = &g;
    uint64_t h = 0;
    if (name == "lq.encrypt") {
        embedded_pairing_lqibe_ciphertext_t ct; uint8_t sym[48]; memset(&ct, 0, sizeof ct);
        embedded_pairing_lqibe_encrypt(&ct, sym, sizeof sym, &f.lqp, &f.lqid, rt_hash, rt_random);
        h = fnv(sym, sizeof sym, fnv(&ct, sizeof ct));
    } else if (name == "lq.decrypt") {
        uint8_t sym[48]; embedded_pairing_lqibe_decrypt(sym, sizeof sym, &f.lqct, &f.lqsk, &f.lqid, rt_hash);
        h = fnv(sym, sizeof sym);
    } else if (name == "wk.encrypt") {
        embedded_pairing_wkdibe_ciphertext_t ct; memset(&ct, 0, sizeof ct);
        embedded_pairing_wkdibe_encrypt(&ct, &f.msg, &f.wkp, &f.al, rt_random);
        h = fnv(&ct, sizeof ct);
    } else if (name == "wk.decrypt") {
        embedded_pairing_wkdibe_gt_t m; memset(&m, 0, sizeof m);
        embedded_pairing_wkdibe_decrypt(&m, &f.wkct, &f.wksk);
        h = fnv(&m, sizeof m);
    } else if (name == "wk.keygen") {
        embedded_pairing_wkdibe_secretkey_t sk; embedded_pairing_wkdibe_freeslot_t b[4]; memset(&sk, 0, sizeof sk); memset(b, 0, sizeof b); sk.b = b;
        embedded_pairing_wkdibe_keygen(&sk, &f.wkp, &f.wkm, &f.al, rt_random);
        sk.b = nullptr; h = fnv(b, sizeof b, fnv(&sk, sizeof sk));
    } else if (name == "wk.sign") {
        embedded_pairing_wkdibe_signature_t sg; memset(&sg, 0, sizeof sg);
        embedded_pairing_wkdibe_scalar_t m; g.fill(&m, sizeof m);
        embedded_pairing_wkdibe_sign(&sg, &f.wkp, &f.wksk, &f.al, &m, rt_random);
        bool ok = embedded_pairing_wkdibe_verify(&f.wkp, &f.al, &sg, &m);
        h = fnv(&sg, sizeof sg) ^ (ok ? 1 : 0);
    } else if (name == "wk.marshal") {
        uint8_t buf[4096]; memset(buf, 0, sizeof buf);
        size_t n = embedded_pairing_wkdibe_params_get_marshalled_length(&f.wkp, idx % 2 == 0);
        embedded_pairing_wkdibe_params_marshal(buf, &f.wkp, idx % 2 == 0);
        size_t m = embedded_pairing_wkdibe_secretkey_get_marshalled_length(&f.wksk, true);
        embedded_pairing_wkdibe_secretkey_marshal(buf + 2048, &f.wksk, true);
        h = fnv(buf, n, fnv(buf + 2048, m));
    } else if (name == "pairing") {
        embedded_pairing_bls12_381_fq12_t e; memset(&e, 0, sizeof e);
        embedded_pairing_bls12_381_pairing(&e, &f.Pa, &f.Qa);
        h = fnv(&e, sizeof e);
    } else if (name == "g1.mul" || name == "g2.mul") {
        embedded_pairing_core_bigint_256_t k; g.fill(&k, sizeof k);
        if (name == "g1.mul") { embedded_pairing_bls12_381_g1_t r; memset(&r, 0, sizeof r); embedded_pairing_bls12_381_g1_multiply(&r, &f.P, &k); h = fnv(&r, sizeof r); }
        else { embedded_pairing_bls12_381_g2_t r; memset(&r, 0, sizeof r); embedded_pairing_bls12_381_g2_multiply(&r, &f.Q, &k); h = fnv(&r, sizeof r); }
    } else if (name == "gt.random") {
        embedded_pairing_bls12_381_fq12_t r; embedded_pairing_core_bigint_256_t y; memset(&r, 0, sizeof r);
        embedded_pairing_bls12_381_gt_multiply_random(&r, &y, embedded_pairing_bls12_381_gt_generator, rt_random);
        h = fnv(&r, sizeof r, fnv(&y, sizeof y));
    } else if (name == "g1.decode" || name == "g2.decode") {
        // validating decode (curve and subgroup checks) of a valid encoding, compressed and uncompressed
        uint8_t buf[192]; bool ok1, ok2;
        if (name == "g1.decode") {
            embedded_pairing_bls12_381_g1affine_t a, b; memset(&a, 0, sizeof a); memset(&b, 0, sizeof b);
            embedded_pairing_bls12_381_g1_marshal(buf, &f.Pa, true); ok1 = embedded_pairing_bls12_381_g1_unmarshal(&a, buf, true, true);
            embedded_pairing_bls12_381_g1_marshal(buf, &f.Pa, false); ok2 = embedded_pairing_bls12_381_g1_unmarshal(&b, buf, false, true);
            h = fnv(&a, sizeof a, fnv(&b, sizeof b)) ^ (ok1 ? 1 : 0) ^ (ok2 ? 2 : 0);
        } else {
            embedded_pairing_bls12_381_g2affine_t a, b; memset(&a, 0, sizeof a); memset(&b, 0, sizeof b);
            embedded_pairing_bls12_381_g2_marshal(buf, &f.Qa, true); ok1 = embedded_pairing_bls12_381_g2_unmarshal(&a, buf, true, true);
            embedded_pairing_bls12_381_g2_marshal(buf, &f.Qa, false); ok2 = embedded_pairing_bls12_381_g2_unmarshal(&b, buf, false, true);
            h = fnv(&a, sizeof a, fnv(&b, sizeof b)) ^ (ok1 ? 1 : 0) ^ (ok2 ? 2 : 0);
        }
    } else if (name == "wk.unmarshal") {
        uint8_t buf[4096]; memset(buf, 0, sizeof buf);
        embedded_pairing_wkdibe_params_marshal(buf, &f.wkp, true);
        embedded_pairing_wkdibe_params_t p2; embedded_pairing_wkdibe_g1_t hh[8]; memset(&p2, 0, sizeof p2); memset(hh, 0, sizeof hh); p2.h = hh;
        embedded_pairing_wkdibe_params_set_length(&p2, buf, embedded_pairing_wkdibe_params_get_marshalled_length(&f.wkp, true), true);
        bool ok = embedded_pairing_wkdibe_params_unmarshal(&p2, buf, true, true);
        p2.h = nullptr; h = fnv(hh, sizeof hh, fnv(&p2, sizeof p2)) ^ (ok ? 1 : 0);
    } else if (name == "zp.random") {
        // the scalar samplers of both layers (Fr::random behind them) and the G1 sampler
        embedded_pairing_core_bigint_256_t a, b; memset(&a, 0, sizeof a); memset(&b, 0, sizeof b);
        embedded_pairing_bls12_381_zp_random(&a, rt_random);
        embedded_pairing_wkdibe_random_zpstar((embedded_pairing_wkdibe_scalar_t*) &b, rt_random);
        embedded_pairing_bls12_381_g1_t r; memset(&r, 0, sizeof r); embedded_pairing_bls12_381_g1_random(&r, rt_random);
        h = fnv(&a, sizeof a, fnv(&b, sizeof b, fnv(&r, sizeof r)));
    } else if (name == "g2.random") {
        embedded_pairing_bls12_381_g2_t r; memset(&r, 0, sizeof r); embedded_pairing_bls12_381_g2_random(&r, rt_random); h = fnv(&r, sizeof r);
    }
    t_rng = nullptr;
    return h;
}
static JVal hex64(uint64_t v) { char b[32]; snprintf(b, sizeof b, "%016llx", (unsigned long long) v); return JVal(b); }

static std::vector<Fixture>* g_fix = nullptr;
static void thread_body(int tid, const JVal* calls, JVal* results, JVal* segs, std::atomic<int>* barrier, int nthreads) {
    t_id = tid;
    barrier->fetch_add(1); while (barrier->load() < nthreads) std::this_thread::yield();
    for (size_t i = 0; i < calls->a.size(); i++) {
        t_segments = 0;
        wait_turn();                                     // first segment of the call
        uint64_t h = do_call(calls->a[i].s, (*g_fix)[tid - 1], tid, (int) i);
        results->push(hex64(h)); segs->push(JVal((long long) (t_segments + 1)));
    }
    { std::lock_guard<std::mutex> lk(g_mu); g_finished[tid - 1] = 1; }
    g_cv.notify_all();
}

static void run_case(const JVal& in) {
    JVal ev = in; ev.set("cfg", VERIF_CFG);
    JVal out = JVal::obj();
    const std::string& op = in["op"].s;
    const JVal& th = in["threads"];
    int n = (int) th.a.size();
    out.set("dispatch_before", dispatch_state());
    std::vector<Fixture> fix(n); g_fix = &fix;
    for (int t = 0; t < n; t++) build_fixture(fix[t], t + 1);
    Fixture shared; build_fixture(shared, 99); g_shared = &shared;
    std::vector<uint64_t> before(n); for (int t = 0; t < n; t++) before[t] = fixture_digest(fix[t]);
    uint64_t shared_before = fixture_digest(shared);
    out.set("lib_changed_by_fixture", changed_ranges());
    std::vector<JVal> results(n, JVal::arr()), segs(n, JVal::arr());
    g_finished.assign(n, 0); g_pos = 0; g_desync = false;
    if (op == "rt.sequential") {
        g_controlled = false;
        for (int t = 0; t < n; t++) {
            t_id = t + 1;
            for (size_t i = 0; i < th.a[t].a.size(); i++) {
                t_segments = 0;
                uint64_t h = do_call(th.a[t].a[i].s, fix[t], t + 1, (int) i);
                results[t].push(hex64(h)); segs[t].push(JVal((long long) (t_segments + 1)));
            }
        }
    } else {
        g_controlled = (op == "rt.schedule");
        g_sched.clear();
        if (g_controlled) for (auto& x : in["schedule"].a) g_sched.push_back((int) x.i);
        std::atomic<int> barrier(0);
        std::vector<std::thread> ths;
        for (int t = 0; t < n; t++) ths.emplace_back(thread_body, t + 1, &th.a[t], &results[t], &segs[t], &barrier, n);
        for (auto& x : ths) x.join();
        out.set("desync", (long long) (g_desync ? 1 : 0));
        out.set("consumed", (long long) g_pos);
        g_controlled = false;
    }
    JVal r = JVal::arr(), s = JVal::arr();
    for (int t = 0; t < n; t++) { r.push(results[t]); s.push(segs[t]); }
    out.set("results", r); out.set("segs", s);
    // const inputs must come back untouched: the threads' own fixtures and the shared one
    long long changed = 0; for (int t = 0; t < n; t++) if (fixture_digest(fix[t]) != before[t]) changed++;
    out.set("inputs_changed", changed); out.set("shared_inputs_changed", (long long) (fixture_digest(shared) != shared_before ? 1 : 0));
    out.set("lib_changed", changed_ranges());
    out.set("dispatch_after", dispatch_state());
    out.set("ranges", (long long) g_ranges.size());
    ev.set("out", out);
    emit(g_out, ev);
}

int main(int argc, char** argv) {
    if (argc < 5) return 2;                       // replay <cases> <trace> <ranges file>
    load_ranges(argv[4]);                         // first thing: the image as the static initialisers left it
    install_crash_handlers();
    FILE* f = fopen(argv[2], "r"); if (!f) { perror(argv[2]); return 2; }
    g_out = fopen(argv[3], "w"); if (!g_out) { perror(argv[3]); return 2; }
    std::string line;
    while (read_line(f, line)) { if (line.empty()) continue; run_case(jparse(line)); }
    fclose(g_out);
    return 0;
}
