// Curve-layer driver (C05, C06, part of C18/C19): point arithmetic, scalar multiplication routines,
// signed-digit recoding and scalar decompositions, through the C++ API ("api":"cpp") or the C API
// ("api":"c").  Records inputs and raw outputs; validated by spec/Trace_Curve.tla.
#include "common.hpp"
#include "bls12_381/bls12_381.h"

Rng* g_rng = nullptr;
FILE* g_out = nullptr;

template <typename P> struct Grp;
template <> struct Grp<G1> { typedef G1Affine A; typedef Fq F; static constexpr int g = 1; };
template <> struct Grp<G2> { typedef G2Affine A; typedef Fq2 F; static constexpr int g = 2; };

template <int bits, unsigned int window>
static void recode(const JVal& in, JVal& out) {
    BigInt<bits> k; U(in["k"], k);
    WnafScalar<bits, window> w;
    memset(&w, 0x55, sizeof w);
    w.from_bigint(k);
    out.set("size", (long long) w.wnaf_size);
    JVal d = JVal::arr();
    int n = w.wnaf_size; if (n < 0) n = 0; if (n > bits + 1) n = bits + 1;
    for (int i = 0; i < n; i++) d.push(JVal((long long) w.wnaf[i]));
    out.set("digits", d);
}

template <typename P, int bits>
static void mul_width(const std::string& routine, const JVal& in, JVal& out, int alias) {
    typedef typename Grp<P>::A A;
    BigInt<bits> k; U(in["k"], k);
    bool affine = in.num("affine", 0) != 0;
    P base, r; A abase;
    memset(&r, 0xA5, sizeof r);
    if (affine) U(in["base"], abase); else U(in["base"], base);
    P* d = (alias == 1 && !affine) ? &base : &r;
    if (routine == "wnaf_s") {       // recoded scalar given by the caller
        WnafScalar<bits, 4> s; s.from_bigint(k);
        if (affine) d->template multiply_wnaf<A, bits, 4>(abase, s); else d->template multiply_wnaf<P, bits, 4>(base, s);
    }
    else if (routine == "wnaf") { if (affine) d->template multiply_wnaf<A, BigInt<bits>>(abase, k); else d->template multiply_wnaf<P, BigInt<bits>>(base, k); }
    else if (routine == "doubleadd") {
        if (in.has("hb")) {       // the optional third argument: only bits hb..0 of the scalar are read
            int hb = (int) in["hb"].i;
            if (affine) d->multiply_doubleadd(abase, k, hb); else d->multiply_doubleadd(base, k, hb);
        } else { if (affine) d->multiply_doubleadd(abase, k); else d->multiply_doubleadd(base, k); }
    }
    else if (routine == "multiply") {    // the statically dispatched entry point for this width
        constexpr bool has = (Grp<P>::g == 1 && (bits == 256 || bits == 128)) || (Grp<P>::g == 2 && (bits == 256 || bits == 512));
        if constexpr (has) { if (affine) d->multiply(abase, k); else d->multiply(base, k); }
        else { out.set("skip", 1); return; }
    }
    else if (routine == "table") {
        WnafTable<P, 4> t;
        if (affine) t.fill_table(abase); else t.fill_table(base);
        WnafScalar<bits, 4> s; s.from_bigint(k);
        wnaf_table_multiply(*d, t, s);
    }
    else { out.set("skip", 1); return; }
    out.set("r", J(*d));
}

template <typename P>
static void group_op(const std::string& op, const JVal& in, JVal& out) {
    typedef typename Grp<P>::A A;
    int alias = (int) in.num("alias", 0);
    bool capi = in.str("api", "cpp") == "c";
    P a, b, r; A aa, ab, ar;
    memset(&r, 0xA5, sizeof r); memset(&ar, 0xA5, sizeof ar);
    if (op == "pt.add") {
        U(in["a"], a); U(in["b"], b);
        // alias: 1 result == a; through the C interface (no restrict qualifiers) also 2 result == b, 3 result == a == b
        P* d = (alias == 1 || alias == 3) ? &a : (alias == 2 && capi) ? &b : &r;
        P* pb = (alias == 3 && capi) ? &a : &b;
        if (alias >= 2 && !capi) { out.set("skip", 1); return; }
        if (capi) {
            if constexpr (Grp<P>::g == 1) embedded_pairing_bls12_381_g1_add((embedded_pairing_bls12_381_g1_t*) d, (embedded_pairing_bls12_381_g1_t*) &a, (embedded_pairing_bls12_381_g1_t*) pb);
            else embedded_pairing_bls12_381_g2_add((embedded_pairing_bls12_381_g2_t*) d, (embedded_pairing_bls12_381_g2_t*) &a, (embedded_pairing_bls12_381_g2_t*) pb);
        } else d->add(a, b);
        out.set("r", J(*d));
    } else if (op == "pt.add_mixed") {
        U(in["a"], a); U(in["b"], ab);
        P* d = alias == 1 ? &a : &r;
        if (capi) {
            if constexpr (Grp<P>::g == 1) embedded_pairing_bls12_381_g1_add_mixed((embedded_pairing_bls12_381_g1_t*) d, (embedded_pairing_bls12_381_g1_t*) &a, (embedded_pairing_bls12_381_g1affine_t*) &ab);
            else embedded_pairing_bls12_381_g2_add_mixed((embedded_pairing_bls12_381_g2_t*) d, (embedded_pairing_bls12_381_g2_t*) &a, (embedded_pairing_bls12_381_g2affine_t*) &ab);
        } else d->add(a, ab);
        out.set("r", J(*d));
    } else if (op == "pt.dbl") {
        U(in["a"], a);
        P* d = alias == 1 ? &a : &r;
        if (capi) {
            if constexpr (Grp<P>::g == 1) embedded_pairing_bls12_381_g1_double((embedded_pairing_bls12_381_g1_t*) d, (embedded_pairing_bls12_381_g1_t*) &a);
            else embedded_pairing_bls12_381_g2_double((embedded_pairing_bls12_381_g2_t*) d, (embedded_pairing_bls12_381_g2_t*) &a);
        } else d->multiply2(a);
        out.set("r", J(*d));
    } else if (op == "pt.neg") {
        U(in["a"], a);
        P* d = alias == 1 ? &a : &r;
        if (capi) {
            if constexpr (Grp<P>::g == 1) embedded_pairing_bls12_381_g1_negate((embedded_pairing_bls12_381_g1_t*) d, (embedded_pairing_bls12_381_g1_t*) &a);
            else embedded_pairing_bls12_381_g2_negate((embedded_pairing_bls12_381_g2_t*) d, (embedded_pairing_bls12_381_g2_t*) &a);
        } else d->negate(a);
        out.set("r", J(*d));
    } else if (op == "pt.aneg") {
        U(in["a"], aa);
        A* d = alias == 1 ? &aa : &ar;
        if (capi) {
            if constexpr (Grp<P>::g == 1) embedded_pairing_bls12_381_g1affine_negate((embedded_pairing_bls12_381_g1affine_t*) d, (embedded_pairing_bls12_381_g1affine_t*) &aa);
            else embedded_pairing_bls12_381_g2affine_negate((embedded_pairing_bls12_381_g2affine_t*) d, (embedded_pairing_bls12_381_g2affine_t*) &aa);
        } else d->negate(aa);
        out.set("r", J(*d));
    } else if (op == "pt.eq") {
        U(in["a"], a); U(in["b"], b);
        bool v;
        if (capi) {
            if constexpr (Grp<P>::g == 1) v = embedded_pairing_bls12_381_g1_equal((embedded_pairing_bls12_381_g1_t*) &a, (embedded_pairing_bls12_381_g1_t*) &b);
            else v = embedded_pairing_bls12_381_g2_equal((embedded_pairing_bls12_381_g2_t*) &a, (embedded_pairing_bls12_381_g2_t*) &b);
        } else v = P::equal(a, b);
        out.set("v", (long long) (v ? 1 : 0));
    } else if (op == "pt.aeq") {
        U(in["a"], aa); U(in["b"], ab);
        bool v;
        if (capi) {
            if constexpr (Grp<P>::g == 1) v = embedded_pairing_bls12_381_g1affine_equal((embedded_pairing_bls12_381_g1affine_t*) &aa, (embedded_pairing_bls12_381_g1affine_t*) &ab);
            else v = embedded_pairing_bls12_381_g2affine_equal((embedded_pairing_bls12_381_g2affine_t*) &aa, (embedded_pairing_bls12_381_g2affine_t*) &ab);
        } else v = A::equal(aa, ab);
        out.set("v", (long long) (v ? 1 : 0));
    } else if (op == "pt.from_affine") {
        U(in["a"], aa);
        if (capi) {
            if constexpr (Grp<P>::g == 1) embedded_pairing_bls12_381_g1_from_affine((embedded_pairing_bls12_381_g1_t*) &r, (embedded_pairing_bls12_381_g1affine_t*) &aa);
            else embedded_pairing_bls12_381_g2_from_affine((embedded_pairing_bls12_381_g2_t*) &r, (embedded_pairing_bls12_381_g2affine_t*) &aa);
        } else r.from_affine(aa);
        out.set("r", J(r));
    } else if (op == "pt.to_affine") {
        U(in["a"], a);
        if (capi) {
            if constexpr (Grp<P>::g == 1) embedded_pairing_bls12_381_g1affine_from_projective((embedded_pairing_bls12_381_g1affine_t*) &ar, (embedded_pairing_bls12_381_g1_t*) &a);
            else embedded_pairing_bls12_381_g2affine_from_projective((embedded_pairing_bls12_381_g2affine_t*) &ar, (embedded_pairing_bls12_381_g2_t*) &a);
        } else ar.from_projective(a);
        out.set("r", J(ar));
    } else if (op == "pt.set") {
        U(in["a"], a);
        P* d = alias == 1 ? &a : &r;
        d->set(a); out.set("r", J(*d));
    } else if (op == "pt.acopy" || op == "pt.aset") {
        U(in["a"], aa);
        A* d = alias == 1 ? &aa : &ar;
        if (op == "pt.acopy") d->copy(aa); else d->set(aa);
        out.set("r", J(*d));
    } else if (op == "mul.endo2") {
        // G1::multiply_endomorphism with an explicit decomposition: [(+-)c0 + (+-)c1 * lambda] a
        if constexpr (Grp<P>::g == 1) {
            U(in["base"], a);
            BigInt<256> c0, c1; U(in["c0"], c0); U(in["c1"], c1);
            P* d = alias == 1 ? &a : &r;
            d->multiply_endomorphism(a, c0, in.num("n0", 0) != 0, c1, in.num("n1", 0) != 0);
            out.set("r", J(*d));
        } else out.set("skip", 1);
    } else if (op == "mul.powx") {
        // G2::multiply_frobenius with a caller-supplied base-|x| decomposition
        if constexpr (Grp<P>::g == 2) {
            U(in["base"], a);
            BigInt<256> k; U(in["k"], k);
            PowersOfX sx; sx.decompose(k);
            P* d = alias == 1 ? &a : &r;
            d->multiply_frobenius(a, sx);
            out.set("r", J(*d));
        } else out.set("skip", 1);
    } else if (op == "pt.copy") {
        U(in["a"], a);
        P* d = alias == 1 ? &a : &r;
        d->copy(a); out.set("r", J(*d));
    } else if (op == "pt.endo") {
        if constexpr (Grp<P>::g == 1) {
            U(in["a"], a);
            P* d = alias == 1 ? &a : &r;
            d->endomorphism(a); out.set("r", J(*d));
        } else out.set("skip", 1);
    } else if (op == "pt.frob") {
        if constexpr (Grp<P>::g == 2) {
            U(in["a"], a);
            P* d = alias == 1 ? &a : &r;
            d->frobenius_map(a, (unsigned) in["power"].i); out.set("r", J(*d));
        } else out.set("skip", 1);
    } else if (op == "pt.is_zero") {
        U(in["a"], a);
        bool v = a.is_zero();
        out.set("v", (long long) (v ? 1 : 0));
    } else if (op == "pt.on_curve") {
        U(in["a"], aa);
        out.set("v", (long long) (aa.infinity || aa.is_on_curve() ? 1 : 0));
    } else if (op == "pt.in_subgroup") {
        U(in["a"], aa);
        out.set("v", (long long) (aa.is_in_correct_subgroup_assuming_on_curve() ? 1 : 0));
    } else if (op == "mul.fast") {
        // the group's accelerated 256-bit entry point (GLV for G1, Frobenius for G2)
        BigInt<256> k; U(in["k"], k);
        bool affine = in.num("affine", 0) != 0;
        P* d = &r;
        if (affine) {
            U(in["base"], aa);
            if (capi) {
                if constexpr (Grp<P>::g == 1) embedded_pairing_bls12_381_g1_multiply_affine((embedded_pairing_bls12_381_g1_t*) d, (embedded_pairing_bls12_381_g1affine_t*) &aa, (embedded_pairing_core_bigint_256_t*) &k);
                else embedded_pairing_bls12_381_g2_multiply_affine((embedded_pairing_bls12_381_g2_t*) d, (embedded_pairing_bls12_381_g2affine_t*) &aa, (embedded_pairing_core_bigint_256_t*) &k);
            } else d->multiply(aa, k);
        } else {
            U(in["base"], a);
            if (alias == 1) d = &a;
            if (capi) {
                if constexpr (Grp<P>::g == 1) embedded_pairing_bls12_381_g1_multiply((embedded_pairing_bls12_381_g1_t*) d, (embedded_pairing_bls12_381_g1_t*) &a, (embedded_pairing_core_bigint_256_t*) &k);
                else embedded_pairing_bls12_381_g2_multiply((embedded_pairing_bls12_381_g2_t*) d, (embedded_pairing_bls12_381_g2_t*) &a, (embedded_pairing_core_bigint_256_t*) &k);
            } else d->multiply(a, k);
        }
        out.set("r", J(*d));
    } else if (op == "mul.gen") {
        // width-generic routines: wnaf / doubleadd / table / multiply (static dispatch by width)
        int bits = (int) in["bits"].i;
        std::string routine = in["routine"].s;
        if (bits == 64) { if (routine == "multiply") out.set("skip", 1); else mul_width<P, 64>(routine, in, out, alias); }
        else if (bits == 128) { if (routine == "multiply" && Grp<P>::g == 2) out.set("skip", 1); else mul_width<P, 128>(routine, in, out, alias); }
        else if (bits == 256) mul_width<P, 256>(routine, in, out, alias);
        else if (bits == 512) { if (routine == "multiply" && Grp<P>::g == 1) out.set("skip", 1); else mul_width<P, 512>(routine, in, out, alias); }
        else out.set("skip", 1);
    } else out.set("skip", 1);
}

static void scalar_op(const std::string& op, const JVal& in, JVal& out) {
    if (op == "wnaf.recode") {
        int bits = (int) in["bits"].i, w = (int) in["window"].i;
        if (bits == 64 && w == 2) recode<64, 2>(in, out);
        else if (bits == 64 && w == 4) recode<64, 4>(in, out);
        else if (bits == 128 && w == 4) recode<128, 4>(in, out);
        else if (bits == 256 && w == 4) recode<256, 4>(in, out);
        else if (bits == 256 && w == 2) recode<256, 2>(in, out);
        else if (bits == 512 && w == 4) recode<512, 4>(in, out);
        else out.set("skip", 1);
    } else if (op == "powx.decompose") {
        BigInt<256> k; U(in["k"], k);
        PowersOfX p; memset(&p, 0x55, sizeof p);
        p.decompose(k);
        JVal d = JVal::arr();
        for (int i = 0; i < 4; i++) d.push(J(p.c[i]));
        out.set("c", d);
    } else out.set("skip", 1);
}

static void run_case(const JVal& in) {
    JVal ev = in;
    ev.set("cfg", VERIF_CFG);
    JVal out = JVal::obj();
    const std::string& op = in["op"].s;
    if (op.rfind("pt.", 0) == 0 || op.rfind("mul.", 0) == 0) {
        if (in["g"].i == 1) group_op<G1>(op, in, out); else group_op<G2>(op, in, out);
    } else scalar_op(op, in, out);
    ev.set("out", out);
    if (!out.has("skip")) emit(g_out, ev);
}

// ---- seeded random cases ---------------------------------------------------------------------------
template <typename P> static void rand_point(Rng& g, P& p, bool subgroup) {
    // a random multiple of the generator by a 64-bit scalar (double-and-add), re-randomised representative
    typedef typename Grp<P>::A A;
    BigInt<64> k; g.fill(k.bytes, 8);
    P base; base.copy(P::one);
    p.multiply_doubleadd(base, k);
    (void) subgroup;
    if (g.below(3) == 0) { A af; af.from_projective(p); p.from_affine(af); }   // z = 1 representative
}

template <typename P> static void random_cases(Rng& g, int count) {
    typedef typename Grp<P>::A A;
    static const char* ops[] = {"pt.add", "pt.add_mixed", "pt.dbl", "pt.neg", "pt.eq", "pt.to_affine", "mul.fast", "mul.gen", "mul.gen", "mul.gen", "pt.add"};
    static const char* routines[] = {"wnaf", "doubleadd", "table", "multiply"};
    static const int widths[] = {64, 128, 256, 512};
    for (int i = 0; i < count; i++) {
        const char* op = ops[i % (sizeof ops / sizeof ops[0])];
        JVal c = JVal::obj();
        c.set("op", op); c.set("g", (long long) Grp<P>::g); c.set("src", "random"); c.set("api", g.below(2) ? "c" : "cpp");
        P a, b; A ab;
        rand_point(g, a, true); rand_point(g, b, true); ab.from_projective(b);
        c.set("a", J(a));
        if (!strcmp(op, "pt.add_mixed")) c.set("b", J(ab)); else c.set("b", J(b));
        c.set("alias", (long long) g.below(2));
        if (!strncmp(op, "mul.", 4)) {
            bool affine = g.below(2) != 0;
            c.set("affine", (long long) affine);
            if (affine) { A aa; aa.from_projective(a); c.set("base", J(aa)); } else c.set("base", J(a));
            int bits = !strcmp(op, "mul.fast") ? 256 : widths[g.below(4)];
            c.set("bits", (long long) bits);
            c.set("routine", routines[g.below(4)]);
            std::vector<uint8_t> k(bits / 8); g.fill(k.data(), k.size());
            c.set("k", JVal::bytes(k.data(), k.size()));
            c.set("api", !strcmp(op, "mul.fast") && g.below(2) ? "c" : "cpp");
        }
        run_case(c);
        if (i % 4 == 0) {
            JVal w = JVal::obj(); w.set("op", "wnaf.recode"); w.set("src", "random");
            int bits = widths[g.below(4)]; int win = (bits == 64 || bits == 256) && g.below(2) ? 2 : 4;
            std::vector<uint8_t> k(bits / 8); g.fill(k.data(), k.size());
            w.set("bits", (long long) bits); w.set("window", (long long) win); w.set("k", JVal::bytes(k.data(), k.size()));
            run_case(w);
            JVal d = JVal::obj(); d.set("op", "powx.decompose"); d.set("src", "random");
            uint8_t kk[32]; g.fill(kk, 32); d.set("k", JVal::bytes(kk, 32));
            run_case(d);
        }
    }
}

int main(int argc, char** argv) {
    install_crash_handlers();
    if (argc < 2) return 2;
    std::string mode = argv[1];
    if (mode == "replay") {
        FILE* f = fopen(argv[2], "r"); if (!f) { perror(argv[2]); return 2; }
        g_out = fopen(argv[3], "w"); if (!g_out) { perror(argv[3]); return 2; }
        std::string line;
        while (read_line(f, line)) { if (line.empty()) continue; run_case(jparse(line)); }
    } else if (mode == "random") {
        Rng g(strtoull(argv[2], 0, 10)); g_rng = &g;
        int count = atoi(argv[3]);
        g_out = fopen(argv[4], "w"); if (!g_out) { perror(argv[4]); return 2; }
        random_cases<G1>(g, count);
        random_cases<G2>(g, count);
    } else return 2;
    fclose(g_out);
    return 0;
}
