// Minimal JSON (ints, strings, arrays, objects, true/false/null) for ndjson case/trace files.
#ifndef VERIF_JSON_HPP
#define VERIF_JSON_HPP
#include <string>
#include <vector>
#include <utility>
#include <cstdio>
#include <cstdlib>
#include <cstring>
#include <cstdint>

struct JVal {
    enum T { NUL, INT, STR, ARR, OBJ } t = NUL;
    long long i = 0;
    std::string s;
    std::vector<JVal> a;
    std::vector<std::pair<std::string, JVal>> o;

    JVal() {}
    JVal(long long v) : t(INT), i(v) {}
    JVal(int v) : t(INT), i(v) {}
    JVal(bool v) : t(INT), i(v ? 1 : 0) {}
    JVal(const char* v) : t(STR), s(v) {}
    JVal(const std::string& v) : t(STR), s(v) {}
    static JVal arr() { JVal v; v.t = ARR; return v; }
    static JVal obj() { JVal v; v.t = OBJ; return v; }
    static JVal bytes(const void* p, size_t n) {
        JVal v = arr();
        const uint8_t* b = (const uint8_t*) p;
        v.a.reserve(n);
        for (size_t k = 0; k < n; k++) v.a.push_back(JVal((long long) b[k]));
        return v;
    }
    bool has(const char* k) const {
        for (auto& kv : o) if (kv.first == k) return true;
        return false;
    }
    const JVal& operator[](const char* k) const {
        for (auto& kv : o) if (kv.first == k) return kv.second;
        fprintf(stderr, "json: missing key %s\n", k);
        exit(3);
    }
    const JVal& operator[](int k) const { return at((size_t) k); }
    const JVal& at(size_t k) const {
        if (k >= a.size()) { fprintf(stderr, "json: index %zu out of range\n", k); exit(3); }
        return a[k];
    }
    JVal& set(const std::string& k, const JVal& v) {
        for (auto& kv : o) if (kv.first == k) { kv.second = v; return *this; }
        o.push_back({k, v});
        t = OBJ;
        return *this;
    }
    JVal& push(const JVal& v) { t = ARR; a.push_back(v); return *this; }
    long long num(const char* k, long long dflt) const { return has(k) ? (*this)[k].i : dflt; }
    std::string str(const char* k, const char* dflt) const { return has(k) ? (*this)[k].s : std::string(dflt); }
    void to_bytes(void* p, size_t n) const {
        if (t != ARR || a.size() != n) { fprintf(stderr, "json: expected %zu bytes, got %zu\n", n, a.size()); exit(3); }
        uint8_t* b = (uint8_t*) p;
        for (size_t k = 0; k < n; k++) b[k] = (uint8_t) a[k].i;
    }
    std::vector<uint8_t> byte_vec() const {
        std::vector<uint8_t> v(a.size());
        for (size_t k = 0; k < a.size(); k++) v[k] = (uint8_t) a[k].i;
        return v;
    }
    void dump(std::string& out) const {
        char buf[32];
        switch (t) {
        case NUL: out += "null"; break;
        case INT: snprintf(buf, sizeof buf, "%lld", i); out += buf; break;
        case STR: out += '"'; for (char c : s) { if (c == '"' || c == '\\') out += '\\'; out += c; } out += '"'; break;
        case ARR: out += '['; for (size_t k = 0; k < a.size(); k++) { if (k) out += ','; a[k].dump(out); } out += ']'; break;
        case OBJ: out += '{'; for (size_t k = 0; k < o.size(); k++) { if (k) out += ','; out += '"'; out += o[k].first; out += "\":"; o[k].second.dump(out); } out += '}'; break;
        }
    }
};

struct JParser {
    const char* p;
    explicit JParser(const char* s) : p(s) {}
    void ws() { while (*p == ' ' || *p == '\t' || *p == '\n' || *p == '\r') p++; }
    [[noreturn]] void fail(const char* m) { fprintf(stderr, "json parse error: %s near '%.20s'\n", m, p); exit(3); }
    JVal value() {
        ws();
        JVal v;
        if (*p == '{') {
            p++; v.t = JVal::OBJ; ws();
            if (*p == '}') { p++; return v; }
            for (;;) {
                ws(); if (*p != '"') fail("key");
                std::string k = string();
                ws(); if (*p != ':') fail("colon"); p++;
                v.o.push_back({k, value()});
                ws(); if (*p == ',') { p++; continue; }
                if (*p == '}') { p++; break; }
                fail("object");
            }
        } else if (*p == '[') {
            p++; v.t = JVal::ARR; ws();
            if (*p == ']') { p++; return v; }
            for (;;) {
                v.a.push_back(value());
                ws(); if (*p == ',') { p++; continue; }
                if (*p == ']') { p++; break; }
                fail("array");
            }
        } else if (*p == '"') {
            v.t = JVal::STR; v.s = string();
        } else if (*p == '-' || (*p >= '0' && *p <= '9')) {
            char* e; v.t = JVal::INT; v.i = strtoll(p, &e, 10); p = e;
        } else if (!strncmp(p, "true", 4)) { v.t = JVal::INT; v.i = 1; p += 4; }
        else if (!strncmp(p, "false", 5)) { v.t = JVal::INT; v.i = 0; p += 5; }
        else if (!strncmp(p, "null", 4)) { p += 4; }
        else fail("value");
        return v;
    }
    std::string string() {
        std::string s; p++;
        while (*p && *p != '"') { if (*p == '\\') p++; s += *p++; }
        if (*p != '"') fail("string");
        p++;
        return s;
    }
};

inline JVal jparse(const std::string& line) { JParser q(line.c_str()); return q.value(); }

inline bool read_line(FILE* f, std::string& out) {
    out.clear();
    int c;
    while ((c = fgetc(f)) != EOF) { if (c == '\n') return true; out += (char) c; }
    return !out.empty();
}

inline void emit(FILE* f, const JVal& v) {
    std::string s; v.dump(s); s += '\n';
    fwrite(s.data(), 1, s.size(), f);
}
#endif
