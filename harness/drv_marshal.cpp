// Marshalling driver (C15, C17): scheme objects are marshalled into buffers of exactly the reported length
// placed directly before a PROT_NONE page, unmarshalled following the documented caller protocol
// (set_length -> allocate exactly the reported number of slots, the slot array again ending at a guard
// page -> unmarshal) and marshalled again; sweeps run the protocol for every buffer length 1..N.
// A fault is caught (SIGSEGV/SIGBUS handler) and recorded with its address.  Validated by Trace_Marshal.tla.
#include "common.hpp"
#include "wkdibe/wkdibe.h"
#include "lqibe/lqibe.h"
#include <sys/mman.h>
#include <setjmp.h>

Rng* g_rng = nullptr;
FILE* g_out = nullptr;

// ---- guard pages and fault recovery -------------------------------------------------------------------
static sigjmp_buf g_jmp;
static volatile sig_atomic_t g_armed = 0;
static volatile uintptr_t g_fault_addr = 0;
static void on_fault(int sig, siginfo_t* si, void*) {
    if (g_armed) { g_fault_addr = (uintptr_t) si->si_addr; g_armed = 0; siglongjmp(g_jmp, sig); }
    verif_die(sig);
}
static void install_fault_handler() {
    struct sigaction sa; memset(&sa, 0, sizeof sa);
    sa.sa_sigaction = on_fault; sa.sa_flags = SA_SIGINFO | SA_NODEFER;
    sigaction(SIGSEGV, &sa, nullptr); sigaction(SIGBUS, &sa, nullptr);
}
// VERIF_HEAP_BUFFERS=1 (sanitizer runs): buffers come from malloc instead, i.e. with the start alignment a caller's
// buffer really has and with the sanitizer's red zones around them.
static bool g_heap = false;
static bool g_misalign = false;
struct Guarded {
    uint8_t* base = nullptr; size_t maplen = 0; uint8_t* p = nullptr; size_t size = 0; bool heap = false;
    explicit Guarded(size_t sz, size_t align = 1) {
        size = sz;
        // byte buffers at an odd address (marshalled data carries no alignment): the pass that looks for alignment assumptions
        bool odd = g_misalign && align == 1;
        if (g_heap && !odd) { heap = true; base = (uint8_t*) malloc(sz ? sz : 1); p = base; memset(base, 0xA5, sz ? sz : 1); return; }
        if (g_heap) { heap = true; base = (uint8_t*) malloc(sz + 17); p = base; while (((uintptr_t) p & 15) != 1) p++; memset(base, 0xA5, sz + 17); return; }
        size_t page = 4096;
        size_t pages = (sz + align + page - 1) / page + 1;
        maplen = (pages + 1) * page;
        base = (uint8_t*) mmap(nullptr, maplen, PROT_READ | PROT_WRITE, MAP_PRIVATE | MAP_ANONYMOUS, -1, 0);
        if (base == MAP_FAILED) { perror("mmap"); exit(2); }
        mprotect(base + pages * page, page, PROT_NONE);
        p = base + pages * page - sz;                  // the byte after the buffer is the first byte of the guard page
        if (odd) p = base + 1;                         // (this pass gives up the guard page behind the buffer)
        memset(base, 0xA5, pages * page);
    }
    ~Guarded() { if (heap) free(base); else if (base) munmap(base, maplen); }
    Guarded(const Guarded&) = delete;
};
#define GUARDED_CALL(fault_flag, stmt) do { g_fault_addr = 0; if (sigsetjmp(g_jmp, 1) == 0) { g_armed = 1; stmt; g_armed = 0; } else { fault_flag = true; } } while (0)

// ---- object construction from raw elements -----------------------------------------------------------------
typedef embedded_pairing_wkdibe_freeslot_t Slot;
struct WkKey {
    embedded_pairing_wkdibe_secretkey_t k; Guarded* arr = nullptr;
    void alloc(int l) { delete arr; arr = new Guarded((size_t) (l > 0 ? l : 0) * sizeof(Slot), 16); k.b = (Slot*) arr->p; }
    ~WkKey() { delete arr; }
};
struct WkParams {
    embedded_pairing_wkdibe_params_t p; Guarded* arr = nullptr;
    void alloc(int l) { delete arr; arr = new Guarded((size_t) (l > 0 ? l : 0) * sizeof(embedded_pairing_wkdibe_g1_t), 16); p.h = (embedded_pairing_wkdibe_g1_t*) arr->p; }
    ~WkParams() { delete arr; }
};
static JVal dump_key(const embedded_pairing_wkdibe_secretkey_t& k, int l) {
    JVal v = JVal::obj();
    v.set("l", (long long) k.l); v.set("sigs", (long long) (k.signatures ? 1 : 0));
    v.set("a0", J(*reinterpret_cast<const G1*>(&k.a0))); v.set("a1", J(*reinterpret_cast<const G2*>(&k.a1)));
    v.set("bsig", J(*reinterpret_cast<const G1*>(&k.bsig)));
    JVal idx = JVal::arr(), b = JVal::arr();
    for (int i = 0; i < l; i++) { idx.push(JVal((long long) k.b[i].idx)); b.push(J(*reinterpret_cast<const G1*>(&k.b[i].hexp))); }
    v.set("idx", idx); v.set("b", b);
    return v;
}
static JVal dump_params(const embedded_pairing_wkdibe_params_t& p, int l) {
    JVal v = JVal::obj();
    v.set("l", (long long) p.l); v.set("sigs", (long long) (p.signatures ? 1 : 0));
    v.set("g", J(*reinterpret_cast<const G2*>(&p.g))); v.set("g1", J(*reinterpret_cast<const G2*>(&p.g1)));
    v.set("g2", J(*reinterpret_cast<const G1*>(&p.g2))); v.set("g3", J(*reinterpret_cast<const G1*>(&p.g3)));
    v.set("pairing", J(*reinterpret_cast<const Fq12*>(&p.pairing))); v.set("hsig", J(*reinterpret_cast<const G1*>(&p.hsig)));
    JVal h = JVal::arr();
    for (int i = 0; i < l; i++) h.push(J(*reinterpret_cast<const G1*>(&p.h[i])));
    v.set("h", h);
    return v;
}

// generic unmarshal by the documented protocol of `kind` from exactly-sized guarded memory; returns result record
static JVal protocol_unmarshal(const std::string& kind, bool comp, bool checked, const uint8_t* bytes, size_t n) {
    JVal r = JVal::obj();
    Guarded in(n); memcpy(in.p, bytes, n);
    bool fault = false; bool ok = false;
    std::vector<uint8_t> again;
    if (kind == "wk.key") {
        WkKey K; memset(&K.k, 0, sizeof K.k);
        int rep = -2, rep2 = -2;
        K.k.l = 7777;                 // a key object that already has a slot count: a rejected length must leave it alone
        GUARDED_CALL(fault, rep2 = embedded_pairing_wkdibe_secretkey_unmarshalled_length(in.p, n, comp));
        GUARDED_CALL(fault, rep = embedded_pairing_wkdibe_secretkey_set_length(&K.k, in.p, n, comp));
        r.set("rep", (long long) rep); r.set("rep2", (long long) rep2); r.set("lafter", (long long) K.k.l);
        // a reported slot count that an n-byte buffer cannot hold is recorded and judged by the specification; the harness does not
        // try to allocate it (a real caller would)
        if (!fault && rep >= 0 && (size_t) rep <= n) {
            K.alloc(rep);
            GUARDED_CALL(fault, ok = embedded_pairing_wkdibe_secretkey_unmarshal(&K.k, in.p, comp, checked));
            if (!fault && ok) {
                r.set("obj", dump_key(K.k, rep));
                size_t len = 0; GUARDED_CALL(fault, len = embedded_pairing_wkdibe_secretkey_get_marshalled_length(&K.k, comp));
                r.set("relen", (long long) len);
                if (!fault && len <= (1u << 20)) { Guarded o(len); GUARDED_CALL(fault, embedded_pairing_wkdibe_secretkey_marshal(o.p, &K.k, comp)); again.assign(o.p, o.p + len); }
            }
        }
        // the other documented route: the static unmarshalled_length, the count stored by hand, and a target object that last held a key of
        // the OTHER kind (its signature-support flag is stale) -- the outcome must not depend on the route or on what the object held before
        if (!fault && rep2 >= 0 && (size_t) rep2 <= n && n >= 1) {
            WkKey K2; memset(&K2.k, 0, sizeof K2.k); K2.alloc(rep2);
            K2.k.l = rep2; K2.k.signatures = (in.p[0] == 0);
            bool ok2 = false, fault2 = false; JVal r2 = JVal::obj();
            GUARDED_CALL(fault2, ok2 = embedded_pairing_wkdibe_secretkey_unmarshal(&K2.k, in.p, comp, checked));
            r2.set("ok", (long long) (ok2 ? 1 : 0));
            if (!fault2 && ok2) {
                r2.set("obj", dump_key(K2.k, rep2));
                size_t len = 0; GUARDED_CALL(fault2, len = embedded_pairing_wkdibe_secretkey_get_marshalled_length(&K2.k, comp));
                r2.set("relen", (long long) len);
                if (!fault2 && len <= (1u << 20)) { Guarded o(len); GUARDED_CALL(fault2, embedded_pairing_wkdibe_secretkey_marshal(o.p, &K2.k, comp)); r2.set("again", JVal::bytes(o.p, len)); }
            }
            r2.set("fault", (long long) (fault2 ? 1 : 0));
            r.set("route2", r2);
        }
    } else if (kind == "wk.params") {
        WkParams P; memset(&P.p, 0, sizeof P.p);
        int rep = -2, rep2 = -2;
        P.p.l = 7777;
        GUARDED_CALL(fault, rep2 = embedded_pairing_wkdibe_params_unmarshalled_length(in.p, n, comp));
        GUARDED_CALL(fault, rep = embedded_pairing_wkdibe_params_set_length(&P.p, in.p, n, comp));
        r.set("rep", (long long) rep); r.set("rep2", (long long) rep2); r.set("lafter", (long long) P.p.l);
        if (!fault && rep >= 0 && (size_t) rep <= n) {
            P.alloc(rep);
            GUARDED_CALL(fault, ok = embedded_pairing_wkdibe_params_unmarshal(&P.p, in.p, comp, checked));
            if (!fault && ok) {
                r.set("obj", dump_params(P.p, rep));
                size_t len = 0; GUARDED_CALL(fault, len = embedded_pairing_wkdibe_params_get_marshalled_length(&P.p, comp));
                r.set("relen", (long long) len);
                if (!fault && len <= (1u << 20)) { Guarded o(len); GUARDED_CALL(fault, embedded_pairing_wkdibe_params_marshal(o.p, &P.p, comp)); again.assign(o.p, o.p + len); }
            }
        }
        // one object used three times: loaded with OTHER parameters (g and g1 exchanged: a valid object with a different pairing value), then
        // offered a damaged copy of this buffer (validating load, rejected), then this buffer: what the object held before, and what it was
        // left with by the rejected load, must not show in the result
        if (!fault && ok && checked && rep >= 0 && (size_t) rep <= n && n > 1 + 2 * (comp ? 96u : 192u)) {
            size_t g2len = comp ? 96 : 192;
            std::vector<uint8_t> other(in.p, in.p + n), damaged(in.p, in.p + n);
            for (size_t i = 0; i < g2len; i++) std::swap(other[1 + i], other[1 + g2len + i]);
            damaged[n - 1] ^= 0x5a; damaged[n - 2] ^= 0xa5;
            WkParams P3; memset(&P3.p, 0, sizeof P3.p); P3.alloc(rep); P3.p.l = rep;
            bool f3 = false, oka = false, okd = true, okb = false; JVal r3 = JVal::obj();
            { Guarded b1(n); memcpy(b1.p, other.data(), n); GUARDED_CALL(f3, oka = embedded_pairing_wkdibe_params_unmarshal(&P3.p, b1.p, comp, false)); }
            { Guarded b2(n); memcpy(b2.p, damaged.data(), n); GUARDED_CALL(f3, okd = embedded_pairing_wkdibe_params_unmarshal(&P3.p, b2.p, comp, true)); }
            { Guarded b3(n); memcpy(b3.p, in.p, n); GUARDED_CALL(f3, okb = embedded_pairing_wkdibe_params_unmarshal(&P3.p, b3.p, comp, true)); }
            r3.set("fault", (long long) (f3 ? 1 : 0)); r3.set("loaded_other", (long long) (oka ? 1 : 0)); r3.set("damaged_accepted", (long long) (okd ? 1 : 0)); r3.set("ok", (long long) (okb ? 1 : 0));
            if (!f3 && okb) r3.set("obj", dump_params(P3.p, rep));
            r.set("route3", r3);
        }
        if (!fault && rep2 >= 0 && (size_t) rep2 <= n && n >= 1) {
            WkParams P2; memset(&P2.p, 0, sizeof P2.p); P2.alloc(rep2);
            P2.p.l = rep2; P2.p.signatures = (in.p[0] == 0);
            bool ok2 = false, fault2 = false; JVal r2 = JVal::obj();
            GUARDED_CALL(fault2, ok2 = embedded_pairing_wkdibe_params_unmarshal(&P2.p, in.p, comp, checked));
            r2.set("ok", (long long) (ok2 ? 1 : 0));
            if (!fault2 && ok2) {
                r2.set("obj", dump_params(P2.p, rep2));
                size_t len = 0; GUARDED_CALL(fault2, len = embedded_pairing_wkdibe_params_get_marshalled_length(&P2.p, comp));
                r2.set("relen", (long long) len);
                if (!fault2 && len <= (1u << 20)) { Guarded o(len); GUARDED_CALL(fault2, embedded_pairing_wkdibe_params_marshal(o.p, &P2.p, comp)); r2.set("again", JVal::bytes(o.p, len)); }
            }
            r2.set("fault", (long long) (fault2 ? 1 : 0));
            r.set("route2", r2);
        }
    } else {
        // fixed-size kinds: the caller only unmarshals buffers of exactly the marshalled length
        size_t want = 0;
        if (kind == "wk.ct") want = embedded_pairing_wkdibe_ciphertext_get_marshalled_length(comp);
        else if (kind == "wk.sig") want = embedded_pairing_wkdibe_signature_get_marshalled_length(comp);
        else if (kind == "wk.msk") want = embedded_pairing_wkdibe_masterkey_get_marshalled_length(comp);
        else if (kind == "lq.params") want = embedded_pairing_lqibe_params_get_marshalled_length(comp);
        else if (kind == "lq.id") want = embedded_pairing_lqibe_id_get_marshalled_length(comp);
        else if (kind == "lq.msk") want = embedded_pairing_lqibe_masterkey_get_marshalled_length(comp);
        else if (kind == "lq.sk") want = embedded_pairing_lqibe_secretkey_get_marshalled_length(comp);
        else if (kind == "lq.ct") want = embedded_pairing_lqibe_ciphertext_get_marshalled_length(comp);
        r.set("want", (long long) want);
        if (n == want) {
            Guarded o(want);
            JVal obj = JVal::obj();
            if (kind == "wk.ct") { embedded_pairing_wkdibe_ciphertext_t c; GUARDED_CALL(fault, ok = embedded_pairing_wkdibe_ciphertext_unmarshal(&c, in.p, comp, checked));
                if (ok && !fault) { obj.set("a", J(*reinterpret_cast<Fq12*>(&c.a))); obj.set("b", J(*reinterpret_cast<G2*>(&c.b))); obj.set("c", J(*reinterpret_cast<G1*>(&c.c))); GUARDED_CALL(fault, embedded_pairing_wkdibe_ciphertext_marshal(o.p, &c, comp)); } }
            else if (kind == "wk.sig") { embedded_pairing_wkdibe_signature_t c; GUARDED_CALL(fault, ok = embedded_pairing_wkdibe_signature_unmarshal(&c, in.p, comp, checked));
                if (ok && !fault) { obj.set("a0", J(*reinterpret_cast<G1*>(&c.a0))); obj.set("a1", J(*reinterpret_cast<G2*>(&c.a1))); GUARDED_CALL(fault, embedded_pairing_wkdibe_signature_marshal(o.p, &c, comp)); } }
            else if (kind == "wk.msk") { embedded_pairing_wkdibe_masterkey_t c; GUARDED_CALL(fault, ok = embedded_pairing_wkdibe_masterkey_unmarshal(&c, in.p, comp, checked));
                if (ok && !fault) { obj.set("g2alpha", J(*reinterpret_cast<G1*>(&c.g2alpha))); GUARDED_CALL(fault, embedded_pairing_wkdibe_masterkey_marshal(o.p, &c, comp)); } }
            else if (kind == "lq.params") { embedded_pairing_lqibe_params_t c; GUARDED_CALL(fault, ok = embedded_pairing_lqibe_params_unmarshal(&c, in.p, comp, checked));
                if (ok && !fault) { obj.set("p", J(*reinterpret_cast<G2*>(&c.p))); obj.set("sp", J(*reinterpret_cast<G2*>(&c.sp))); GUARDED_CALL(fault, embedded_pairing_lqibe_params_marshal(o.p, &c, comp)); } }
            else if (kind == "lq.id") { embedded_pairing_lqibe_id_t c; GUARDED_CALL(fault, ok = embedded_pairing_lqibe_id_unmarshal(&c, in.p, comp, checked));
                if (ok && !fault) { obj.set("q", J(*reinterpret_cast<G1Affine*>(&c.q))); GUARDED_CALL(fault, embedded_pairing_lqibe_id_marshal(o.p, &c, comp)); } }
            else if (kind == "lq.sk") { embedded_pairing_lqibe_secretkey_t c; GUARDED_CALL(fault, ok = embedded_pairing_lqibe_secretkey_unmarshal(&c, in.p, comp, checked));
                if (ok && !fault) { obj.set("sq", J(*reinterpret_cast<G1Affine*>(&c.sq))); GUARDED_CALL(fault, embedded_pairing_lqibe_secretkey_marshal(o.p, &c, comp)); } }
            else if (kind == "lq.ct") { embedded_pairing_lqibe_ciphertext_t c; GUARDED_CALL(fault, ok = embedded_pairing_lqibe_ciphertext_unmarshal(&c, in.p, comp, checked));
                if (ok && !fault) { obj.set("rp", J(*reinterpret_cast<G2Affine*>(&c.rp))); GUARDED_CALL(fault, embedded_pairing_lqibe_ciphertext_marshal(o.p, &c, comp)); } }
            else if (kind == "lq.msk") { embedded_pairing_lqibe_masterkey_t c; GUARDED_CALL(fault, ok = embedded_pairing_lqibe_masterkey_unmarshal(&c, in.p, comp, checked));
                if (ok && !fault) { obj.set("s", J(*reinterpret_cast<BigInt<256>*>(&c.s))); GUARDED_CALL(fault, embedded_pairing_lqibe_masterkey_marshal(o.p, &c, comp)); } }
            if (ok && !fault) { r.set("obj", obj); again.assign(o.p, o.p + want); r.set("relen", (long long) want); }
        }
    }
    r.set("ok", (long long) (ok ? 1 : 0));
    r.set("fault", (long long) (fault ? 1 : 0));
    if (fault) r.set("fault_off", (long long) ((intptr_t) g_fault_addr - (intptr_t) in.p));
    if (!again.empty()) r.set("again", JVal::bytes(again.data(), again.size()));
    return r;
}

static void run_case(const JVal& in) {
    JVal ev = in;
    ev.set("cfg", VERIF_CFG);
    JVal out = JVal::obj();
    const std::string& op = in["op"].s;
    if (op == "mar.object") {
        // build the object from raw elements, marshal it into an exactly-sized guarded buffer
        const std::string& kind = in["kind"].s;
        bool comp = in["comp"].i != 0;
        const JVal& o = in["obj"];
        bool fault = false;
        std::vector<uint8_t> bytes;
        if (kind == "wk.key") {
            int l = (int) o["idx"].a.size();
            WkKey K; memset(&K.k, 0, sizeof K.k); K.alloc(l);
            K.k.l = l; K.k.signatures = o["sigs"].i != 0;
            U(o["a0"], *reinterpret_cast<G1*>(&K.k.a0)); U(o["a1"], *reinterpret_cast<G2*>(&K.k.a1)); U(o["bsig"], *reinterpret_cast<G1*>(&K.k.bsig));
            for (int i = 0; i < l; i++) { memset(&K.k.b[i], 0, sizeof(Slot)); U(o["b"].a[(size_t) i], *reinterpret_cast<G1*>(&K.k.b[i].hexp)); K.k.b[i].idx = (uint32_t) o["idx"].a[(size_t) i].i; }
            size_t len = embedded_pairing_wkdibe_secretkey_get_marshalled_length(&K.k, comp);
            out.set("len", (long long) len); out.set("len_static", (long long) embedded_pairing_wkdibe_secretkey_marshalled_length(l, K.k.signatures, comp));
            Guarded b(len); GUARDED_CALL(fault, embedded_pairing_wkdibe_secretkey_marshal(b.p, &K.k, comp)); bytes.assign(b.p, b.p + len);
        } else if (kind == "wk.params") {
            int l = (int) o["h"].a.size();
            WkParams P; memset(&P.p, 0, sizeof P.p); P.alloc(l);
            P.p.l = l; P.p.signatures = o["sigs"].i != 0;
            U(o["g"], *reinterpret_cast<G2*>(&P.p.g)); U(o["g1"], *reinterpret_cast<G2*>(&P.p.g1)); U(o["g2"], *reinterpret_cast<G1*>(&P.p.g2)); U(o["g3"], *reinterpret_cast<G1*>(&P.p.g3));
            U(o["pairing"], *reinterpret_cast<Fq12*>(&P.p.pairing)); U(o["hsig"], *reinterpret_cast<G1*>(&P.p.hsig));
            for (int i = 0; i < l; i++) U(o["h"].a[(size_t) i], *reinterpret_cast<G1*>(&P.p.h[i]));
            size_t len = embedded_pairing_wkdibe_params_get_marshalled_length(&P.p, comp);
            out.set("len", (long long) len); out.set("len_static", (long long) embedded_pairing_wkdibe_params_marshalled_length(l, P.p.signatures, comp));
            Guarded b(len); GUARDED_CALL(fault, embedded_pairing_wkdibe_params_marshal(b.p, &P.p, comp)); bytes.assign(b.p, b.p + len);
        } else if (kind == "wk.ct") {
            embedded_pairing_wkdibe_ciphertext_t c; U(o["a"], *reinterpret_cast<Fq12*>(&c.a)); U(o["b"], *reinterpret_cast<G2*>(&c.b)); U(o["c"], *reinterpret_cast<G1*>(&c.c));
            size_t len = embedded_pairing_wkdibe_ciphertext_get_marshalled_length(comp); out.set("len", (long long) len);
            Guarded b(len); GUARDED_CALL(fault, embedded_pairing_wkdibe_ciphertext_marshal(b.p, &c, comp)); bytes.assign(b.p, b.p + len);
        } else if (kind == "wk.sig") {
            embedded_pairing_wkdibe_signature_t c; U(o["a0"], *reinterpret_cast<G1*>(&c.a0)); U(o["a1"], *reinterpret_cast<G2*>(&c.a1));
            size_t len = embedded_pairing_wkdibe_signature_get_marshalled_length(comp); out.set("len", (long long) len);
            Guarded b(len); GUARDED_CALL(fault, embedded_pairing_wkdibe_signature_marshal(b.p, &c, comp)); bytes.assign(b.p, b.p + len);
        } else if (kind == "wk.msk") {
            embedded_pairing_wkdibe_masterkey_t c; U(o["g2alpha"], *reinterpret_cast<G1*>(&c.g2alpha));
            size_t len = embedded_pairing_wkdibe_masterkey_get_marshalled_length(comp); out.set("len", (long long) len);
            Guarded b(len); GUARDED_CALL(fault, embedded_pairing_wkdibe_masterkey_marshal(b.p, &c, comp)); bytes.assign(b.p, b.p + len);
        } else if (kind == "lq.params") {
            embedded_pairing_lqibe_params_t c; U(o["p"], *reinterpret_cast<G2*>(&c.p)); U(o["sp"], *reinterpret_cast<G2*>(&c.sp));
            size_t len = embedded_pairing_lqibe_params_get_marshalled_length(comp); out.set("len", (long long) len);
            Guarded b(len); GUARDED_CALL(fault, embedded_pairing_lqibe_params_marshal(b.p, &c, comp)); bytes.assign(b.p, b.p + len);
        } else if (kind == "lq.id" || kind == "lq.sk") {
            G1Affine a; U(o["q"], a);
            size_t len = kind == "lq.id" ? embedded_pairing_lqibe_id_get_marshalled_length(comp) : embedded_pairing_lqibe_secretkey_get_marshalled_length(comp); out.set("len", (long long) len);
            Guarded b(len);
            if (kind == "lq.id") GUARDED_CALL(fault, embedded_pairing_lqibe_id_marshal(b.p, (embedded_pairing_lqibe_id_t*) &a, comp));
            else GUARDED_CALL(fault, embedded_pairing_lqibe_secretkey_marshal(b.p, (embedded_pairing_lqibe_secretkey_t*) &a, comp));
            bytes.assign(b.p, b.p + len);
        } else if (kind == "lq.ct") {
            G2Affine a; U(o["rp"], a);
            size_t len = embedded_pairing_lqibe_ciphertext_get_marshalled_length(comp); out.set("len", (long long) len);
            Guarded b(len); GUARDED_CALL(fault, embedded_pairing_lqibe_ciphertext_marshal(b.p, (embedded_pairing_lqibe_ciphertext_t*) &a, comp)); bytes.assign(b.p, b.p + len);
        } else if (kind == "lq.msk") {
            embedded_pairing_lqibe_masterkey_t c; U(o["s"], *reinterpret_cast<BigInt<256>*>(&c.s));
            size_t len = embedded_pairing_lqibe_masterkey_get_marshalled_length(comp); out.set("len", (long long) len);
            Guarded b(len); GUARDED_CALL(fault, embedded_pairing_lqibe_masterkey_marshal(b.p, &c, comp)); bytes.assign(b.p, b.p + len);
        } else { out.set("skip", 1); }
        out.set("fault", (long long) (fault ? 1 : 0));
        out.set("bytes", JVal::bytes(bytes.data(), bytes.size()));
        if (!bytes.empty() && !fault) {
            out.set("checked", protocol_unmarshal(kind, comp, true, bytes.data(), bytes.size()));
            out.set("unchecked", protocol_unmarshal(kind, comp, false, bytes.data(), bytes.size()));
            g_misalign = true;      // the same protocol with every byte buffer (input and re-marshalled output) at an address = 1 (mod 16)
            out.set("checked_m", protocol_unmarshal(kind, comp, true, bytes.data(), bytes.size()));
            g_misalign = false;
        }
    } else if (op == "mar.bytes") {
        std::vector<uint8_t> b = in["bytes"].byte_vec();
        out.set("res", protocol_unmarshal(in["kind"].s, in["comp"].i != 0, in["checked"].i != 0, b.data(), b.size()));
    } else if (op == "mar.sweep") {
        // for every n in 1..nmax: a buffer of n bytes of the given content class through the protocol
        const std::string& kind = in["kind"].s;
        bool comp = in["comp"].i != 0, checked = in["checked"].i != 0;
        int nmax = (int) in["nmax"].i; int fb = (int) in["fb"].i;
        std::string content = in["content"].s;
        std::vector<uint8_t> valid = in["valid"].byte_vec();
        Rng g((uint64_t) in.num("seed", 1));
        JVal reps = JVal::arr(), oks = JVal::arr(), relens = JVal::arr(), faults = JVal::arr(), lafters = JVal::arr(), rep2s = JVal::arr();
        for (int n = 1; n <= nmax; n++) {
            std::vector<uint8_t> b((size_t) n);
            if (content == "zeros") memset(b.data(), 0, b.size());
            else if (content == "random") g.fill(b.data(), b.size());
            else { for (int i = 0; i < n; i++) b[(size_t) i] = valid.empty() ? 0 : valid[(size_t) i % valid.size()]; }   // valid object truncated / extended (repeated)
            if (fb >= 0) b[0] = (uint8_t) fb;
            JVal r = protocol_unmarshal(kind, comp, checked, b.data(), b.size());
            reps.push(JVal(r.num("rep", -9))); oks.push(JVal(r.num("ok", 0))); relens.push(JVal(r.num("relen", -1)));
            lafters.push(JVal(r.num("lafter", -9))); rep2s.push(JVal(r.num("rep2", -9)));
            if (r.num("fault", 0)) { JVal f = JVal::arr(); f.push(JVal((long long) n)); f.push(JVal(r.num("fault_off", 0))); faults.push(f); }
        }
        out.set("rep", reps); out.set("ok", oks); out.set("relen", relens); out.set("faults", faults); out.set("lafter", lafters); out.set("rep2", rep2s);
    } else out.set("skip", 1);
    ev.set("out", out);
    if (!out.has("skip")) emit(g_out, ev);
}

int main(int argc, char** argv) {
    install_crash_handlers();
    install_fault_handler();
    g_heap = getenv("VERIF_HEAP_BUFFERS") != nullptr;
    if (argc < 4) return 2;
    Rng g0(99); g_rng = &g0;
    FILE* f = fopen(argv[2], "r"); if (!f) { perror(argv[2]); return 2; }
    g_out = fopen(argv[3], "w"); if (!g_out) { perror(argv[3]); return 2; }
    std::string line;
    while (read_line(f, line)) { if (line.empty()) continue; run_case(jparse(line)); }
    fclose(g_out);
    return 0;
}
